"""C06 - the validator accepts every consistent schema and reports every broken reference.

Correspondence: Model/Cats/Validate.lean (driver_c06) against catparser.AstValidator on the *same* AST state (the raw parsed
declarations for PRE_EXPANSION, the really expanded ones for POST_EXPANSION), compared as multisets of
(typename, field names, message).

Direct evaluation: consistent schemas (random, written as CATS text and parsed by the real parser, plus both shipped sets) must
give no error in either mode, following the order of ``__main__``: PRE validation, apply_attributes / expand_named /
expand_unnamed, POST validation. Then every breaking operator is applied at every applicable site of the parsed objects, and
the oracle (which knows the site, the member, and the structs that contain or inherit it from the inline graph) demands:
no exception, at least one error naming a containing/inheriting struct (and the member, where there is one), and no error
naming any other struct.
"""
import traceback

from . import c05, cats_common, cats_json

RULE = (
	'consistent random schemas from VERIF_SEED as CATS text parsed by the real parser (1-3 inline templates with every member form, '
	'1-3 named-inline sites each, chains of unnamed inlines of depth 1-3 with struct attributes size/discriminator/initializes/comparer '
	'that resolve in the expanded layout, globally unique member names; attribute-less structs inlining two or three attribute-carrying '
	'structs in both orders, sharing the first base, with a further level) plus both shipped schema sets; then each of 19 breaking '
	'operator families plus the same template arriving twice in one layout (same unnamed inline twice, diamonds of depth 2-3, base that inlines it, '
	'own member colliding before/after the inline; unnamed plus named inline of one template as the clean control); each of the '
	'operator families (several variants each) at every applicable site of the parsed AST. A case is one (schema, operator, site); '
	'non-trivial = validation ran on it (not counted when the operator has no applicable site).')
TRUSTED_BASE = [
	'Lean 4.33 kernel; axioms of the property theorems: subset of {propext, Classical.choice, Quot.sound}',
	'hand-written model SymbolVerif/Model/Cats/Validate.lean, tied to AstValidator.py by this differential run only',
	'harness/cats_json.py wire encoding / Driver/CatsWire.lean decoding (cross-checked in C05 on every run)',
	'the oracle in harness/c06.py: generator of consistent schemas, breaking operators, containing/inheriting-struct closure',
]
ASSUMPTIONS = [
	'declaration names pairwise distinct',
	'the CLI clause (exit status 2) is checked through catparser.__main__ with the yaml stand-in when /verif/shims/yaml is present',
]

SIG_SIZEOF_KEYERROR = '_validate_sizeof KeyError: sizeof target member has an unknown type'
SIG_INLINE_ATTRIBUTEERROR = '_validate_struct_field AttributeError: named inline of an alias or enum (no disposition attribute)'
SIG_SORTKEY_CRASH = '_validate_array crash: sort_key on an array whose element type is not a struct'
SIG_SOUND_SIZEOF = 'consistent schema with sizeof inside a named-inline template: POST_EXPANSION reports unknown sizeof property (copy not re-pointed)'
ATTRIBUTE_MESSAGES = (
	'reference to unknown sizeref property', 'reference to unknown sort_key property', 'reference to "size" property',
	'reference to unknown "size" property', 'reference to unknown "discriminator" property', 'reference to unknown "comparer" ',
	'reference to unknown "intializes" property')


def is_attribute_kind(message):
	"""The message kinds that read a reference introduced by an attribute (Lean: attributeKinds)."""
	return message.startswith(ATTRIBUTE_MESSAGES) or (message.startswith('property "') and message.endswith('of different type'))


SIG_SOUND_SORTKEY = 'consistent schema with sort_key inside a named-inline template: POST_EXPANSION reports unknown sort_key property (copy prefixed)'


class UniqueNames:
	"""Member names unique across the whole schema (so that no expanded layout holds a duplicate)."""

	def __init__(self, rng):
		self.rng = rng
		self.counter = 0

	def member(self, stem=None):
		self.counter += 1
		return f'{stem or self.rng.choice(c05.WORDS)}{self.counter}'


def attribute_block(rng, names, body, abstract_without_const=False):
	"""Struct attributes that resolve in the struct's own body (hence in every expanded layout that holds it); adds members."""
	lines = []
	extra_const = None
	if rng.random() < 0.5:
		size_name = names.member('bytes')
		insert_line(rng, body, f'\t{size_name} = uint32')
		lines.append(f'@size({size_name})')
	if rng.random() < 0.3:
		lines.append(rng.choice(['@is_aligned', '@is_size_implicit']))
	discriminators = []
	for _ in range(rng.choice([0, 1, 1, 2])):
		if rng.random() < 0.5:
			member, const, type_name, value = names.member('kind'), names.member('kind').upper(), 'Kind', rng.choice(['NONE', 'SOME'])
		else:
			type_name = rng.choice(['uint8', 'uint16'])
			member, const, value = names.member('ver'), names.member('ver').upper(), rng.choice(['1', '0x20'])
		body.append(f'\t{member} = {type_name}')
		if abstract_without_const and extra_const is None:
			extra_const = f'\t{const} = make_const({type_name}, {value})'
		else:
			body.append(f'\t{const} = make_const({type_name}, {value})')
		lines.append(f'@initializes({member}, {const})')
		discriminators.append(member)
	if discriminators and rng.random() < 0.8:
		lines.append('@discriminator(' + ', '.join(discriminators) + ')')
	if rng.random() < 0.3:
		first, second = names.member('cmp'), names.member('cmp')
		body.append(f'\t{first} = Key')
		body.append(f'\t{second} = uint32')
		lines.append(f'@comparer({first}{rng.choice(["", "!ripemd_keccak_256"])}, {second})')
	rng.shuffle(lines)
	return lines, extra_const


def insert_line(rng, body, line):
	position = rng.randrange(0, len(body) + 1)
	while 0 < position < len(body) and body[position - 1].strip().startswith(('@', '#')):
		position -= 1
	body[position:position] = [line] if isinstance(line, str) else line


def gen_consistent(rng):
	"""A consistent schema as CATS text."""
	# pylint: disable=too-many-locals
	names = UniqueNames(rng)
	options = {}
	blocks = []
	chain_tops = []
	links = []
	for chain in range(rng.choice([1, 1, 2])):
		previous = None  # (name, constant line its users have to declare or None)
		depth = rng.randrange(1, 4)
		for level in range(depth):
			name = f'Link{chr(65 + chain)}x{level}'
			body = c05.gen_members(rng, names, options, allow_value=False)
			if previous is not None:
				body.insert(0, f'\tinline {previous[0]}')
				if previous[1] is not None:
					body.append(previous[1])  # the constant its abstract parent initializes from
			disposition = rng.choice(['abstract ', 'abstract ', 'inline ', ''])
			header, pending = attribute_block(rng, names, body, abstract_without_const='abstract ' == disposition and rng.random() < 0.5)
			blocks.append('\n'.join(header + [f'{disposition}struct {name}'] + body) + '\n')
			previous = (name, pending)
			links.append(name)
		chain_tops.append(previous)

	# structs WITHOUT attributes of their own that inline two or three attribute-carrying structs (abstract base + inline headers, in
	# both orders), several of them sharing the first base, and a further level on top: attribute inheritance must give every struct
	# its own list - a base must never end up with the attributes of a sibling base
	if rng.random() < 0.6:
		def carrier(name, disposition):
			while True:
				body = [f'\t{names.member()} = {rng.choice(c05.INT_TYPES)}']
				header, _ = attribute_block(rng, names, body)
				if header:
					blocks.append('\n'.join(header + [f'{disposition}struct {name}'] + body) + '\n')
					return name
		bases = [carrier(f'MultiBase{chr(65 + index)}q', 'abstract ') for index in range(rng.choice([1, 2]))]
		headers = [carrier(f'MultiHdr{chr(65 + index)}q', 'inline ') for index in range(rng.choice([1, 2, 3]))]
		derived = []
		for index in range(rng.choice([1, 2, 3])):
			name = f'MultiDerived{chr(65 + index)}q'
			parts = [bases[0] if rng.random() < 0.7 else rng.choice(bases)] + rng.sample(headers, rng.choice([1, min(2, len(headers))]))
			if rng.random() < 0.5:
				parts.reverse()
			body = [f'\tinline {part}' for part in parts]
			insert_line(rng, body, f'\t{names.member()} = {rng.choice(c05.INT_TYPES)}')
			blocks.append('\n'.join([f'{rng.choice(["", "", "abstract ", "inline "])}struct {name}'] + body) + '\n')
			derived.append((name, set(parts)))
		if rng.random() < 0.5:
			lower, used = rng.choice(derived)
			others = [header for header in headers if header not in used]
			body = [f'\tinline {lower}'] + ([f'\tinline {others[0]}'] if others and rng.random() < 0.7 else []) + [f'\t{names.member()} = uint8']
			blocks.append('\n'.join(['struct MultiTopq'] + body) + '\n')

	templates = []
	for index in range(rng.randrange(1, 4)):
		name = f'Tpl{chr(65 + index)}a'
		body = c05.gen_members(rng, names, options, allow_value=True)
		if templates and rng.random() < 0.25:
			body.append(f'\t{names.member("inner")} = inline {rng.choice(templates)}')
		blocks.append('\n'.join([f'inline struct {name}'] + body) + '\n')
		templates.append(name)

	uses = []
	for name in templates:
		uses.extend([name] * rng.randrange(1, 4))
	rng.shuffle(uses)
	site_index = 0
	while uses or 0 == site_index:
		site_index += 1
		take = min(len(uses), rng.choice([1, 1, 2, 3]))
		mine, uses = uses[:take], uses[take:]
		name = f'Site{chr(64 + site_index)}z'
		body = c05.gen_members(rng, names, options, allow_value=False) if rng.random() < 0.8 else [f'\t{names.member()} = uint8']
		for template in mine:
			insert_line(rng, body, f'\t{names.member(rng.choice(["aa", "bb", "left"]))} = inline {template}')
		disposition = rng.choice(['', '', '', 'abstract ', 'inline '])
		if rng.random() < 0.7:
			top = rng.choice(chain_tops)
			body.insert(0, f'\tinline {top[0]}')
			if top[1] is not None:
				body.append(top[1])
		header, extra_const = attribute_block(rng, names, body) if rng.random() < 0.6 else ([], None)
		blocks.append('\n'.join(header + [f'{disposition}struct {name}'] + body) + '\n')
	return c05.PREAMBLE + '\n'.join(blocks)

# region running the real validator


def validate_models(models, post):
	"""(errors as sorted list of (typename, sorted field names, message)) or ('crash', exception, function)."""
	from catparser.AstValidator import AstValidator  # pylint: disable=import-outside-toplevel
	validator = AstValidator(models)
	if post:
		validator.set_validation_mode(AstValidator.Mode.POST_EXPANSION)
	try:
		validator.validate()
	except Exception as ex:  # pylint: disable=broad-except
		frames = traceback.extract_tb(ex.__traceback__)
		return ('crash', type(ex).__name__, frames[-1].name if frames else '?', str(ex)[:120])
	return ('ok', sorted((str(error.typename), sorted(str(name) for name in (error.field_names or [])), str(error.message)) for error in validator.errors))


def expand_models(models):
	from catparser.AstPostProcessor import AstPostProcessor  # pylint: disable=import-outside-toplevel
	processor = AstPostProcessor(models)
	try:
		processor.apply_attributes()
		processor.expand_named_inlines()
		processor.expand_unnamed_inlines()
	except Exception as ex:  # pylint: disable=broad-except
		return f'{type(ex).__name__}: {str(ex)[:120]}'
	return None


def model_errors(ctx, mode, models):
	if ctx.driver is None:
		return None
	answer = cats_common.ask_json(ctx.driver, f'validate {mode} ' + cats_json.schema_to_wire(models))
	if answer is None:
		return None
	return sorted((item[0], sorted(item[1]), item[3]) for item in answer)

# endregion

# region inline graph


def struct_models(models):
	from catparser.ast import Struct  # pylint: disable=import-outside-toplevel
	return [model for model in models if isinstance(model, Struct)]


def containers_of(models, struct_name):
	"""Names of the structs that contain or inherit the members of struct_name (itself and everything that inlines it, transitively)."""
	from catparser.ast import StructInlinePlaceholder  # pylint: disable=import-outside-toplevel
	users = {}
	for model in struct_models(models):
		for field in model.fields:
			target = None
			if isinstance(field, StructInlinePlaceholder):
				target = str(field.inlined_typename)
			elif 'inline' == field.disposition:
				target = str(field.field_type)
			if target is not None:
				users.setdefault(target, set()).add(str(model.name))
	result = {struct_name}
	frontier = [struct_name]
	while frontier:
		current = frontier.pop()
		for user in users.get(current, ()):
			if user not in result:
				result.add(user)
				frontier.append(user)
	return result

# endregion

# region breaking operators


def find_sites(models):
	"""All (operator, variant, struct name, member index or None) applicable to the parsed declarations."""
	# pylint: disable=too-many-branches
	from catparser.ast import Array, Conditional, Enum, FixedSizeInteger, StructInlinePlaceholder  # pylint: disable=import-outside-toplevel
	sites = []
	for model in models:
		if isinstance(model, Enum) and model.values:
			sites.append(('duplicate_enum_name', 'copy-first', str(model.name), None))
	for model in struct_models(models):
		name = str(model.name)
		named_fields = [field for field in model.fields if hasattr(field, 'name')]
		for index, field in enumerate(model.fields):
			if isinstance(field, StructInlinePlaceholder):
				sites.append(('unknown_inlined_type', 'placeholder', name, index))
				# the same template arriving twice in one layout (the expansion then adds the very same member objects twice)
				for variant in ('same-unnamed-twice', 'diamond', 'diamond-deep', 'base-that-inlines-it', 'own-member-before', 'own-member-after'):
					sites.append(('duplicate_via_inline', variant, name, index))
				sites.append(('inline_twice_neutral', 'unnamed-plus-named', name, index))
				continue
			field_type = field.field_type
			if 'inline' == field.disposition:
				sites.append(('unknown_inlined_type', 'named', name, index))
				for variant in ('plain-struct', 'abstract-struct', 'alias', 'enum'):
					sites.append(('named_inline_of_non_inline', variant, name, index))
				continue
			if isinstance(field_type, str):
				sites.append(('unknown_member_type', 'rename', name, index))
			if isinstance(field_type, Array):
				if isinstance(field_type.element_type, str):
					sites.append(('unknown_element_type', 'rename', name, index))
				if isinstance(field_type.size, str):
					sites.append(('unknown_size_ref', 'rename', name, index))
				if any('sort_key' == attribute.name for attribute in (field.attributes or [])):
					sites.append(('unknown_sort_key', 'rename', name, index))
					sites.append(('unknown_sort_key', 'element-not-struct', name, index))
				sites.append(('inapplicable_attribute', 'sizeref-on-array', name, index))
			if isinstance(field_type, FixedSizeInteger):
				if any('sizeref' == attribute.name for attribute in (field.attributes or [])):
					sites.append(('unknown_sizeref_target', 'rename', name, index))
				if field.disposition is None and field.value is None and not field.attributes:
					sites.append(('inapplicable_attribute', 'sort_key-on-integer', name, index))
			if isinstance(field_type, str) and field.disposition is None and not field.attributes and field.value is None:
				sites.append(('inapplicable_attribute', 'alignment-on-named-type', name, index))
			if 'sizeof' == field.disposition:
				sites.append(('unknown_sizeof_target', 'rename', name, index))
				for variant in ('alias', 'struct-not-implicit', 'integer', 'unknown-type'):
					sites.append(('sizeof_fixed_or_not_implicit', variant, name, index))
			if isinstance(field.value, Conditional):
				sites.append(('unknown_condition_member', 'rename', name, index))
				sites.append(('condition_value_not_in_enum', 'bogus-name', name, index))
			if field.disposition in ('const', 'reserved'):
				sites.append(('const_value_not_in_enum_or_numeric', 'bogus-name', name, index))
			if 1 < len(named_fields):
				sites.append(('duplicate_member', 'rename-to-other', name, index))
		for attribute_index, attribute in enumerate(model.attributes or []):
			if 'size' == attribute.name:
				sites.append(('bad_size_attr', 'unknown', name, attribute_index))
				sites.append(('bad_size_attr', 'not-integer', name, attribute_index))
			elif 'discriminator' == attribute.name:
				sites.append(('bad_discriminator', 'unknown', name, attribute_index))
			elif 'comparer' == attribute.name:
				sites.append(('bad_comparer', 'unknown', name, attribute_index))
				sites.append(('bad_comparer', 'transform', name, attribute_index))
			elif 'initializes' == attribute.name:
				sites.append(('bad_initializer', 'unknown-target', name, attribute_index))
				sites.append(('bad_initializer', 'unknown-value', name, attribute_index))
				sites.append(('bad_initializer', 'different-type', name, attribute_index))
	return sites


def pick_type(models, kind, avoid=()):
	"""Name of a declaration of the schema of the wanted kind (alias / enum / plain struct without is_size_implicit / abstract struct)."""
	from catparser.ast import Alias, Enum, Struct  # pylint: disable=import-outside-toplevel
	for model in models:
		name = str(model.name)
		if name in avoid:
			continue
		if 'alias' == kind and isinstance(model, Alias):
			return name
		if 'enum' == kind and isinstance(model, Enum):
			return name
		if 'plain-struct' == kind and isinstance(model, Struct) and model.disposition is None and not model.is_size_implicit:
			return name
		if 'abstract-struct' == kind and isinstance(model, Struct) and 'abstract' == model.disposition:
			return name
	return None


def rng_disposition(index):
	return ['inline', 'abstract'][index % 2]  # never concrete: a concrete helper would owe the constants of inherited initializers


def apply_break(models, site):
	"""Breaks exactly one reference in place. Returns (member name or None, extra container names) or None when not applicable."""
	# pylint: disable=too-many-return-statements,too-many-branches,too-many-statements,too-many-locals
	from catparser.ast import Attribute, EnumValue, FixedSizeInteger  # pylint: disable=import-outside-toplevel
	operator, variant, struct_name, index = site
	model = next(item for item in models if str(item.name) == struct_name)
	if 'duplicate_enum_name' == operator:
		model.values.append(EnumValue([model.values[0].name, 99]))
		return (str(model.values[0].name), set())
	if operator.startswith('bad_'):
		attribute = model.attributes[index]
		plain = [field for field in model.fields if hasattr(field, 'name')]
		if 'bad_size_attr' == operator:
			if 'unknown' == variant:
				attribute.values[0] = 'nosuch'
			else:
				target = next((field for field in plain if not isinstance(field.field_type, FixedSizeInteger) and field.disposition is None), None)
				if target is None:
					return None
				attribute.values[0] = str(target.name)
			attribute.value = attribute.values[0]
			# only the FIRST size attribute of the expanded struct counts
			return (None, set())
		if 'bad_discriminator' == operator:
			attribute.values[-1] = 'nosuch'
			return (None, set())
		if 'bad_comparer' == operator:
			if 'unknown' == variant:
				attribute.values[0] = 'nosuch'
			else:
				attribute.values[1] = 'bogus_transform'
			return (None, set())
		if 'unknown-target' == variant:
			attribute.values[0] = 'nosuch'
		elif 'unknown-value' == variant:
			attribute.values[1] = 'NOSUCH'
		else:
			other = next((
				field for field in plain
				if field.disposition is None and str(field.field_type) != str(next(
					(item.field_type for item in plain if str(item.name) == attribute.values[0]), None))), None)
			if other is None:
				return None
			attribute.values[0] = str(other.name)
		attribute.value = attribute.values[0]
		return (None, set())

	field = model.fields[index]
	member = str(field.name) if hasattr(field, 'name') else None
	if operator in ('duplicate_via_inline', 'inline_twice_neutral'):
		from catparser.ast import Struct, StructField, StructInlinePlaceholder  # pylint: disable=import-outside-toplevel
		target = str(field.inlined_typename)
		target_model = next((item for item in models if str(item.name) == target), None)
		if not isinstance(target_model, Struct):
			return None
		position = next(i for i, item in enumerate(models) if item is model)

		def helper(suffix, placeholders, disposition='inline'):
			# a new struct declared right before the host (declared-before-use is kept), with one member of its own
			own = StructField([f'{suffix.lower()}_own_{len(models)}', FixedSizeInteger('uint8')])
			struct = Struct([disposition, f'{struct_name}{suffix}'] + [StructInlinePlaceholder([name]) for name in placeholders] + [own])
			models.insert(next(i for i, item in enumerate(models) if item is model), struct)
			return str(struct.name)

		if 'inline_twice_neutral' == operator:
			if 'inline' != target_model.disposition or any(isinstance(item, StructInlinePlaceholder) for item in target_model.fields):
				return None
			site_field = StructField([f'zzsite_{position}', target], 'inline')
			model.fields.append(site_field)
			return (None, set())
		if 'same-unnamed-twice' == variant:
			model.fields.insert(len(model.fields) if 0 == index % 2 else index + 1, StructInlinePlaceholder([target]))
		elif 'diamond' == variant:
			left, right = helper('Lq', [target]), helper('Rq', [target])
			model.fields[index] = StructInlinePlaceholder([left])
			model.fields.append(StructInlinePlaceholder([right]))
		elif 'diamond-deep' == variant:
			middle = helper('Mq', [target])
			left, right = helper('Lq', [middle]), helper('Rq', [target], rng_disposition(index))
			model.fields[index] = StructInlinePlaceholder([left])
			model.fields.insert(index + 1, StructInlinePlaceholder([right]))
		elif 'base-that-inlines-it' == variant:
			base = helper('Bq', [target], rng_disposition(index))
			model.fields.insert(index + 1 if 0 == index % 2 else len(model.fields), StructInlinePlaceholder([base]))
		else:
			candidate = next((item for item in target_model.fields if hasattr(item, 'name') and 'inline' != item.disposition), None)
			if candidate is None:
				return None
			clash = StructField([str(candidate.name), FixedSizeInteger('uint8')])
			model.fields.insert(index if 'own-member-before' == variant else index + 1, clash)
			return (str(candidate.name), set())
		return (None, set())
	if 'unknown_inlined_type' == operator:
		if 'placeholder' == variant:
			field.inlined_typename = 'Unknown9'
		else:
			field.field_type = 'Unknown9'
	elif 'named_inline_of_non_inline' == operator:
		replacement = pick_type(models, variant, avoid=(struct_name,))
		if replacement is None:
			return None
		field.field_type = replacement
	elif 'unknown_member_type' == operator:
		field.field_type = 'Unknown9'
	elif 'unknown_element_type' == operator:
		field.field_type.element_type = 'Unknown9'
	elif 'unknown_size_ref' == operator:
		field.field_type.size = 'nosuch'
		field.field_type._raw_size = 'nosuch'  # pylint: disable=protected-access
	elif 'unknown_sort_key' == operator:
		attribute = next(attribute for attribute in field.attributes if 'sort_key' == attribute.name)
		if 'rename' == variant:
			attribute.values[0] = 'nosuch'
			attribute.value = 'nosuch'
		else:
			replacement = pick_type(models, 'alias')
			field.field_type.element_type = FixedSizeInteger('uint8') if 0 == index % 2 or replacement is None else replacement
	elif 'unknown_sizeref_target' == operator:
		attribute = next(attribute for attribute in field.attributes if 'sizeref' == attribute.name)
		attribute.values[0] = 'nosuch'
		attribute.value = 'nosuch'
	elif 'inapplicable_attribute' == operator:
		new_attribute = {
			'sizeref-on-array': Attribute(['sizeref', 'nosuch', 1]),
			'sort_key-on-integer': Attribute(['sort_key', 'key']),
			'alignment-on-named-type': Attribute(['alignment', 8, None, None]),
		}[variant]
		field.attributes = list(field.attributes or []) + [new_attribute]
	elif 'unknown_sizeof_target' == operator:
		field.value = 'nosuch'
	elif 'sizeof_fixed_or_not_implicit' == operator:
		target = next((item for item in model.fields if hasattr(item, 'name') and str(item.name) == str(field.value)), None)
		if target is None:
			return None
		replacement = {
			'alias': pick_type(models, 'alias'), 'struct-not-implicit': pick_type(models, 'plain-struct', avoid=(struct_name,)),
			'integer': FixedSizeInteger('uint32'), 'unknown-type': 'Unknown9'}[variant]
		if replacement is None:
			return None
		target.field_type = replacement
	elif 'unknown_condition_member' == operator:
		field.value.linked_field_name = 'nosuch'
	elif 'condition_value_not_in_enum' == operator:
		field.value.value = 'BOGUS'
	elif 'const_value_not_in_enum_or_numeric' == operator:
		field.value = 'BOGUS'
	elif 'duplicate_member' == operator:
		other = next(item for item in model.fields if hasattr(item, 'name') and item is not field)
		field.name = other.name
		member = str(other.name)
	else:
		raise RuntimeError(f'unknown operator {operator}')
	return (member, set())

# endregion


class Checker:
	def __init__(self, ctx):
		self.ctx = ctx
		self.reported = {}

	def fail_property(self, what, case, signature=None):
		key = signature or 'other'
		self.reported[key] = self.reported.get(key, 0) + 1
		if self.reported[key] > (2 if signature else 8):
			self.ctx.count('known:' + key[:50] if signature else 'fail:property-not-listed')
			return
		self.ctx.fail('property', what, case, signature)

	def crash_signature(self, outcome, site):
		_, exception, function, _ = outcome
		operator, variant = (site[0], site[1]) if site else (None, None)
		if '_validate_sizeof' == function and 'KeyError' == exception and ('sizeof_fixed_or_not_implicit', 'unknown-type') == (operator, variant):
			return SIG_SIZEOF_KEYERROR
		if '_validate_sizeof' == function and 'KeyError' == exception and 'unknown_member_type' == operator:
			return SIG_SIZEOF_KEYERROR
		if '_validate_struct_field' == function and 'AttributeError' == exception and 'named_inline_of_non_inline' == operator and variant in ('alias', 'enum'):
			return SIG_INLINE_ATTRIBUTEERROR
		if function in ('_validate_array', '<genexpr>') and exception in ('KeyError', 'AttributeError') and ('unknown_sort_key', 'element-not-struct') == (
			operator, variant):
			return SIG_SORTKEY_CRASH
		return None

	def compare_with_model(self, mode, models, outcome, case):
		mine = model_errors(self.ctx, mode, models)
		if mine is None or 'ok' != outcome[0]:
			return
		if mine != outcome[1]:
			only_model = [item for item in mine if item not in outcome[1]]
			only_implementation = [item for item in outcome[1] if item not in mine]
			self.ctx.fail(
				'corr', f'{mode}: error lists differ; only model {only_model[:3]}, only implementation {only_implementation[:3]}', {**case, 'mode': mode})

	def pipeline(self, text, site, case, always_post=False):
		"""Runs the stages as __main__ does. Returns dict(pre, post, crash, expanded)."""
		ctx = self.ctx
		models = text() if callable(text) else cats_json.schema_from_wire(text)
		applied = None
		if site is not None:
			applied = apply_break(models, site)
			if applied is None:
				return None
		result = {'applied': applied, 'models': models, 'pre': None, 'post': None, 'crash': None, 'raised': None}
		pre = validate_models(models, post=False)
		if 'crash' == pre[0]:
			result['crash'] = pre
			self.fail_property(
				f'PRE_EXPANSION validation raises {pre[1]} in {pre[2]} ({pre[3]}) instead of reporting', {**case, 'stage': 'pre'}, self.crash_signature(pre, site))
			return result
		result['pre'] = pre[1]
		self.compare_with_model('pre', models, pre, case)
		if pre[1] and not always_post:
			return result
		raw_wire = cats_json.schema_to_wire(models) if not pre[1] else None
		raised = expand_models(models)
		if raised is not None:
			result['raised'] = raised
			return result
		post = validate_models(models, post=True)
		if 'crash' == post[0]:
			result['crash'] = post
			self.fail_property(
				f'POST_EXPANSION validation raises {post[1]} in {post[2]} ({post[3]}) instead of reporting', {**case, 'stage': 'post'},
				self.crash_signature(post, site))
			return result
		result['post'] = post[1]
		self.compare_with_model('post', models, post, case)
		if raw_wire is not None:
			self.check_stage_relation(raw_wire, post[1], case)
		return result

	def check_stage_relation(self, raw_wire, post_errors, case):
		"""Theorem post_errors_after_clean_pre evaluated on the real code: after a clean PRE stage (and successful expansion) every
		POST error is of an attribute kind or comes with a duplicate-member error for the same struct - whenever the decidable side
		conditions (decided by the model on the schema as it was before expansion) hold."""
		ctx = self.ctx
		if ctx.driver is None:
			return
		hypotheses = ctx.driver.ask('hyps ' + raw_wire)
		ctx.count('stages:hypotheses:' + hypotheses.replace(' ', '/'))
		if 'true true' != hypotheses:
			return
		ctx.count('stages:clean-pre-and-hypotheses')
		duplicates = {error[0] for error in post_errors if 'duplicate struct fields' == error[2]}
		for error in post_errors:
			if is_attribute_kind(error[2]):
				ctx.count('stages:post-error:attribute-kind')
			elif error[0] in duplicates:
				ctx.count('stages:post-error:with-duplicate-members')
			else:
				self.fail_property(
					f'after a clean PRE_EXPANSION stage the POST_EXPANSION stage reports {error}: a member-level clause that expansion cannot '
					'break (no duplicate-member error for that struct)', {**case, 'stage': 'post'})

	def check_consistent(self, source, label, text=None):
		"""Soundness on one consistent schema; returns the baseline POST errors caused by listed copy defects."""
		ctx = self.ctx
		case = {'label': label}
		if text is not None:
			case['cats'] = text
		result = self.pipeline(source, None, case)
		ctx.case((text or label, 'sound'), {'label': label, 'pre': result['pre'], 'post': result['post']})
		baseline = []
		if result['crash'] is not None:
			return None
		if result['pre']:
			self.fail_property(f'PRE_EXPANSION validation reports errors on a consistent schema: {result["pre"][:3]}', case)
			return None
		if result['raised'] is not None:
			self.fail_property(f'post-processing raises on a consistent schema: {result["raised"]}', case)
			return None
		for error in result['post']:
			if 'unknown sizeof property' in error[2]:
				self.fail_property(f'POST_EXPANSION validation reports {error} on a consistent schema', case, SIG_SOUND_SIZEOF)
				baseline.append(error)
			elif 'unknown sort_key property' in error[2] and '_' in error[2]:
				self.fail_property(f'POST_EXPANSION validation reports {error} on a consistent schema', case, SIG_SOUND_SORTKEY)
				baseline.append(error)
			else:
				self.fail_property(f'POST_EXPANSION validation reports {error} on a consistent schema', case)
		if not result['post']:
			ctx.count('sound:clean-in-both-modes')
		else:
			ctx.count('sound:post-errors-from-listed-copy-defects')
		if ctx.driver is not None and text is not None:
			answer = cats_common.ask_json(ctx.driver, 'pipeline ' + cats_json.schema_to_wire(cats_common.parse_text(text)))
			if answer is None or answer.get('pre') or answer.get('post') or 'error' in answer:
				ctx.fail('corr', f'the model pipeline (validate, expand, validate) is not clean on a consistent schema: {str(answer)[:300]}', case)
		return baseline

	def check_break(self, source, site, label, text, baseline, reference):
		"""source: wire text of the consistent schema; reference: its declarations (unbroken) for the inline graph."""
		ctx = self.ctx
		operator, variant, struct_name, _ = site
		if 'bad_initializer' == operator and variant in ('unknown-value', 'different-type'):
			# a struct that is not concrete may leave the constant to its descendants: the error is due in concrete inheritors only
			concrete = [
				name for name in containers_of(reference, struct_name)
				if next(model for model in reference if str(model.name) == name).disposition not in ('abstract', 'inline')]
			if struct_name not in concrete:
				ctx.count(f'break:{operator}:{variant}:left-to-descendants')
				if not concrete:
					return
		case = {'label': label, 'site': list(site)}
		if text is not None:
			case['cats'] = text
		result = self.pipeline(source, site, case, always_post=ctx.rng.random() < 0.1)
		if result is None:
			ctx.count(f'break:{operator}:{variant}:not-applicable')
			return
		ctx.count(f'break:{operator}:{variant}')
		ctx.case((text or label, tuple(site)), {'label': label, 'site': list(site), 'pre': result['pre'], 'post': result['post']})
		if result['crash'] is not None:
			return
		member, _ = result['applied']
		containers = containers_of(reference, struct_name)
		if 'inline_twice_neutral' == operator:
			# an unnamed and a named inline of one template: the names differ by the prefix, nothing is duplicated
			duplicates = [error for error in list(result['pre'] or []) + list(result['post'] or []) if 'duplicate struct fields' == error[2]]
			if duplicates or result['pre']:
				self.fail_property(f'{operator}/{variant} at {struct_name}: an unnamed plus a named inline of one template reports {duplicates or result["pre"]}', case)
			return
		if 'duplicate_via_inline' == operator:
			found = [error for error in list(result['pre'] or []) + list(result['post'] or []) if 'duplicate struct fields' == error[2] and error[0] in containers]
			if not any(member is None or member in error[1] for error in found):
				self.fail_property(
					f'{operator}/{variant} at {struct_name}: the expanded layout holds a member name twice, no stage reports duplicate struct fields for '
					f'{sorted(containers)}; errors: {(list(result["pre"] or []) + list(result["post"] or []))[:4]}', case)
				return
		if 'duplicate_member' == operator:
			# a renamed member is also visible from arrays that sort their elements (of this struct type) by it
			from catparser.ast import Array  # pylint: disable=import-outside-toplevel
			for model in struct_models(reference):
				if any(isinstance(getattr(field, 'field_type', None), Array) and struct_name == str(field.field_type.element_type) for field in model.fields):
					containers |= containers_of(reference, str(model.name))
		errors = list(result['pre'] or []) + [error for error in (result['post'] or []) if error not in baseline]
		if result['raised'] is not None and not errors:
			self.fail_property(f'{operator}/{variant} at {struct_name}: no validation error, post-processing raises {result["raised"]}', case)
			return

		def names_member(error):
			if member is None or operator.startswith('bad_'):
				return True
			return any(name == member or name.endswith('_' + member) for name in error[1])

		if not any(error[0] in containers and names_member(error) for error in errors):
			self.fail_property(
				f'{operator}/{variant} at {struct_name}.{member}: no stage reports an error naming a containing struct {sorted(containers)} '
				f'and the member; errors: {errors[:4]}', case)
		outside = [error for error in errors if error[0] not in containers]
		if outside:
			self.fail_property(
				f'{operator}/{variant} at {struct_name}.{member}: errors reported for structs that neither contain nor inherit the site: {outside[:3]}', case)


def run(ctx):
	# pylint: disable=too-many-locals
	rng = ctx.rng
	checker = Checker(ctx)

	for name in ('symbol', 'nem'):
		def loader(name=name):
			return cats_common.load_schema_set(name)
		baseline = checker.check_consistent(loader, f'shipped:{name}')
		if baseline is None:
			continue
		reference = loader()
		wire = cats_json.schema_to_wire(reference)
		sites = find_sites(reference)
		ctx.count(f'shipped:{name}:sites', len(sites))
		for site in rng.sample(sites, min(len(sites), ctx.scale(60, 1000))):
			checker.check_break(wire, site, f'shipped:{name}', None, baseline, reference)

	count = ctx.scale(62, 600)
	for index in range(count):
		text = gen_consistent(rng)
		label = f'random:{index}'
		try:
			baseline = checker.check_consistent(lambda text=text: cats_common.parse_text(text), label, text)
			if baseline is None:
				continue
			reference = cats_common.parse_text(text)
			wire = cats_json.schema_to_wire(reference)
			for site in find_sites(reference):
				checker.check_break(wire, site, label, text, baseline, reference)
		except Exception as ex:  # pylint: disable=broad-except
			ctx.fail('corr', f'harness error {type(ex).__name__}: {ex} {traceback.format_exc(limit=4)}', {'label': label, 'cats': text})
			if ctx.counters.get('fail:corr', 0) > 5:
				break
	check_stage_witnesses(ctx, checker)
	check_cli(ctx, checker)
	check_pipeline(ctx, checker)


STAGE_WITNESSES = [
	# (label, CATS text, patch, expected POST errors as (typename, field names, message))
	('stages-example', '''enum Mode : uint8
	ROAD = 1
	SEA = 2

@is_size_implicit
struct Thing
	tag = uint16

inline struct Tpl
	size = uint16
	__value__ = array(uint8, size)
	len = sizeof(uint16, body)
	mode = Mode
	body = Thing if ROAD equals mode

struct Host
	aa = inline Tpl
	count = uint8
	bb = inline Tpl
''', None, []),
	('clash-breaks-condition', '''enum Mode : uint8
	ROAD = 1
	SEA = 2

abstract struct Base
	kind = Mode
	opt = uint8 if ROAD equals kind

struct Host
	inline Base
	kind = uint8
''', None, [('Host', ['kind'], 'duplicate struct fields'), ('Host', ['opt'], 'field value "ROAD" is not a valid numeric value')]),
	('inline-site-reference-breaks', '''inline struct Tpl
	size = uint8

struct Host
	aa = inline Tpl
	items = array(uint8, aa)
''', None, [('Host', ['items'], 'reference to unknown size property "aa"')]),
	('value-reference-breaks', '''inline struct Tpl
	__value__ = uint8
	items = array(uint8, size)

struct Host
	aa = inline Tpl
''', 'value-ref', [('Host', ['aa_items'], 'reference to unknown size property "aa___value__"')]),
	('attribute-reference-only-seen-after-expansion', '''struct Elem
	key = uint8

@size(gone)
struct Host
	@sizeref(nosuch, 2)
	size = uint16
	count = uint8
	@sort_key(nokey)
	items = array(Elem, count)
''', None, [
		('Host', [], 'reference to unknown "size" property "gone"'), ('Host', ['items'], 'reference to unknown sort_key property "nokey"'),
		('Host', ['size'], 'reference to unknown sizeref property "nosuch"')]),
]


def check_stage_witnesses(ctx, checker):
	"""The witnesses of Properties/C06.lean (clash_breaks_condition, inline_site_reference_breaks, value_reference_breaks,
	attribute_reference_only_seen_after_expansion, and the positive example) replayed on the real catparser: clean PRE stage,
	successful expansion, exactly the POST errors the Lean theorems state; the model pipeline has to agree."""
	for label, text, patch, expected in STAGE_WITNESSES:
		def load(text=text, patch=patch):
			models = cats_common.parse_text(text)
			if 'value-ref' == patch:
				# the grammar cannot name `__value__` as a size; an AST can
				array = models[0].fields[1].field_type
				array.size = '__value__'
				array._raw_size = '__value__'  # pylint: disable=protected-access
			return models
		case = {'label': f'witness:{label}', 'cats': text}
		models = load()
		model_answer = None
		if ctx.driver is not None:
			model_answer = cats_common.ask_json(ctx.driver, 'pipeline ' + cats_json.schema_to_wire(models))
		pre = validate_models(models, post=False)
		raised = expand_models(models) if ('ok', []) == pre else 'not run'
		post = validate_models(models, post=True) if raised is None else None
		ctx.case(('witness', label), {'label': label, 'pre': pre, 'post': post})
		ctx.count(f'witness:{label}')
		if ('ok', []) != pre or raised is not None or post is None or 'ok' != post[0]:
			checker.fail_property(f'witness {label}: expected a clean PRE stage and a successful expansion, got pre={pre} raised={raised} post={post}', case)
			continue
		if sorted(post[1]) != sorted(expected):
			checker.fail_property(f'witness {label}: the Lean theorem states POST errors {expected}, the implementation reports {post[1]}', case)
		if model_answer is not None:
			mine = sorted((item[0], sorted(item[1]), item[3]) for item in model_answer.get('post', [['?', [], '', '?']]))
			if model_answer.get('pre') or 'error' in model_answer or mine != sorted(post[1]):
				ctx.fail('corr', f'witness {label}: model pipeline {str(model_answer)[:300]} differs from the implementation {post[1]}', case)


def validator_verdict(text):
	"""What the two validation stages report for a schema text, driven directly (PRE on the parsed schema, POST on the same list
	after attribute application and both expansions) - the oracle for the command-line pipeline."""
	from catparser.AstPostProcessor import AstPostProcessor  # pylint: disable=import-outside-toplevel
	from catparser.AstValidator import AstValidator  # pylint: disable=import-outside-toplevel
	models = cats_common.parse_text(text)

	def errors(mode):
		validator = AstValidator(models)
		validator.set_validation_mode(mode)
		validator.validate()
		return len(validator.errors)

	if errors(AstValidator.Mode.PRE_EXPANSION):
		return 'pre'
	processor = AstPostProcessor(models)
	processor.apply_attributes()
	processor.expand_named_inlines()
	processor.expand_unnamed_inlines()
	return 'post' if errors(AstValidator.Mode.POST_EXPANSION) else 'clean'


def check_pipeline(ctx, checker):
	"""The command line reports what the validator reports: broken struct-level attributes (@size, @discriminator, @comparer,
	@initializes) are seeded on structs of every disposition - plain, abstract, inline, used and unused - of consistent random
	schemas, and `catparser.__main__.main()` must exit 2 exactly when a stage driven directly has an error (0 when both are clean)."""
	import os  # pylint: disable=import-outside-toplevel
	import re  # pylint: disable=import-outside-toplevel

	from . import c17  # pylint: disable=import-outside-toplevel
	rng = ctx.rng
	implementation = c17.Implementation(ctx)
	directory = os.path.join(ctx.tmpdir(), 'pipeline')
	os.makedirs(directory, exist_ok=True)
	attributes = ['@size(no_such_member)', '@discriminator(no_such_member)', '@comparer(no_such_member)', '@initializes(no_such_member, NO_SUCH_CONST)']
	runs = 0
	budget = ctx.scale(60, 600)
	while runs < budget:
		text = gen_consistent(rng)
		lines = text.split('\n')
		declarations = [index for index, line in enumerate(lines) if re.match(r'(abstract |inline )?struct ', line)]
		variants = [('unchanged', text)]
		for index in rng.sample(declarations, min(len(declarations), 3)):
			start = index
			while start > 0 and lines[start - 1].startswith(('@', '#')):
				start -= 1
			disposition = lines[index].split('struct')[0].strip() or 'plain'
			attribute = rng.choice(attributes)
			variants.append((f'{attribute.split("(")[0]}:{disposition}', '\n'.join(lines[:start] + [attribute] + lines[start:])))
		for label, variant in variants:
			try:
				verdict = validator_verdict(variant)
			except Exception:  # pylint: disable=broad-except
				continue  # crashes of the stages are the business of check_break
			path = os.path.join(directory, f'schema{runs}.cats')
			with open(path, 'wt', encoding='utf8') as outfile:
				outfile.write(variant)
			status, crash, _ = implementation.main(directory, ['--schema', path, '--include', directory, '--quiet'])
			runs += 1
			ctx.case(('pipeline', variant), {'label': f'pipeline:{label}', 'status': status, 'stages': verdict} if runs < 3 else None)
			ctx.count(f'pipeline:{label}:{verdict}:status-{status}')
			expected = 0 if 'clean' == verdict else 2
			if status != expected:
				checker.fail_property(
					f'command line exits {status} ({crash}) for a schema whose {verdict} validation stage '
					f'{"reports errors" if "clean" != verdict else "is clean"} ({label})', {'label': f'pipeline:{label}', 'cats': variant})


def check_cli(ctx, checker):
	"""`python -m catparser` exits with status 2 when a stage reports errors (needs the yaml stand-in)."""
	import os  # pylint: disable=import-outside-toplevel
	import subprocess  # pylint: disable=import-outside-toplevel
	import sys  # pylint: disable=import-outside-toplevel

	from .common import REPO, ROOT  # pylint: disable=import-outside-toplevel
	shims = os.path.join(ROOT, 'shims')
	if not (os.path.exists(os.path.join(shims, 'yaml')) or os.path.exists(os.path.join(shims, 'yaml.py'))):
		ctx.notes.append('CLI exit status clause not run: no yaml stand-in under /verif/shims')
		ctx.count('cli:skipped-no-yaml-shim')
		return
	directory = ctx.tmpdir()
	env = dict(os.environ, PYTHONPATH=os.pathsep.join([os.path.join(REPO, 'catbuffer', 'parser'), shims]), PYTHONDONTWRITEBYTECODE='1')
	cases = [
		('clean', 'using Height = uint64\n\nstruct Aa\n\theight = Height\n', 0),
		('pre-error', 'struct Aa\n\theight = Unknown\n', 2),
		('post-error', '@size(nosuch)\nstruct Aa\n\theight = uint8\n', 2),
		('duplicate', 'struct Aa\n\thh = uint8\n\thh = uint8\n', 2),
	]
	for label, text, expected in cases:
		path = os.path.join(directory, f'{label}.cats')
		with open(path, 'wt', encoding='utf8') as outfile:
			outfile.write(text)
		proc = subprocess.run(
			[sys.executable, '-m', 'catparser', '--schema', path, '--include', directory, '--quiet'], env=env, capture_output=True, text=True, timeout=60,
			check=False)
		ctx.case(('cli', label), {'label': f'cli:{label}', 'status': proc.returncode})
		ctx.count(f'cli:{label}:status-{proc.returncode}')
		if proc.returncode != expected:
			checker.fail_property(
				f'CLI exit status for {label}: expected {expected}, got {proc.returncode}: {(proc.stdout + proc.stderr)[-300:]}', {'label': f'cli:{label}', 'cats': text})


def replay(ctx, payload):
	print(payload['what'])
	case = payload.get('case') or {}
	checker = Checker(ctx)
	if 'cats' in case:
		text = case['cats']
		baseline = checker.check_consistent(lambda: cats_common.parse_text(text), case.get('label', 'replay'), text) or []
		if 'site' in case:
			reference = cats_common.parse_text(text)
			checker.check_break(cats_json.schema_to_wire(reference), tuple(case['site']), case.get('label', 'replay'), text, baseline, reference)
	else:
		run(ctx)


MANIFEST = {
	'level_text': (
		'Lean theorems over the model of AstValidator: validate_sound (a declaratively Consistent schema has no error in either mode), one '
		'completeness theorem per breakage kind (the broken site yields an error naming the struct and the member), errors_localised (the '
		'errors of a declaration depend only on that declaration and the types it refers to), and the two stages related through expansion: '
		'expand_preserves_consistent / post_errors_after_clean_pre (after a clean PRE stage only attribute-introduced references or a name clash can '
		'fail POST) with witnesses that each side condition is necessary; the model is tied to the code by a '
		'differential run on the same AST states, consistent random schemas, both shipped sets and every breaking operator at every site.'),
	'level_note': (
		'Trusted: Lean kernel + {propext, Classical.choice, Quot.sound}; hand-written model tied by differential execution only. The model '
		'always reports. The stage relation is proved for schemas in declared-before-use order with well-formed references (decidable, '
		'decided by the model on every case where it is used); struct-level attribute clauses speak about the expanded layout by nature.'),
	'technique': 'Lean 4 theorems over a hand-written model + differential correspondence with the Python implementation',
}

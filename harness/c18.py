"""C18 - derived facts handed to generators follow from the schema relations alone.

Correspondence: Model/Cats/Derive.lean (driver_c18) against catparser.generators.util (build_factory_map, extend_models) on
really expanded schemas: random ones written as CATS text, parsed and post-processed by the real code, and both shipped sets
(root all_generated.cats, the one the SDK generator uses). The model gets the wire encoding of the expanded declarations and,
for the unaligned propagation, the iteration order the Python set of struct names has in this process.

Direct evaluation: the clauses of the property restated on the Python objects (children per factory in declaration order,
discriminator names/values/types, bound fields both ways, abstract contents flag, lower and upper bound of the
requires-unaligned marks, emptiness) plus order independence of the marks: the real _process_struct/_propagate_unaligned are
re-run on fresh copies with shuffled iteration orders.
"""
import traceback

from . import cats_common, cats_json

RULE = (
	'random schemas from VERIF_SEED as CATS text, parsed and expanded by the real code: 1-3 abstract factories (aligned or not, 1-2 '
	'discriminators in either order, initializers shuffled, repeated, for non-discriminator members, rarely missing; optional abstract '
	'intermediate level that may override), 2-5 descendants per factory declared interleaved, any of them overriding inherited initializers, descendants holding '
	'struct-typed members (plain, aligned, other descendants), count/size arrays whose size member is builtin, alias or enum typed, '
	'declared in place or in an inlined header, sizeof pairs; holder structs (aligned or not) with '
	'arrays of factories, aligned/unaligned structs, descendants, bytes; plus symbol and nem all_generated.cats. A case is one '
	'(schema, observable) comparison; non-trivial = the schema has at least one factory or array.')
TRUSTED_BASE = [
	'Lean 4.33 kernel; axioms of the property theorems: subset of {propext, Classical.choice, Quot.sound}',
	'hand-written model SymbolVerif/Model/Cats/Derive.lean, tied to generators/util.py by this differential run only',
	'harness/cats_json.py wire encoding / Driver/CatsWire.lean decoding (cross-checked in C05 on every run)',
	'the restatement of the clauses in harness/c18.py',
]
ASSUMPTIONS = [
	'the iteration order of the Python set of struct names is passed to the model as a list (list(set) in the same process)',
	'the model mirrors _propagate_unaligned with fixes/c18-propagate-unaligned.diff applied (member types are marked but not counted as '
	'visited); order independence and the lower bound are then theorems for all schemas',
]

SIG_ORDER = '_propagate_unaligned result depends on the iteration order of struct_names (member type of a marked descendant is itself a descendant)'

KINDS = ['NONE', 'SOME', 'MORE', 'LAST']
SIZE_MEMBER_TYPES = ['uint8', 'uint16', 'uint32', 'Count', 'Count', 'ByteSize', 'Height', 'Kind']


def gen_schema(rng, options=None):
	# pylint: disable=too-many-locals,too-many-branches,too-many-statements
	options = options or {}
	lines = [
		'using Height = uint64', 'using Key = binary_fixed(32)', 'using Count = uint16', 'using ByteSize = uint32', '',

		'enum Kind : uint16', '\tNONE = 0', '\tSOME = 1', '\tMORE = 2', '\tLAST = 513', '',
		'@is_aligned', 'struct ElemA', '\tkey = uint64', '',
		'struct ElemU', '\tkey = uint32', '\tweight = Height', '',
		'struct Plain', '\txx = uint8', '',
		'@is_size_implicit', 'struct Thing', '\ttag = uint16', '']
	blocks = []
	factories = []
	counter = [0]

	def fresh(stem):
		counter[0] += 1
		return f'{stem}{counter[0]}'

	struct_types = ['Plain', 'ElemA', 'ElemU', 'Thing']
	for index in range(rng.randrange(1, 4)):
		name = f'Fac{chr(65 + index)}x'
		two = rng.random() < 0.5
		header = []
		aligned = rng.random() < 0.5
		if aligned:
			header.append('@is_aligned')
		header.append(rng.choice(['@discriminator(kind, ver)', '@discriminator(ver, kind)']) if two else '@discriminator(kind)')
		# initializers in any order relative to the discriminator names, with an initializer of a non-discriminator member in between,
		# now and then repeated for one target, and (rarely) a discriminator left without an initializer (build_factory_map raises)
		initializers = ['@initializes(kind, KIND)']
		missing = two and rng.random() < 0.05
		if (two and not missing) or (not two and rng.random() < 0.3):
			initializers.append('@initializes(ver, VER)')
		extra = rng.random() < 0.5
		if extra:
			initializers.append('@initializes(extra, EXTRA)')
		if rng.random() < 0.15:
			initializers.append(rng.choice(['@initializes(kind, SPECIAL)', '@initializes(ver, VER)']))
		rng.shuffle(initializers)
		header += initializers
		if rng.random() < 0.5:
			rng.shuffle(header)
		body = ['\tbytes = uint32'] if rng.random() < 0.5 else []
		body += ['\tkind = Kind', '\tver = uint8'] + (['\textra = uint16'] if extra else [])
		blocks.append(('factory', name, '\n'.join(header + [f'abstract struct {name}'] + body)))
		entry = {'name': name, 'two': two, 'aligned': aligned, 'parents': [name]}
		if rng.random() < 0.4:
			middle = f'Mid{chr(65 + index)}x'
			header = ['@is_aligned'] if rng.random() < 0.5 else []
			if rng.random() < 0.3:
				header.append('@initializes(kind, SPECIAL)')  # an override between the factory and its later descendants
			blocks.append(('factory', middle, '\n'.join(header + [f'abstract struct {middle}', f'\tinline {name}', f'\t{fresh("mid")} = uint16'])))
			entry['parents'].append(middle)
		factories.append(entry)

	descendants = []
	for entry in factories:
		for index in range(rng.randrange(2, 6)):
			name = f'Desc{entry["name"][3]}{chr(97 + index)}'
			parent = rng.choice(entry['parents'])
			body = [
				f'\tKIND = make_const(Kind, {rng.choice(KINDS)})', f'\tVER = make_const(uint8, {index + 1})',
				f'\tEXTRA = make_const(uint16, {index})', f'\tSPECIAL = make_const(Kind, {rng.choice(KINDS)})', f'\tOWN = make_const(uint8, {index + 9})']
			members = []
			for _ in range(rng.randrange(0, 4)):
				pick = rng.random()
				if pick < 0.3:
					members.append(f'\t{fresh("num")} = {rng.choice(["uint8", "uint32", "Height", "Key", "Kind"])}')
				elif pick < 0.6:
					members.append(f'\t{fresh("sub")} = {rng.choice(struct_types + [item for item in descendants[-3:]])}')
				elif pick < 0.8:
					target = fresh('body')
					members.append(f'\t{fresh("size")} = sizeof(uint16, {target})')
					if rng.random() < 0.4:
						members.append(f'\t{fresh("size")} = sizeof(uint32, {target})')
					members.append(f'\t{target} = Thing')
				elif not options.get('no_arrays_in_descendants'):
					count = fresh('count')
					members.append(f'\t{count} = {rng.choice(SIZE_MEMBER_TYPES)}')
					members.append(f'\t{fresh("items")} = array({rng.choice(["uint8", "ElemA", "ElemU", "Plain"])}, {count})')
					if rng.random() < 0.3:
						members.append(f'\t{fresh("more")} = array(uint8, {count})')
			position = rng.choice([0, len(members)])
			members[position:position] = [f'\tinline {parent}']
			header = ['@is_aligned'] if rng.random() < 0.4 else []
			# a descendant at any position among its siblings (the first one seeds the factory descriptor) overrides inherited
			# initializers: its own come first in the inherited attribute order, possibly twice for one target
			if rng.random() < 0.3:
				own = [rng.choice(['@initializes(kind, SPECIAL)', '@initializes(ver, OWN)'])]
				if rng.random() < 0.4:
					own.append(rng.choice(['@initializes(kind, KIND)', '@initializes(ver, OWN)', '@initializes(kind, SPECIAL)', '@initializes(extra, EXTRA)']))
				header += own
				rng.shuffle(header)
			blocks.append(('descendant', name, '\n'.join(header + [f'struct {name}'] + body + members)))
			descendants.append(name)

	holders = rng.randrange(1, 5)
	for index in range(holders):
		name = f'Holder{chr(65 + index)}x'
		header = ['@is_aligned'] if rng.random() < 0.35 else []
		body = []
		for _ in range(rng.randrange(1, 4)):
			count = fresh('count')
			element = rng.choice(['ElemA', 'ElemA', 'ElemU', 'Plain', 'uint8', 'int8'] + [entry['name'] for entry in factories] + descendants[:3])
			if rng.random() < 0.25:
				element = rng.choice(['Key', 'Kind', 'Height'])  # arrays of aliases / enums, in aligned and unaligned structs
			# the size member: builtin integer, alias or enum typed (the validator only asks that the member exists), declared here or
			# arriving through an inlined header
			if rng.random() < 0.25:
				# a header of its own, or one header shared by several holders: an unnamed inline shares the member OBJECTS between all
				# structs that inline it, and every holder's size member must still be bound to the holder's own array (extend_models
				# bound a shared header's member to whichever holder was processed last: repaired in /repo, 98e33f939)
				if not any('inline CountHeader' in line for line in body):
					header_name = 'CountHeaderSx' if rng.random() < 0.5 else f'CountHeader{chr(65 + index)}x'
					body.insert(0, f'\tinline {header_name}')
					if not any(header_name == block[1] for block in blocks):
						blocks.append(('factory', header_name, '\n'.join([f'inline struct {header_name}', '\thcount = Count', '\thsize = ByteSize', '\thplain = uint8'])))
				count = rng.choice(['hcount', 'hsize', 'hplain'])
			else:
				body.append(f'\t{count} = {rng.choice(SIZE_MEMBER_TYPES)}')
			if rng.random() < 0.3:
				body.append('\t@is_byte_constrained')
			if rng.random() < 0.3:
				# an aligned array in an aligned or unaligned holder: the alignment of the ARRAY says nothing about the unaligned mark of
				# its element type
				body.append(f'\t@alignment({rng.choice([4, 8])}{rng.choice(["", "", ", not pad_last", ", pad_last"])})')
			body.append(f'\t{fresh("items")} = array({element}, {count})')
		if rng.random() < 0.3:
			body.append(f'\t{fresh("tail")} = array({rng.choice(["ElemA", "uint8"])}, 4)')
		blocks.append(('holder', name, '\n'.join(header + [f'struct {name}'] + body)))

	# declaration order: factories first (declared before use), descendants of different factories interleaved, holders anywhere after
	first = [block for block in blocks if 'factory' == block[0]]
	rest = [block for block in blocks if 'factory' != block[0]]
	descendant_blocks = [block for block in rest if 'descendant' == block[0]]
	holder_blocks = [block for block in rest if 'holder' == block[0]]
	# keep descendants that are used as member types before their users: stable shuffle by factory interleaving only
	by_factory = {}
	for block in descendant_blocks:
		by_factory.setdefault(block[1][4], []).append(block)
	interleaved = []
	queues = list(by_factory.values())
	order_of_creation = {block[1]: index for index, block in enumerate(descendant_blocks)}
	while any(queues):
		queue = rng.choice([queue for queue in queues if queue])
		interleaved.append(queue.pop(0))
	# a struct-typed member may only name an earlier declared descendant: fall back to creation order if violated
	seen = set()
	valid = True
	for block in interleaved:
		for word in block[2].replace('\n', ' ').split():
			if word.startswith('Desc') and word != block[1] and word not in seen:
				valid = False
		seen.add(block[1])
	if not valid:
		interleaved = sorted(interleaved, key=lambda block: order_of_creation[block[1]])
	for block in holder_blocks:
		interleaved.insert(rng.randrange(0, len(interleaved) + 1), block)
	text = '\n'.join(lines) + '\n' + '\n\n'.join(block[2] for block in first + interleaved) + '\n'
	return text


ORDER_DEPENDENT = '''@is_aligned
struct ElemA
	key = uint32

struct Holder
	count = uint8
	items = array(Ff, count)

struct Uu
	xx = uint8

@is_aligned
@discriminator(kind)
@initializes(kind, KIND)
abstract struct Ff
	kind = uint8

@is_aligned
abstract struct Gg
	inline Ff
	gg = uint8

@is_aligned
struct Tt
	KIND = make_const(uint8, 1)
	inline Gg
	uu = Uu

@is_aligned
struct Dd
	KIND = make_const(uint8, 2)
	inline Ff
	tt = Tt
'''

# region the real code


def expand(models):
	from catparser.AstPostProcessor import AstPostProcessor  # pylint: disable=import-outside-toplevel
	processor = AstPostProcessor(models)
	processor.apply_attributes()
	processor.expand_named_inlines()
	processor.expand_unnamed_inlines()
	return processor.type_descriptors


def printer_factory(type_model, name, is_pod):
	return (type_model, name, is_pod)


def is_struct(model):
	from catparser.DisplayType import DisplayType  # pylint: disable=import-outside-toplevel
	return DisplayType.STRUCT == model.display_type


def run_extend(models, order_function=None):
	"""extend_models (order_function None) or its two steps with an explicit iteration order. Returns None or the exception text."""
	from catparser.generators import util  # pylint: disable=import-outside-toplevel
	try:
		if order_function is None:
			util.extend_models(models, printer_factory)
		else:
			type_map = {model.name: model for model in models}
			names = []
			for model in models:
				if is_struct(model):
					util._process_struct(model, type_map, printer_factory)  # pylint: disable=protected-access
					names.append(model.name)
			util._propagate_unaligned(order_function(names), type_map)  # pylint: disable=protected-access
	except Exception as ex:  # pylint: disable=broad-except
		return f'{type(ex).__name__}: {str(ex)[:100]}'
	return None


def set_order(models):
	names = set()
	for model in models:
		if is_struct(model):
			names.add(model.name)
	return [str(name) for name in names]


def member_position(model, member):
	return next((index for index, item in enumerate(model.fields) if item is member), -1)


def observed_extensions(models):
	result = {}
	for model in models:
		if not is_struct(model):
			continue
		rows = []
		for field in model.fields:
			extensions = getattr(field, 'extensions', None)
			if extensions is None:
				rows = None
				break
			type_model = None if extensions.type_model is field else str(extensions.type_model.name)
			# position within THIS struct; -1: the object is not one of the struct's own members (checked as a clause by the caller)
			bound = None if extensions.bound_field is None else member_position(model, extensions.bound_field)
			sizes = [member_position(model, size_field) for size_field in extensions.size_fields]
			rows.append([type_model, bool(extensions.printer[2]), bool(extensions.is_contents_abstract), bound, sizes])
		result[str(model.name)] = rows
	return result


def unaligned_names(models):
	return sorted(str(model.name) for model in models if is_struct(model) and model.requires_unaligned)

# endregion

# region the property restated


def expected_factory_map(models):
	"""Clause 1 of the property, from the relations of the expanded schema."""
	structs = [model for model in models if is_struct(model)]
	by_name = {str(model.name): model for model in structs}
	result = []
	for model in structs:
		factory_type = model.factory_type
		if not factory_type:
			continue
		if any(entry[0] == str(factory_type) for entry in result):
			continue
		children = [str(item.name) for item in structs if item.factory_type == factory_type]
		abstract = by_name.get(str(factory_type))
		names = list(abstract.discriminator) if abstract is not None and abstract.discriminator is not None else None
		first = by_name[children[0]]
		values = None
		types = None
		if names is not None:
			values = [next((init.value for init in first.initializers if init.target_property_name == name), None) for name in names]
			types = [next((str(field.field_type) for field in first.fields if field.name == name), None) for name in names]
		result.append([str(factory_type), names, values, types, children])
	return result


def closure_bounds(models):
	"""(seeds, lower bound = one application of the three rules, upper bound = their closure)."""
	from catparser.ast import Array  # pylint: disable=import-outside-toplevel
	structs = {str(model.name): model for model in models if is_struct(model)}
	seeds = set()
	for model in structs.values():
		if model.is_aligned:
			continue
		for field in model.fields:
			if isinstance(field.field_type, Array) and isinstance(field.field_type.element_type, str):
				element = structs.get(str(field.field_type.element_type))
				if element is not None and element.is_aligned:
					seeds.add(str(element.name))

	def step(marked):
		descendants = {name for name, model in structs.items() if model.factory_type and str(model.factory_type) in marked}
		members = set()
		for name in descendants:
			for field in structs[name].fields:
				if isinstance(field.field_type, str) and str(field.field_type) in structs:
					members.add(str(field.field_type))
		return descendants, members

	descendants, members = step(seeds)
	lower = seeds | descendants | members
	upper = set(seeds)
	while True:
		descendants, members = step(upper)
		grown = upper | descendants | members
		if grown == upper:
			break
		upper = grown
	return seeds, lower, upper


def no_derived_member_types(models):
	"""No struct-typed member of a struct that has a factory type is of a type that itself has a factory type."""
	structs = {str(model.name): model for model in models if is_struct(model)}
	for model in structs.values():
		if not model.factory_type:
			continue
		for field in model.fields:
			target = structs.get(str(field.field_type)) if isinstance(field.field_type, str) else None
			if target is not None and target.factory_type:
				return False
	return True

# endregion


class Checker:
	def __init__(self, ctx):
		self.ctx = ctx
		self.reported = {}

	def fail_property(self, what, case, signature=None):
		key = signature or 'other'
		self.reported[key] = self.reported.get(key, 0) + 1
		if self.reported[key] > (2 if signature else 8):
			self.ctx.count('known:' + key[:50] if signature else 'fail:property-not-listed')
			return
		self.ctx.fail('property', what, case, signature)

	def check(self, load, label, text=None):
		# pylint: disable=too-many-locals,too-many-branches,too-many-statements
		import json  # pylint: disable=import-outside-toplevel

		from catparser.generators.util import build_factory_map  # pylint: disable=import-outside-toplevel
		ctx = self.ctx
		case = {'label': label}
		if text is not None:
			case['cats'] = text
		models = expand(load())
		wire = cats_json.schema_to_wire(models)

		# build_factory_map
		try:
			factory_map = build_factory_map(models)
			observed = [[
				str(key), [str(name) for name in value.discriminator_names], list(cats_json.canon(value.discriminator_values)),
				[str(item) for item in value.discriminator_types], [str(child.name) for child in value.children]] for key, value in factory_map.items()]
		except Exception as ex:  # pylint: disable=broad-except
			observed = {'error': type(ex).__name__}
		ctx.case((text or label, 'factory-map'), {'label': label, 'factories': observed if isinstance(observed, dict) else [row[0] for row in observed]})
		expected = expected_factory_map(models)
		if isinstance(observed, dict):
			if all(row[1] is not None and None not in (row[2] or [None]) and None not in (row[3] or [None]) for row in expected):
				self.fail_property(f'build_factory_map raises {observed["error"]} although every factory has its discriminators, initializers and members', case)
		elif any(row[1] is None or None in (row[2] or []) or None in (row[3] or []) for row in expected):
			self.fail_property(
				f'build_factory_map returns {observed} although a discriminator has no initializer or no member (relations: {expected})'[:900], case)
		elif observed != expected:
			self.fail_property(f'build_factory_map: the relations give {expected}, the implementation {observed}'[:900], case)
		else:
			ctx.count('factory-map:meets-property')
			ctx.count('factory-map:factories', len(observed))
			for row in observed:
				first = next(model for model in models if str(model.name) == row[4][0])
				targets = [str(init.target_property_name) for init in first.initializers]
				if len(targets) != len(set(targets)):
					ctx.count('factory-map:first-descendant-overrides-an-initializer')
				if any(target not in row[1] for target in targets):
					ctx.count('factory-map:initializer-of-a-non-discriminator')
				if [target for target in targets if target in row[1]][:len(row[1])] != row[1]:
					ctx.count('factory-map:initializers-not-in-discriminator-order')
		if ctx.driver is not None:
			answer = cats_common.ask_json(ctx.driver, 'factory ' + wire)
			if isinstance(observed, dict) != isinstance(answer, dict) or (not isinstance(observed, dict) and answer != observed):
				ctx.fail('corr', f'build_factory_map: model {str(answer)[:300]}, implementation {str(observed)[:300]}', case)

		# extend_models
		order = set_order(models)
		raised = run_extend(models)
		ctx.case((text or label, 'extend'), {'label': label, 'raised': raised})
		model_answer = None
		if ctx.driver is not None:
			model_answer = cats_common.ask_json(ctx.driver, 'extend ' + (','.join(cats_json.enc_str(name)[1:] for name in order) or '-') + ' ' + wire)
		if raised is not None:
			ctx.count('extend:implementation-raises:' + raised.split(':')[0])
			if model_answer is not None:
				model_failed = isinstance(model_answer['unaligned'], dict) or any(isinstance(rows, dict) for rows in model_answer['exts'].values())
				if not model_failed:
					ctx.fail('corr', f'extend_models raises {raised}, the model does not', case)
			return
		extensions = observed_extensions(models)
		marks = unaligned_names(models)
		for name, rows in extensions.items():
			for index, row in enumerate(rows or []):
				if -1 == row[3] or -1 in row[4]:
					member = next(model for model in models if is_struct(model) and name == str(model.name)).fields[index]
					ctx.fail('property', (
						f'{name}.{member.name} is bound to a member that is not a member of {name} '
						f'(bound_field {getattr(member.extensions.bound_field, "name", None)}, size_fields {[item.name for item in member.extensions.size_fields]})'), case)
					return
		if model_answer is not None:
			if model_answer['exts'] != json.loads(json.dumps(extensions)):
				name = next(key for key in extensions if model_answer['exts'].get(key) != json.loads(json.dumps(extensions[key])))
				ctx.fail('corr', f'extensions of {name}: model {str(model_answer["exts"].get(name))[:300]}, implementation {str(extensions[name])[:300]}', case)

		self.check_history(load, models, observed, extensions, marks, case)

		# clauses on the objects
		from catparser.ast import Array  # pylint: disable=import-outside-toplevel
		structs = {str(model.name): model for model in models if is_struct(model)}
		for name, model in structs.items():
			for index, field in enumerate(model.fields):
				extension = field.extensions
				if isinstance(field.field_type, Array) and isinstance(field.field_type.size, str):
					size_field = next(item for item in model.fields if item.name == field.field_type.size)
					later = [
						item for item in model.fields[index + 1:]
						if isinstance(item.field_type, Array) and item.field_type.size == field.field_type.size]
					if not later and size_field.extensions.bound_field is not field:
						self.fail_property(f'{name}.{size_field.name}: count/size member is not bound to the array {field.name} it measures', case)
					ctx.count('bound:count-or-size')
					ctx.count('bound:size-member-type:' + ('builtin' if not isinstance(size_field.field_type, str) else str(size_field.field_type)))
				if field.is_size_reference:
					target = next(item for item in model.fields if item.name == field.value)
					if extension.bound_field is not target or not any(item is field for item in target.extensions.size_fields):
						self.fail_property(f'{name}.{field.name}: sizeof member and {target.name} do not know each other', case)
					ctx.count('bound:sizeof')
				for size_field in extension.size_fields:
					if not size_field.is_size_reference or size_field.value != field.name:
						self.fail_property(f'{name}.{field.name}: size_fields holds {size_field.name}, which does not measure it', case)
				if extension.bound_field is not None and not field.is_size_reference:
					bound = extension.bound_field
					if not (isinstance(bound.field_type, Array) and bound.field_type.size == field.name):
						self.fail_property(f'{name}.{field.name}: bound to {bound.name}, which it does not measure', case)
				if isinstance(field.field_type, Array) and isinstance(field.field_type.element_type, str):
					element = structs.get(str(field.field_type.element_type))
					demanded = element is not None and 'abstract' == element.disposition
					if bool(extension.is_contents_abstract) != demanded:
						self.fail_property(f'{name}.{field.name}: is_contents_abstract is {extension.is_contents_abstract}, element abstract is {demanded}', case)
					ctx.count('abstract-contents:' + str(demanded))

		seeds, lower, upper = closure_bounds(models)
		ctx.count('unaligned:' + ('no-rule-applies' if not seeds else 'marks'), 1)
		if not seeds and marks:
			self.fail_property(f'requires_unaligned marks {marks} although no rule applies', case)
		if not lower <= set(marks):
			self.fail_property(f'requires_unaligned misses what the rules demand: {sorted(lower - set(marks))}', case)
		if not set(marks) <= upper:
			self.fail_property(f'requires_unaligned marks outside the closure of the rules: {sorted(set(marks) - upper)}', case)

		# order independence on the real code and on the model; the marks have to be the closure whatever the order
		side_condition = no_derived_member_types(models)
		ctx.count('order:side-condition-' + str(side_condition))
		implementation_results = {tuple(marks): 'set-order'}
		model_results = {}
		if model_answer is not None and not isinstance(model_answer['unaligned'], dict):
			model_results[tuple(sorted(model_answer['unaligned']))] = 'set-order'
		if seeds:
			for attempt in range(ctx.scale(3, 8)):
				shuffled_models = cats_json.schema_from_wire(wire)
				permutation_seed = ctx.rng.randrange(1 << 30)

				def shuffled(names, permutation_seed=permutation_seed, attempt=attempt):
					import random  # pylint: disable=import-outside-toplevel
					names = sorted(names)
					if 0 == attempt:
						return names
					if 1 == attempt:
						return list(reversed(names))
					random.Random(permutation_seed).shuffle(names)
					return names
				if run_extend(shuffled_models, shuffled) is None:
					implementation_results.setdefault(tuple(unaligned_names(shuffled_models)), attempt)
				if ctx.driver is not None:
					names = shuffled([str(name) for name in order])
					answer = cats_common.ask_json(ctx.driver, 'extend ' + (','.join(cats_json.enc_str(name)[1:] for name in names) or '-') + ' ' + wire)
					if not isinstance(answer['unaligned'], dict):
						model_results.setdefault(tuple(sorted(answer['unaligned'])), attempt)
			ctx.case((text or label, 'order'), {'label': label, 'distinct-results': len(implementation_results)})
		closure = tuple(sorted(upper))
		defect = False
		if 1 < len(implementation_results):
			defect = True
			self.fail_property(
				f'requires_unaligned depends on the iteration order of struct_names: {sorted(implementation_results)}'[:600], case,
				SIG_ORDER if not side_condition else None)
		elif not side_condition and closure not in implementation_results:
			# the same defect seen from one order only: a member type that is itself a descendant was never visited
			defect = True
			self.fail_property(
				f'requires_unaligned {sorted(implementation_results)} is not the closure {list(closure)} of the rules (and another iteration order '
				'gives a different answer)'[:600], case, SIG_ORDER)
		else:
			ctx.count('order:independent')
		if model_results:
			if list(model_results) != [closure]:
				ctx.fail('corr', f'requires_unaligned: the model gives {sorted(model_results)}, the closure of the rules is {list(closure)}', case)
			elif not defect and tuple(marks) not in model_results:
				ctx.fail('corr', f'requires_unaligned: model {sorted(model_results)}, implementation {marks}', case)


def _check_history(self, load, models, observed, extensions, marks, case):
	"""Second-order history: (a) extend_models called a second time on the same objects changes no observable; (b) a fresh parse
	handed over in reverse declaration order gives the same marks and extensions, and the factory map of the reversed list lists the
	same children in reverse (names and types unchanged); the model, given the reversed list, agrees with the implementation."""
	import json  # pylint: disable=import-outside-toplevel

	from catparser.generators.util import build_factory_map  # pylint: disable=import-outside-toplevel
	ctx = self.ctx
	again = run_extend(models)
	if again is not None or observed_extensions(models) != extensions or unaligned_names(models) != marks:
		self.fail_property(
			f'extend_models is not idempotent: second call on the same models gives {again or unaligned_names(models)} after {marks}', case)
	else:
		ctx.count('history:idempotent')

	reversed_models = list(reversed(expand(load())))
	wire = cats_json.schema_to_wire(reversed_models)
	try:
		factory_map = build_factory_map(reversed_models)
		reversed_observed = [[
			str(key), [str(name) for name in value.discriminator_names], list(cats_json.canon(value.discriminator_values)),
			[str(item) for item in value.discriminator_types], [str(child.name) for child in value.children]] for key, value in factory_map.items()]
	except Exception as ex:  # pylint: disable=broad-except
		reversed_observed = {'error': type(ex).__name__}
	# the reversed list has other first descendants: values (and whether a missing initializer matters) follow from the relations of
	# the reversed list; keys, names, types and the children as a set follow from the relations alone
	expected_reversed = expected_factory_map(reversed_models)
	incomplete = any(row[1] is None or None in (row[2] or []) or None in (row[3] or []) for row in expected_reversed)
	if isinstance(reversed_observed, dict):
		if not incomplete:
			self.fail_property(f'build_factory_map raises {reversed_observed["error"]} on the reversed list although nothing is missing', case)
	elif incomplete:
		self.fail_property(f'build_factory_map returns {reversed_observed} on the reversed list although a discriminator has no initializer'[:700], case)
	elif reversed_observed != expected_reversed:
		self.fail_property(f'build_factory_map on the reversed list: the relations give {expected_reversed}, the implementation {reversed_observed}'[:900], case)
	else:
		ctx.count('history:factory-map-reversed')
		if not isinstance(observed, dict):
			forward = {row[0]: (row[1], row[3], row[4]) for row in observed}
			backward = {row[0]: (row[1], row[3], list(reversed(row[4]))) for row in reversed_observed}
			if forward != backward:
				self.fail_property(f'build_factory_map: names, types or children depend on more than the declaration order: {forward} vs reversed {backward}'[:700], case)
	order = set_order(reversed_models)
	raised = run_extend(reversed_models)
	if raised is not None:
		self.fail_property(f'extend_models raises {raised} on the reversed list only', case)
		return
	if observed_extensions(reversed_models) != extensions or unaligned_names(reversed_models) != marks:
		self.fail_property(
			f'extend_models depends on the order of the list: marks {unaligned_names(reversed_models)} vs {marks}'[:600], case)
	else:
		ctx.count('history:extend-reversed')
	if ctx.driver is not None:
		answer = cats_common.ask_json(ctx.driver, 'factory ' + wire)
		if isinstance(reversed_observed, dict) != isinstance(answer, dict) or (not isinstance(answer, dict) and answer != reversed_observed):
			ctx.fail('corr', f'reversed list, build_factory_map: model {str(answer)[:300]}, implementation {str(reversed_observed)[:300]}', case)
		answer = cats_common.ask_json(ctx.driver, 'extend ' + (','.join(cats_json.enc_str(name)[1:] for name in order) or '-') + ' ' + wire)
		if isinstance(answer['unaligned'], dict) or sorted(answer['unaligned']) != marks or answer['exts'] != json.loads(json.dumps(extensions)):
			ctx.fail('corr', f'reversed list, extend_models: model {str(answer["unaligned"])[:200]}, implementation {marks}', case)


Checker.check_history = _check_history


def run(ctx):
	rng = ctx.rng
	checker = Checker(ctx)
	for name in ('symbol', 'nem'):
		checker.check(lambda name=name: cats_common.load_schema_set(name, 'all_generated.cats'), f'shipped:{name}')
		models = expand(cats_common.load_schema_set(name, 'all_generated.cats'))
		if not no_derived_member_types(models):
			ctx.notes.append(f'shipped set {name} does not satisfy the side condition of order independence')
	checker.check(lambda: cats_common.parse_text(ORDER_DEPENDENT), 'order-dependent-example', ORDER_DEPENDENT)
	count = ctx.scale(1500, 12000)
	for index in range(count):
		text = gen_schema(rng, {'no_arrays_in_descendants': rng.random() < 0.5})
		try:
			checker.check(lambda text=text: cats_common.parse_text(text), f'random:{index}', text)
		except Exception as ex:  # pylint: disable=broad-except
			ctx.fail('corr', f'harness error {type(ex).__name__}: {ex} {traceback.format_exc(limit=5)}', {'label': f'random:{index}', 'cats': text})
			if ctx.counters.get('fail:corr', 0) > 5:
				break


def replay(ctx, payload):
	print(payload['what'])
	case = payload.get('case') or {}
	if 'cats' in case:
		text = case['cats']
		Checker(ctx).check(lambda: cats_common.parse_text(text), case.get('label', 'replay'), text)
	else:
		run(ctx)


MANIFEST = {
	'level_text': (
		'Lean theorems over the model of generators/util.py for all expanded schemas: factory_map_children, factory_map_discriminators, '
		'no_descendants_no_entry, bound_field_of_count/size/sizeof, size_fields_inverse, abstract_contents_flag, unaligned_upper, '
		'unaligned_lower, unaligned_empty, order independence of the unaligned marks (marks = closure of the rules, any iteration order) and their '
		'monotonicity in the schema (unaligned_marks_monotone); tied to the code by a differential run '
		'on really expanded random schemas and both shipped sets.'),
	'level_note': (
		'Trusted: Lean kernel + {propext, Classical.choice, Quot.sound}; hand-written model tied by differential execution only; the Python set '
		'iteration order is an explicit parameter. A tree without the repair of _propagate_unaligned is order dependent (the check reports it).'),
	'technique': 'Lean 4 theorems over a hand-written model + differential correspondence with the Python implementation',
}

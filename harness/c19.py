"""C19 - the C++ linter is silent on conforming code and flags every seeded violation (partial by design, DESIGN.md C19).

(1) The real linter is run the way scripts/ci/lint_cpp.sh runs it (ply/colorama stand-ins) over client/catapult: every suite must
    print zero failures, every SUMMARY must be SUCCESS, exit status 0; output only under the run's scratch directory.
(2) Translator: the regular expressions of the typo list and of the single-regex validators are read off the instantiated validators of the running linter
    (translate/pyruntime.py) on every run into Generated/LintTables.lean (regex AST + a witness per entry); `typo_witnesses` re-checks them in the kernel.
(3) Seeded edits from the catalogue below are applied to scratch copies (same relative path) at sampled applicable lines and linted
    in-process with the real Analyzer: the rule must be reported for that file (at the line where the rule reports one), the same
    reports must come out when the file is linted after a different dirty file with the same Analyzer (state leakage through
    reset()), and undoing the edit restores the original text, about which the linter is silent.
(4) Correspondence: the Lean regex engine against Python's `re` on tree lines and seeded lines; the Lean line-rule models against
    the real validators on sampled and seeded files.
"""
import ast
import json
import multiprocessing
import os
import re
import subprocess
import sys
import time

from .common import LEAN, REPO, ROOT, sx, write_if_changed

RULE = (
	'the CI command once over the whole tree; seeded edits: (a) context-stratified - every applicable site of every file of the tree is '
	'classified by its neighbourhood (previous line ends in a backslash / is a directive / an include / a comment / empty, inside a macro, a '
	'region, a block comment, an indented block, first / last lines ...) and every (family x context class) that exists in the tree gets at '
	'least one case (the few sites below a backslash-terminated line: all of them, for the blank-line families); (b) files sampled by VERIF_SEED (thorough: all files), for every catalogue '
	'family the applicable lines of the file are computed by an independent predicate and up to N of them sampled (quick: ~2000 '
	'edits in total, thorough: up to 20 lines per family and file); every edit is linted alone, after a different dirty file, and '
	'undone. Regex correspondence: every table regex x sampled tree lines x seeded witness lines. A case is distinct by '
	'(family, file, line, parameters).')
TRUSTED_BASE = [
	'Lean 4.33 kernel; axioms of the property theorems: subset of {propext, Classical.choice, Quot.sound}',
	'hand-written models SymbolVerif/Model/Lint/{Regex,Capture,Strip,LineRules,Validators,Namespace,Deps}.lean, tied to the linter by differential runs',
	'translator in harness/c19.py (own parser of the Python `re` subset; cross-checked against `re` itself on every run)',
	'stand-ins /verif/shims/{ply,colorama}: the namespace / forward-declaration parsers run on the PLY stand-in, so the silent-tree claim '
	'and the namespace/forward seeded edits depend on its fidelity',
	'SHA-1 of the licence header is a parameter of the model (hashlib in the implementation)',
]
ASSUMPTIONS = [
	'\\w, \\d, \\b are modelled on ASCII (Python uses the Unicode tables); lines with non-ASCII characters are skipped in the regex correspondence',
	'token-level parsers (Parser.NamespacesParser, forwardsValidation) are not modelled: which namespace names a file has and forward '
	'declarations are covered by seeded edits on the implementation only (the namespace rule from the name onwards is modelled)',
]

CATAPULT = 'client/catapult'
SOURCE_TOPS = ('src', 'sdk', 'tests', 'plugins', 'extensions', 'tools')
CI_ARGS = ['--text', '--dep-check-dir', 'src', '--dep-check-dir', 'extensions', '--dep-check-dir', 'plugins']
EXPECTED_SUITES = 42


def tree_files():
	base = os.path.join(REPO, CATAPULT)
	found = []
	for top in SOURCE_TOPS:
		for dirpath, dirnames, names in os.walk(os.path.join(base, top)):
			dirnames.sort()
			for name in sorted(names):
				if name.endswith('.h') or name.endswith('.cpp'):
					found.append(os.path.relpath(os.path.join(dirpath, name), base))
	return base, found


# region (1) the CI-style run


def start_full_run(ctx, split):
	"""The CI command. thorough: exactly as scripts/ci/lint_cpp.sh runs it (one process over the whole tree). quick (the runner stops
	a quick check after 15 minutes, also on a busy machine): the same command once per source directory (`--source-dir`), the six
	processes side by side; suites, failures and exit statuses are added up (on the silent tree the sum is what the single run prints:
	42 suites, 0 failures, exit 0; checked against the single run in the thorough tier)."""
	linters = os.path.join(REPO, 'linters/cpp')
	env = dict(os.environ, PYTHONPATH=os.pathsep.join([linters, os.path.join(ROOT, 'shims')]), PYTHONDONTWRITEBYTECODE='1', COLUMNS='80')
	runs = []
	parts = [[top] for top in SOURCE_TOPS if os.path.isdir(os.path.join(REPO, CATAPULT, top))] if split else [None]
	# longest first
	order = {'tests': 0, 'extensions': 1, 'plugins': 2, 'src': 3}
	parts.sort(key=lambda part: order.get(part[0], 9) if part else 0)
	for number, part in enumerate(parts):
		dest = os.path.join(ctx.tmpdir(), f'ci-dest-{number}')
		os.makedirs(dest, exist_ok=True)
		command = [sys.executable, os.path.join(linters, 'checkProjectStructure.py'), '--text', '--dest-dir', dest] + CI_ARGS[1:]
		for top in part or []:
			command += ['--source-dir', top]
		out_path = os.path.join(ctx.tmpdir(), f'ci-stdout-{number}.txt')
		err_path = os.path.join(ctx.tmpdir(), f'ci-stderr-{number}.txt')
		out = open(out_path, 'wb')  # pylint: disable=consider-using-with
		err = open(err_path, 'wb')  # pylint: disable=consider-using-with
		proc = subprocess.Popen(command, cwd=os.path.join(REPO, CATAPULT), env=env, stdout=out, stderr=err)  # pylint: disable=consider-using-with
		runs.append({'proc': proc, 'out': out, 'err': err, 'out_path': out_path, 'err_path': err_path, 'dest': dest, 'command': command, 'part': part})
	return {'runs': runs, 'start': time.time(), 'split': split}


SUITE_RE = re.compile(r'^===== (.*) ===== \(tests: (\d+), failures: (\d+)\)$')
SUMMARY_RE = re.compile(r'^>>> SUMMARY \((SUCCESS|FAILURE), (\d+) violations\)$')


def finish_full_run(ctx, full):
	suites = {}
	order = []
	summaries = []
	codes = []
	stderr_tail = ''
	stray = []
	for run in full['runs']:
		code = run['proc'].wait(timeout=3000)
		run['out'].close()
		run['err'].close()
		codes.append(code)
		with open(run['out_path'], 'rt', encoding='utf8', errors='replace') as infile:
			lines = infile.read().split('\n')
		with open(run['err_path'], 'rt', encoding='utf8', errors='replace') as infile:
			stderr = infile.read()
		if stderr.strip():
			stderr_tail = stderr.strip().splitlines()[-1]
		current = None
		own_summaries = []
		for line in lines:
			match = SUITE_RE.match(line)
			if match:
				name = match.group(1)
				if name not in suites:
					suites[name] = {'suite': name, 'tests': 0, 'failures': 0, 'lines': []}
					order.append(name)
				current = suites[name]
				current['tests'] += int(match.group(2))
				current['failures'] += int(match.group(3))
				continue
			match = SUMMARY_RE.match(line)
			if match:
				own_summaries.append((match.group(1), int(match.group(2))))
				current = None
				continue
			if current is not None and line.strip():
				current['lines'].append(line)
		summaries.append(own_summaries)
		stray += sorted(os.listdir(run['dest']))
		if 4 != len(own_summaries):
			ctx.fail('corr', f'a CI-style run printed {len(own_summaries)} summaries (expected 4): {" ".join(run["command"][1:])}', {'kind': 'ci', 'stderr': stderr[-500:]})
	suite_list = [suites[name] for name in order]
	ctx.count('ci:suites', len(suite_list))
	ctx.count('ci:files', max([suite['tests'] for suite in suite_list] or [0]))
	ctx.count('ci:seconds', int(time.time() - full['start']))
	ctx.count('ci:processes', len(full['runs']))
	command_text = ' '.join(full['runs'][0]['command'][1:]) + (' (once per source directory)' if full['split'] else '')
	case = {'kind': 'ci', 'command': command_text, 'cwd': CATAPULT, 'exit': codes}
	ctx.case(('ci',), {'command': command_text, 'exit': codes, 'suites': len(suite_list), 'summaries': summaries[0]})
	for suite in suite_list:
		ctx.case(('ci-suite', suite['suite']), None)
		if suite['failures']:
			ctx.fail(
				'property', f'the linter is not silent on the tree: suite {suite["suite"]} reports {suite["failures"]} failure(s): '
				+ ' | '.join(suite['lines'][:3])[:600], dict(case, suite=suite['suite'], failures=suite['failures'], first=suite['lines'][:5]))
	bad = [(verdict, violations) for own in summaries for verdict, violations in own if 'SUCCESS' != verdict or violations]
	if bad:
		ctx.fail('property', f'SUMMARY ({bad[0][0]}, {bad[0][1]} violations) printed for the tree', dict(case, summaries=summaries))
	if any(codes):
		ctx.fail('property', f'the CI lint run exits with status {codes} on the tree {stderr_tail}', dict(case, stderr=stderr_tail))
	if EXPECTED_SUITES != len(suite_list):
		ctx.fail('corr', f'the CI run printed {len(suite_list)} suites (expected {EXPECTED_SUITES})', case)
	# exit status = number of violations (ConReporter.total_failures), truncated by the operating system to 8 bits
	total = sum(suite['failures'] for suite in suite_list)
	if sum(codes) != total and not any(code and 'Traceback' in stderr_tail for code in codes) and total < 256:
		ctx.fail('property', f'exit statuses {codes} do not add up to the number of reported violations {total}', dict(case, total=total))
	if stray:
		ctx.notes.append(f'files written by the text-mode CI run into --dest-dir: {stray}')
	return suite_list


# endregion

# region (2) translator: the regular expressions of validation.py


# MultiConditionChecker: attribute `pattern_<field>` of the validator -> field of Rules.MccPatterns (True: used through its groups)
MCC_FIELDS = (
	('operator_bool', False), ('operator_bool_with_explicit', False), ('test', False), ('test_class', False), ('validation_result', True),
	('missing_explicit_ctor', True), ('enum', False), ('enum_class', False), ('coerce', True), ('define_tests', False), ('define_test_traits', False),
	('file_size', False), ('file_size_reference_allowed', False), ('file_size_cast', False), ('test_expected_size', False),
	('test_memcmp_assert', False), ('test_bool_assert', False), ('test_bool_assert_allowed', False), ('declare_macro_no_params', False),
	('single_line_function', False), ('test_single_line_function', False), ('test_name_if', False), ('test_name_if_exclusions', False),
	('header_comment', False), ('doxygen_comment', False), ('auto_context_param', False), ('gets_sets_doc', False),
	('gets_sets_doc_with_article', False), ('trailing_operator', False), ('struct_assignment', True))
# the checks of MultiConditionChecker.errors, in the order of the model (Rules.mccChecks)
MCC_FIELDS_CHECKS = (
	'check_test_line', 'check_explicit_operator_bool', 'check_validation_result', 'check_explicit_ctor', 'check_enum_class', 'check_coerce',
	'check_define_tests', 'check_file_size', 'check_test_expected_size', 'check_test_asserts', 'check_declare_macro_no_params',
	'check_single_line_function', 'check_test_name_if', 'check_header_comment', 'check_cpp_doxygen_comment', 'check_auto_context_param',
	'check_gets_sets_documentation', 'check_trailing_operator', 'check_struct_assignment')
VALIDATOR_PATTERNS = (
	'[[type(v).__name__, name, ['
	'[p.pattern, p.flags, m if isinstance(m, str) else None] for p, m in ('
	'[(k, val) for k, val in x.items() if hasattr(k, "pattern")] if isinstance(x, dict) else '
	'[(k, None) for k in x if hasattr(k, "pattern")] if isinstance(x, (list, tuple)) else '
	'[(x, None)] if hasattr(x, "pattern") else [])]] '
	'for v in create_validators() for name, x in vars(v).items()]')
_REGEX_CACHE = {}


def extract_regexes():
	"""Every compiled pattern the validators of the RUNNING linter hold (validation.create_validators() is instantiated in a fresh
	interpreter through translate/pyruntime.py and the instances are inspected: attributes that are patterns, lists of patterns, or
	dicts keyed by patterns - the typo list with its messages), the line length limit and the licence digest.

	Returns (entries, typo_count, constants). entries: dict(id, owner, attribute, source, message); the typo list comes first, in the
	order in which TypoChecker.check walks it."""
	if REPO in _REGEX_CACHE:
		return _REGEX_CACHE[REPO]
	from translate import pyregex, pyruntime  # pylint: disable=import-outside-toplevel
	limit = '[v.line_length_limit for v in create_validators() if hasattr(v, "line_length_limit")]'
	digest = '[v.expected_hash for v in create_validators() if hasattr(v, "expected_hash")]'
	mcc_messages = '[list(v.errors.values()) for v in create_validators() if "MultiConditionChecker" == type(v).__name__]'
	answers = pyruntime.values(REPO, 'validation', [VALIDATOR_PATTERNS, limit, digest, mcc_messages])
	entries = []
	problems = []
	for owner, attribute, patterns in answers[VALIDATOR_PATTERNS]:
		for source, flags, message in patterns:
			if flags & ~32:  # anything but re.UNICODE
				problems.append(f'{owner}.{attribute}: pattern {source!r} is compiled with flags {flags} (not modelled)')
				continue
			entries.append({'owner': owner, 'attribute': attribute, 'source': source, 'message': message})
	entries.sort(key=lambda entry: 0 if 'TypoChecker' == entry['owner'] else 1)  # stable: the typo list first
	kept = []
	for entry in entries:
		try:
			entry['ast'] = pyregex.parse(entry['source'])
			entry['witness'] = pyregex.witness(entry['source'], entry['ast'])
			entry['features'] = pyregex.features(entry['ast'])
			kept.append(entry)
		except (pyregex.Unsupported, re.error) as ex:
			problems.append(f'{entry["owner"]}.{entry["attribute"]}: pattern {entry["source"]!r} is outside the modelled regex subset: {ex}')
	for index, entry in enumerate(kept):
		entry['id'] = index
	typo_count = sum(1 for entry in kept if 'TypoChecker' == entry['owner'])
	constants = {'problems': problems}
	if 1 == len(set(answers[limit])):
		constants['lineLengthLimit'] = answers[limit][0]
	else:
		problems.append(f'line length limit of the validators: {answers[limit]} (expected exactly one)')
		constants['lineLengthLimit'] = (answers[limit] or [0])[0]
	hashes = [item['hex'] for item in answers[digest] if isinstance(item, dict) and 'hex' in item]
	if 1 != len(hashes):
		problems.append(f'licence digest of the validators: {answers[digest]} (expected exactly one)')
	constants['copyrightSha1Hex'] = hashes[0].upper() if hashes else ''
	constants['mccMessages'] = answers[mcc_messages][0] if 1 == len(answers[mcc_messages]) else []
	if len(constants['mccMessages']) != len(MCC_FIELDS_CHECKS):
		problems.append(f'MultiConditionChecker has {len(constants["mccMessages"])} checks (the model has {len(MCC_FIELDS_CHECKS)})')
	if not typo_count:
		problems.append('no validator with a typo list (a dict keyed by compiled patterns) was found')
	_REGEX_CACHE[REPO] = (kept, typo_count, constants)
	return _REGEX_CACHE[REPO]


def parse_deps_config():
	"""deps.config read directly (not through DepsChecker): {'defines': {name: [values]}, 'lines': [(source, destination)]}."""
	defines = {}
	lines = []
	with open(os.path.join(REPO, 'linters/cpp/deps.config'), 'rt', encoding='utf8') as infile:
		for raw in infile:
			line = raw.split('#', 1)[0].strip()
			if not line:
				continue
			if '->' in line:
				source, destination = line.split('->')
				lines.append((source.strip(), destination.strip()))
			elif ' = ' in line:
				name, values = line.split(' = ')
				defines[name.strip()] = sorted(set(values.split()))
			else:
				raise ValueError(f'deps.config: cannot read line {raw!r}')
	return {'defines': defines, 'lines': lines}


def translate(_ctx):
	try:
		return _translate()
	except Exception as ex:  # pylint: disable=broad-except
		return [f'translator: the tables could not be obtained from the running linter: {type(ex).__name__}: {str(ex)[:400]}']


def _translate():
	from translate import pyregex  # pylint: disable=import-outside-toplevel
	entries, typo_count, constants = extract_regexes()
	problems = [f'translator: {problem}' for problem in constants['problems']]

	def row(entry):
		return f'  -- {entry["id"]}: {entry["owner"]} {entry["source"]!r}\n  (({pyregex.lean_re(entry["ast"])}), {pyregex.lean_chars(entry["witness"])})'

	hashes = [constants['copyrightSha1Hex']] if constants['copyrightSha1Hex'] else []
	by_attribute = {entry['attribute']: entry for entry in entries if 'MultiConditionChecker' == entry['owner']}
	fields = []
	for field, with_groups in MCC_FIELDS:
		entry = by_attribute.get('pattern_' + field)
		if entry is None:
			problems.append(f'translator: MultiConditionChecker has no compiled pattern in attribute pattern_{field}')
			fields.append(f'  {field} := .cls false []')
		else:
			fields.append(f'  -- {entry["source"]!r}\n  {field} := {pyregex.lean_cre(entry["ast"]) if with_groups else pyregex.lean_re(entry["ast"])}')
	mcc_text = (
		'/-- the patterns of MultiConditionChecker, by attribute -/\n'
		'def mccPatterns : SymbolVerif.Lint.Rules.MccPatterns where\n' + '\n'.join(fields) + '\n')
	deps = parse_deps_config()
	names = sorted({name for src, dst in deps['lines'] for name in (src, dst)} | {name for values in deps['defines'].values() for name in values})
	for name in names:
		if name not in deps['defines'] and not re.fullmatch(r'(?:[A-Za-z0-9_/-]|\.\*|\.)*', name):
			problems.append(f'translator: deps.config name {name!r} is outside the modelled pattern syntax (letters, digits, _ / - . and .*)')
	deps_text = (
		'/-- deps.config: `NAME = a b c` -/\n'
		'def depsDefines : List (List Char × List (List Char)) := [\n'
		+ ',\n'.join(f'  ({pyregex.lean_chars(name)}, [{", ".join(pyregex.lean_chars(value) for value in values)}])' for name, values in deps['defines'].items())
		+ ']\n'
		'/-- deps.config: `source -> destination`, in file order -/\n'
		'def depsLines : List (List Char × List Char) := [\n'
		+ ',\n'.join(f'  ({pyregex.lean_chars(src)}, {pyregex.lean_chars(dst)})' for src, dst in deps['lines']) + ']\n')
	text = (
		'/- generated by harness/c19.py from linters/cpp/validation.py and linters/cpp/deps.config; do not edit -/\n'
		'import SymbolVerif.Model.Lint.Regex\n'
		'import SymbolVerif.Model.Lint.Validators\n'
		'namespace SymbolVerif.Generated.Lint\n'
		'open SymbolVerif.Lint.Regex\n'
		'/-- the typo list: (pattern, witness) -/\n'
		'def typoTable : List (RE × List Char) := [\n' + ',\n'.join(row(entry) for entry in entries[:typo_count]) + ']\n'
		'/-- every other compiled pattern the validators hold: (pattern, witness) -/\n'
		'def validatorTable : List (RE × List Char) := [\n' + ',\n'.join(row(entry) for entry in entries[typo_count:]) + ']\n'
		+ mcc_text +
		f'def lineLengthLimit : Nat := {constants["lineLengthLimit"]}\n'
		f'def copyrightSha1Hex : String := "{hashes[0] if hashes else ""}"\n'
		+ deps_text +
		'end SymbolVerif.Generated.Lint\n')
	write_if_changed(os.path.join(LEAN, 'SymbolVerif', 'Generated', 'LintTables.lean'), text)
	return problems


# endregion

# region (3) seeded edits: catalogue

LICENSE_LINES = 20
SIG_EXPLICIT_CTOR_LEAK = 'ExplicitCtorValidator:state-survives-reset-when-the-previous-file-ends-inside-an-explicit-constructor'


def _width(line):
	return sum(4 if '\t' == char else 1 for char in line)


def _plain(line):
	"""No comment, string, character literal, continuation or preprocessor content (strip_comments_and_strings leaves it alone)."""
	return line and not any(char in line for char in '/"\'\\#') and line.strip()


def _is_include(line):
	match = re.match(r'#include (["<][^">]*[">])', line)
	if match is None:
		return False
	import exclusions  # pylint: disable=import-error,import-outside-toplevel
	return not any(pattern.match(match.group(1)) for pattern in exclusions.SPECIAL_INCLUDES)  # those are not ordered by the linter


class Family:
	"""A catalogue entry: where it applies, the edit, what must be reported.

	candidates(lines, relpath) -> list of line indexes (0-based) or other sites
	apply(lines, site, rng)    -> (new lines, expectation) with expectation = dict(group, lineno=None|int, kind=None|substring, absent=False)
	"""
	name = ''
	current_relpath = None

	def candidates(self, lines, relpath):
		raise NotImplementedError

	def apply(self, lines, site, rng):
		raise NotImplementedError


def _replace(lines, index, new_line):
	return lines[:index] + [new_line] + lines[index + 1:]


def _insert(lines, index, new_line):
	return lines[:index] + [new_line] + lines[index:]


class TrailingSpace(Family):
	name = 'whitespace:trailing'

	def candidates(self, lines, relpath):
		return [index for index, line in enumerate(lines[:-1]) if line and not line[-1].isspace() and '\\' != line[-1]]

	def apply(self, lines, site, rng):
		extra = rng.choice([' ', '\t', '  '])
		return _replace(lines, site, lines[site] + extra), {'group': 'whitespaceLines', 'lineno': site + 1, 'kind': 'Whitespace at line ending'}


class LeadingSpaces(Family):
	name = 'whitespace:spaces-at-start'

	def candidates(self, lines, relpath):
		return [index for index, line in enumerate(lines[:-1]) if line.strip() and not line.lstrip('\t').startswith(' ')]

	def apply(self, lines, site, rng):
		line = lines[site]
		tabs = len(line) - len(line.lstrip('\t'))
		new_line = line[:tabs] + rng.choice([' ', '  ', '    ']) + line[tabs:]
		return _replace(lines, site, new_line), {'group': 'whitespaceLines', 'lineno': site + 1, 'kind': 'Spaces at beginning of a line'}


class TabsInEmptyLine(Family):
	name = 'whitespace:tabs-in-empty-line'

	def candidates(self, lines, relpath):
		return [index for index, line in enumerate(lines[:-1]) if not line and index >= LICENSE_LINES]

	def apply(self, lines, site, rng):
		return _replace(lines, site, '\t' * rng.choice([1, 2, 3])), {'group': 'whitespaceLines', 'lineno': site + 1, 'kind': 'Tabs in empty line'}


class TabInside(Family):
	name = 'whitespace:tab-inside'

	def candidates(self, lines, relpath):
		return [index for index, line in enumerate(lines[:-1]) if '\\' != line[-1:] and any(
			not char.isspace() and char not in '/*' and line[index_ + 1:index_ + 2] not in ('/', '*') for index_, char in enumerate(line))]

	def apply(self, lines, site, rng):
		line = lines[site]
		# after a non-blank character, but never inside a comment marker (an unterminated /* sends the lexer's comment regex into
		# exponential backtracking: the lint run would not finish)
		positions = [
			index + 1 for index, char in enumerate(line)
			if not char.isspace() and char not in '/*' and line[index + 1:index + 2] not in ('/', '*')]
		position = rng.choice(positions)
		return _replace(lines, site, line[:position] + '\t' + line[position:]), {
			'group': 'whitespaceLines', 'lineno': site + 1, 'kind': 'Tab present inside the text'}


class DoubleSpace(Family):
	name = 'whitespace:spaces-in-the-middle'

	def candidates(self, lines, relpath):
		return [index for index, line in enumerate(lines[:-1]) if _plain(line) and re.search(r'\w \w', line)]

	def apply(self, lines, site, rng):
		line = lines[site]
		position = rng.choice([match.start() + 1 for match in re.finditer(r'\w \w', line)])
		return _replace(lines, site, line[:position] + ' ' + line[position:]), {'group': 'whitespaceLines', 'lineno': site + 1, 'kind': 'Spaces in the middle'}


class CommaWithoutSpace(Family):
	name = 'whitespace:comma-without-space'

	def candidates(self, lines, relpath):
		return [index for index, line in enumerate(lines[:-1]) if _plain(line) and re.search(r', \w', line)]

	def apply(self, lines, site, rng):
		line = lines[site]
		position = rng.choice([match.start() + 1 for match in re.finditer(r', \w', line)])
		return _replace(lines, site, line[:position] + line[position + 1:]), {
			'group': 'whitespaceLines', 'lineno': site + 1, 'kind': 'Comma should be followed by a space'}


class CarriageReturn(Family):
	name = 'whitespace:carriage-return'

	def candidates(self, lines, relpath):
		return [index for index, line in enumerate(lines[:-1]) if '\\' != line[-1:]]

	def apply(self, lines, site, rng):
		return _replace(lines, site, lines[site] + '\r'), {'group': 'whitespaceLines', 'lineno': 0, 'kind': 'Carriage returns present in file 1 occurences'}


class LongLine(Family):
	"""Pads a line with a comment to exactly `limit + delta` columns, every tab counting 4 columns wherever it stands (the rule of
	LineLengthValidator). `tab`: None - the padding has no tab; 'aligned' / 'unaligned' - the comment is set off by a tab that starts at
	a column that is / is not a multiple of 4 (after 0-3 blanks), so that "4 per tab" and "tab stops" give different widths."""

	def __init__(self, limit, delta, tab=None):
		self.limit = limit
		self.delta = delta
		self.tab = tab
		self.name = f'line-length:{"limit" if 0 == delta else ("limit%+d" % delta)}' + (f':tab-at-{tab}-column' if tab else '')

	def candidates(self, lines, relpath):
		return [
			index for index, line in enumerate(lines[:-1])
			if index >= LICENSE_LINES and line.strip() and _width(line) + 12 <= self.limit + self.delta and '\\' != line[-1] and '"' not in line and 'region' not in line]

	def apply(self, lines, site, rng):
		line = lines[site]
		target = self.limit + self.delta
		if self.tab is None:
			new_line = line + ' // ' + 'x' * (target - _width(line) - 4)
		else:
			column = len(line.expandtabs(4))
			aligned = (-column) % 4
			blanks = aligned if 'aligned' == self.tab else rng.choice([count for count in range(4) if count != aligned])
			head = line + ' ' * blanks + '\t// '
			new_line = head + 'x' * (target - _width(head))
		assert _width(new_line) == target
		return _replace(lines, site, new_line), {
			'group': 'tooLongLines', 'lineno': site + 1, 'kind': None, 'absent': self.delta < 0, 'seeded_line': new_line}


class ConsecutiveEmpty(Family):
	name = 'blank-lines:consecutive'

	def candidates(self, lines, relpath):
		return [index for index, line in enumerate(lines[:-1]) if not line.strip() and index >= LICENSE_LINES]

	def apply(self, lines, site, rng):
		return _insert(lines, site + 1, ''), {'group': 'consecutiveEmpty', 'lineno': site + 2, 'kind': None}


class BlankNearEnd(Family):
	name = 'blank-lines:near-end'

	def candidates(self, lines, relpath):
		return [len(lines) - 2] if len(lines) > LICENSE_LINES + 3 else []

	def apply(self, lines, site, rng):
		# the line before the last one becomes a whitespace-only line
		new_lines = _insert(lines, site, rng.choice(['\t', ' ', '\t\t']))
		return new_lines, {'group': 'emptyNearEnd', 'lineno': len(new_lines), 'kind': None}


class IncludeSwap(Family):
	name = 'includes:order'

	def candidates(self, lines, relpath):
		return [
			index for index in range(len(lines) - 2)
			if _is_include(lines[index]) and _is_include(lines[index + 1]) and lines[index] != lines[index + 1]]

	def apply(self, lines, site, rng):
		new_lines = list(lines)
		new_lines[site], new_lines[site + 1] = lines[site + 1], lines[site]
		return new_lines, {
			'group': 'includesOrder', 'lineno': None, 'kind': None, 'seeded_line': f'{lines[site + 1]} <-> {lines[site]}',
			'classes': self.site_classes(lines, site, self.current_relpath or '')}

	@staticmethod
	def include_class(line, is_first_of_cpp):
		"""Class of an include line for the comparison: which stage of the comparator decides about it."""
		include = re.match(r'#include (["<][^">]*[">])', line).group(1)
		if is_first_of_cpp:
			return 'own-header'
		body = include[1:-1]
		parts = body.split('/')
		if include.startswith('"'):
			if 1 == len(parts):
				return 'local:same-directory'
			if 'tests' in parts or 'test' in parts:
				return 'local:tests'
			return 'local:catapult' if 'catapult' == parts[0] else 'local:other-directory'
		kind = 'c-header' if body.endswith('.h') else 'c++-header'
		return f'system:dir/{kind}' if len(parts) > 1 else f'system:{kind}'

	def site_classes(self, lines, site, relpath):
		"""The class pair of the two neighbouring includes that are swapped (own stratification instead of the line contexts)."""
		first_include = next((index for index, line in enumerate(lines) if line.startswith('#include')), None)
		own = relpath.endswith('.cpp') and site == first_include
		return [f'{self.include_class(lines[site], own)} | {self.include_class(lines[site + 1], False)}']


class FirstInclude(Family):
	name = 'includes:first-include'

	def candidates(self, lines, relpath):
		if not relpath.endswith('.cpp'):
			return []
		includes = [index for index, line in enumerate(lines) if _is_include(line)]
		# the own header is the first include of a conforming .cpp file; it can be displaced when another include follows directly
		if len(includes) >= 2 and includes[1] == includes[0] + 1 and lines[includes[0]] != lines[includes[1]]:
			return [includes[0]]
		return []

	def apply(self, lines, site, rng):
		new_lines = list(lines)
		new_lines[site], new_lines[site + 1] = lines[site + 1], lines[site]
		return new_lines, {'group': 'firstInclude', 'lineno': None, 'kind': None}


class DirectiveIndent(Family):
	name = 'preprocessor:indent'

	def candidates(self, lines, relpath):
		out = []
		continuing = False
		for index, line in enumerate(lines[:-1]):
			if not continuing and line.startswith('#'):
				out.append(index)
			continuing = (continuing or line.startswith('#')) and line.endswith('\\') and not _is_include(line)
		return out

	def apply(self, lines, site, rng):
		return _replace(lines, site, rng.choice(['\t', ' ', '\t\t']) + lines[site]), {
			'group': 'indentedPreprocessor', 'lineno': site + 1, 'kind': 'preprocessor should be aligned to column 0',
			'classes': self.site_classes(lines, site, self.current_relpath)}

	def site_classes(self, lines, site, relpath):
		"""The directive that is mis-indented (the parser treats the directive words differently) and whether it opens a macro."""
		line = lines[site]
		word = re.match(r'#\s*(\w*)', line).group(1)
		if '#pragma once' == line:
			word = 'pragma-once'
		return [f'directive:{word}' + (':multi-line' if line.endswith('\\') else '')]


class PragmaOnceMissing(Family):
	name = 'pragma:missing'

	def candidates(self, lines, relpath):
		return [index for index, line in enumerate(lines) if '#pragma once' == line][:1] if relpath.endswith('.h') else []

	def apply(self, lines, site, rng):
		mode = rng.randrange(3)
		if 0 == mode:
			new_lines = lines[:site] + lines[site + 1:]
		elif 1 == mode:
			new_lines = _replace(lines, site, '#pragma  once')
		else:
			new_lines = _replace(lines, site, '#pragma once ')
		return new_lines, {'group': 'pragmaErrors', 'lineno': 0, 'kind': 'Missing `#pragma once`'}


class PragmaOnceEmptyLine(Family):
	name = 'pragma:empty-line-before-include'

	def candidates(self, lines, relpath):
		if not relpath.endswith('.h'):
			return []
		return [index for index, line in enumerate(lines[:-1]) if '#pragma once' == line and lines[index + 1].startswith('#include')]

	def apply(self, lines, site, rng):
		new_lines = _insert(lines, site + 1, '')
		# the linter reports the rule with the number of the LAST empty line it saw after `#pragma once` (empty_line_number is
		# overwritten by every later empty line); lines of a later column-0 `/** ... **/` block are not looked at
		empties = [index + 1 for index, line in enumerate(new_lines[:-1]) if not line and index > site]
		later_notice = any(line.startswith('/**') for line in new_lines[site:])
		return new_lines, {
			'group': 'pragmaErrors', 'lineno': None if later_notice else empties[-1], 'kind': 'Empty line after `#pragma once`'}


class LicenseEdit(Family):
	name = 'licence:changed-character'

	def candidates(self, lines, relpath):
		return list(range(1, LICENSE_LINES - 1)) if len(lines) > LICENSE_LINES and lines[0].startswith('/**') else []

	def apply(self, lines, site, rng):
		line = lines[site]
		if len(line) > 4 and rng.random() < 0.7:
			position = rng.randrange(3, len(line))
			new_line = line[:position] + ('x' if 'x' != line[position] else 'y') + line[position + 1:]
		else:
			new_line = line + 'x'
		return _replace(lines, site, new_line), {'group': 'copyrightCommentChecker', 'lineno': 1, 'kind': None}


class LicenseMissing(Family):
	name = 'licence:missing'

	def candidates(self, lines, relpath):
		return [0] if lines[0].startswith('/**') and len(lines) > LICENSE_LINES else []

	def apply(self, lines, site, rng):
		return _replace(lines, 0, '/*' + lines[0][3:]), {'group': 'pragmaErrors', 'lineno': 0, 'kind': 'Missing license info'}


class RegionUnclosed(Family):
	name = 'region:unclosed'

	def candidates(self, lines, relpath):
		return [index for index, line in enumerate(lines[:-1]) if not line and index >= LICENSE_LINES + 2]

	def apply(self, lines, site, rng):
		return _insert(lines, site, '\t// region seeded'), {'group': 'regionValidator', 'lineno': None, 'kind': 'non-closed region'}


class RegionOrphanEnd(Family):
	name = 'region:endregion-without-region'

	def candidates(self, lines, relpath):
		return [index for index, line in enumerate(lines[:-1]) if not line and index >= LICENSE_LINES + 2]

	def apply(self, lines, site, rng):
		return _insert(lines, site, '\t// endregion'), {'group': 'regionValidator', 'lineno': None, 'kind': 'endregion without corresponding region'}


class RegionTypo(Family):
	name = 'region:invalid-name'

	def candidates(self, lines, relpath):
		return [index for index, line in enumerate(lines[:-1]) if not line and index >= LICENSE_LINES + 2]

	def apply(self, lines, site, rng):
		text = rng.choice(['//region seeded', '//  region seeded', '// Region: begin region', '// end region', '//endregion'])
		return _insert(lines, site, '\t' + text), {'group': 'regionValidator', 'lineno': site + 1, 'kind': 'invalid region'}


class RegionNested(Family):
	name = 'region:nested'

	def candidates(self, lines, relpath):
		# directly after an existing region line (so the new region is nested in it and closed again)
		return [index for index, line in enumerate(lines[:-1]) if re.search(r'// region', line) and index >= LICENSE_LINES]

	def apply(self, lines, site, rng):
		new_lines = lines[:site + 1] + ['', '\t// region seeded', '', '\t// endregion'] + lines[site + 1:]
		return new_lines, {'group': 'regionValidator', 'lineno': site + 3, 'kind': 'nested region'}


class RegexWitness(Family):
	"""Inserts a witness of one table regex so that the validator owning it must report (typo list, single-regex validators)."""

	def __init__(self, entry, group, kind, new_line=False):
		self.entry = entry
		self.group = group
		self.kind = kind
		self.new_line = new_line or entry['features']['bol'] or entry['features']['eol']
		self.name = f'regex:{entry["owner"]}:{entry["id"]}'

	def candidates(self, lines, relpath):
		if 'Cpp17TraitsValidator' == self.entry['owner'] and relpath.endswith(('Traits.h', 'TraitsTests.cpp', 'Logging.h')):
			return []  # the validator exempts these files by name
		if 'BasicFunctionAliasValidator' == self.entry['owner'] and relpath.endswith('functions.h'):
			return []
		if self.new_line:
			return [index for index, line in enumerate(lines[:-1]) if not line and index >= LICENSE_LINES + 2]
		return [
			index for index, line in enumerate(lines[:-1])
			if index >= LICENSE_LINES and line.strip() and '\\' != line[-1] and not line.startswith('#') and '"' not in line and 'region' not in line]

	def apply(self, lines, site, rng):
		witness = self.entry['witness']
		features = self.entry['features']
		if '/*' in witness and '*/' not in witness.split('/*')[-1] and not features['eol']:
			witness += ' */'  # keep the file lexable: an unterminated comment sends the lexer's comment regex into exponential backtracking
		if self.new_line:
			if features['bol']:
				new_line = witness if features['eol'] else witness + rng.choice(['', ' seeded'])
			else:
				new_line = '\t' + (witness if features['eol'] else witness + ' seeded')
			return _insert(lines, site, new_line), {'group': self.group, 'lineno': site + 1, 'kind': self.kind, 'seeded_line': new_line}
		line = lines[site]
		glue = ' ' if features['wordb'] else rng.choice(['', ' '])
		mode = rng.randrange(3)
		if 0 == mode or '//' in line:
			# any position of the line that does not split a comment marker
			positions = [index for index in range(len(line) + 1) if '/' not in line[max(0, index - 1):index + 1] and '*' not in line[max(0, index - 1):index + 1]]
			position = rng.choice(positions or [len(line)])
			new_line = line[:position] + glue + witness + glue + line[position:]
		else:
			new_line = line + ' // ' + witness + glue
		return _replace(lines, site, new_line), {'group': self.group, 'lineno': site + 1, 'kind': self.kind, 'seeded_line': new_line}


class CrossComponentInclude(Family):
	"""A test include of ANOTHER component, for every rule set that has a cross-include rule (Rules.py validate_cross_includes:
	default rules under tests/catapult/<component> and tests/int, plugin rules, extension rules). Stratified by the shape of the
	file's include list (which kinds of includes the seeded one is sorted among)."""
	name = 'includes:cross-component'

	@staticmethod
	def rule_kind(relpath):
		parts = relpath.split('/')
		if not relpath.endswith('.cpp') or 'tests' not in parts[:-1]:
			return None
		if 'tests' == parts[0]:
			if len(parts) >= 4 and 'catapult' == parts[1]:
				return 'default:tests/catapult'
			if len(parts) >= 3 and 'int' == parts[1]:
				return 'default:tests/int'
			return None
		if parts[0] in ('plugins', 'sdk') and len(parts) >= 4:
			return 'plugin'
		if 'extensions' == parts[0] and len(parts) >= 4:
			return 'extension'
		return None

	def candidates(self, lines, relpath):
		if self.rule_kind(relpath) is None:
			return []
		return [index for index, line in enumerate(lines[:-1]) if line.startswith('#include "')][-1:]

	def apply(self, lines, site, rng):
		kind = self.rule_kind(self.current_relpath)
		include = {
			'default:tests/catapult': '"tests/catapult/zzzseeded/test/SeededUtils.h"', 'default:tests/int': '"tests/catapult/zzzseeded/test/SeededUtils.h"',
			'plugin': '"plugins/txes/zzzseeded/tests/test/SeededUtils.h"', 'extension': '"zzzseeded/tests/seededdir/SeededUtils.h"'}[kind]
		return _insert(lines, site + 1, f'#include {include}'), {
			'group': 'cross_includes', 'lineno': None, 'kind': None, 'seeded_line': f'#include {include}',
			'classes': self.site_classes(lines, site, self.current_relpath)}

	def site_classes(self, lines, site, relpath):
		"""Rule set + the kinds of includes the file has (the seeded include is sorted among them and the rule walks the sorted list)."""
		kinds = set()
		for line in lines:
			match = re.match(r'#include (["<])([^">]*)[">]', line)
			if not match:
				continue
			parts = match.group(2).split('/')
			if '<' == match.group(1):
				kinds.add('system')
			elif 1 == len(parts):
				kinds.add('relative')
			elif 2 == len(parts):
				kinds.add(f'short:{parts[0]}')
			else:
				kinds.add(f'long:{parts[0]}' if parts[0] in ('catapult', 'tests', 'plugins', 'src', 'mongo', 'sdk') else 'long:other')
		return [f'{self.rule_kind(relpath)} | ' + ' '.join(sorted(kinds))]


class ForbiddenDependency(Family):
	"""An #include of a directory that deps.config forbids for the file's directory; the directory is drawn from ALL forbidden
	ones, preferring those a directory with a shorter name (a proper prefix of this one) would be allowed."""
	name = 'dependencies:forbidden-include'
	oracle = None
	destinations = None
	current_relpath = None

	@classmethod
	def forbidden(cls, source):
		if cls.oracle is None:
			cls.oracle = DepsOracle()
			cls.destinations = [name for name in cls.oracle.names if '.' not in name and '/' in name]
		out = [destination for destination in cls.destinations if not cls.oracle.allowed(source, destination)]
		shorter = [name for name in cls.oracle.reach if '.' not in name and source.startswith(name) and source != name]
		preferred = [destination for destination in out if any(cls.oracle.allowed(name, destination) for name in shorter)]
		return out, preferred

	def candidates(self, lines, relpath):
		source = source_directory(relpath)
		if source is None or not self.forbidden(source)[0]:
			return []
		return [index for index, line in enumerate(lines[:-1]) if line.startswith('#include "')][-1:]

	def apply(self, lines, site, rng):
		source = source_directory(self.current_relpath)
		out, preferred = self.forbidden(source)
		destination = rng.choice(preferred) if preferred and rng.random() < 0.6 else rng.choice(out)
		return _insert(lines, site + 1, f'#include "{destination}/Seeded.h"'), {
			'group': 'dependency', 'lineno': None, 'kind': f'{source} -> {destination}', 'seeded_line': f'#include "{destination}/Seeded.h"'}


class NamespaceRename(Family):
	name = 'namespace:inconsistent-with-path'

	def candidates(self, lines, relpath):
		parts = relpath.split('/')
		if 'src' != parts[0] or len(parts) != 4 or 'catapult' != parts[1]:
			return []
		import exclusions  # pylint: disable=import-error,import-outside-toplevel
		if any(pattern.match(relpath) for pattern in exclusions.NAMESPACES_FALSEPOSITIVES):
			return []  # exempted from the namespace check by name
		opening = f'namespace catapult {{ namespace {parts[2]} {{'
		sites = [index for index, line in enumerate(lines) if line == opening]
		return sites if 1 == len(sites) else []

	def apply(self, lines, site, rng):
		return _replace(lines, site, lines[site].replace('{ namespace ', '{ namespace seeded')), {'group': 'namespace', 'lineno': None, 'kind': 'INVALID'}


class ForwardDeclarationSwap(Family):
	name = 'forward-declarations:order'

	def candidates(self, lines, relpath):
		if not relpath.endswith('.h'):
			return []
		pattern = re.compile(r'^\t+(class|struct) \w+;$')
		return [
			index for index in range(len(lines) - 2)
			if pattern.match(lines[index]) and pattern.match(lines[index + 1])
			and lines[index].split()[1].lower() != lines[index + 1].split()[1].lower() and lines[index].count('\t') == lines[index + 1].count('\t')]

	def apply(self, lines, site, rng):
		new_lines = list(lines)
		new_lines[site], new_lines[site + 1] = lines[site + 1], lines[site]
		return new_lines, {'group': 'forward', 'lineno': None, 'kind': None}


class TextEdit(Family):
	"""Replaces text matched by `find` with `replacement` on a line where that provokes one rule."""

	def __init__(self, name, find, replacement, group, kind, line_filter=None, report_first_line=False):
		self.name = name
		self.report_first_line = report_first_line
		self.find = re.compile(find)
		self.replacement = replacement
		self.group = group
		self.kind = kind
		self.line_filter = line_filter

	def candidates(self, lines, relpath):
		return [
			index for index, line in enumerate(lines[:-1])
			if index >= LICENSE_LINES and self.find.search(line) and (self.line_filter is None or self.line_filter(line, relpath))]

	def apply(self, lines, site, rng):
		new_line = self.find.sub(self.replacement, lines[site], count=1)
		return _replace(lines, site, new_line), {
			'group': self.group, 'lineno': site + 1 + (0 if self.report_first_line else new_line.count('\n')), 'kind': self.kind, 'seeded_line': new_line}


SINGLE_REGEX_VALIDATORS = {
	# owner class -> (report group, attribute pattern index within the class (source order), kind)
	'TemplateSpaceValidator': ('templateFollowedBySpace', 0, 'Template followed by space'),
	'CatchWithoutClosingTryBrace': ('catchAndClosingTryBraceOnSeparateLines', 0, 'catch and closing try brace must be on same line'),
	'Cpp17TraitsValidator': ('cpp17Traits', None, None),
	'BasicFunctionAliasValidator': ('functionAlias', None, None),
}


def build_catalogue(entries, constants):
	limit = constants['lineLengthLimit']
	families = [
		TrailingSpace(), LeadingSpaces(), TabsInEmptyLine(), TabInside(), DoubleSpace(), CommaWithoutSpace(), CarriageReturn(),
		LongLine(limit, 0), LongLine(limit, -1), LongLine(limit, 1), LongLine(limit, 7),
		LongLine(limit, 0, 'aligned'), LongLine(limit, -1, 'aligned'), LongLine(limit, 1, 'aligned'),
		LongLine(limit, 0, 'unaligned'), LongLine(limit, -1, 'unaligned'), LongLine(limit, 1, 'unaligned'),
		ConsecutiveEmpty(), BlankNearEnd(), IncludeSwap(), FirstInclude(), DirectiveIndent(),
		PragmaOnceMissing(), PragmaOnceEmptyLine(), LicenseEdit(), LicenseMissing(),
		RegionUnclosed(), RegionOrphanEnd(), RegionTypo(), RegionNested(),
		CrossComponentInclude(), ForbiddenDependency(), NamespaceRename(), ForwardDeclarationSwap(),
		# brace and return formatting, and a few more single-line validators driven by text edits
		TextEdit('formatting:template-space', r'\btemplate<', 'template <', 'templateFollowedBySpace', 'Template followed by space'),
		TextEdit(
			'formatting:return-on-same-line', r'^(\t+)return ', r'\1if (seeded) return ', 'returnOnNewLine', None,
			lambda line, _: line.endswith(';') and '[' not in line and '//' not in line),
		TextEdit(
			'formatting:space-before-brace', r'^(\t+)return (\w+)\((.*)\);$', r'\1auto seeded = Seeded {};', 'spaceBrace', None,
			lambda line, _: True),
		TextEdit('formatting:catch-on-own-line', r'^(\t+)} catch ', r'\1}\n\1catch ', 'catchAndClosingTryBraceOnSeparateLines', None),
		TextEdit('formatting:enum-not-scoped', r'\benum class ', 'enum ', 'multiConditionChecker', 'use enum class instead of enum'),
		TextEdit(
			'multi-condition:operator-bool-not-explicit', r'\bexplicit operator bool', 'operator bool', 'multiConditionChecker',
			'Missing explicit before operator bool'),
		TextEdit(
			'multi-condition:doxygen-comment-in-cpp', r'^(\t*)// ', r'\1/// ', 'multiConditionChecker', '/// unexpected in cpp file',
			lambda line, relpath: relpath.endswith('.cpp') and 'region' not in line),
		TextEdit(
			'multi-condition:test-without-test-class', r'^(\t+)TEST\(TEST_CLASS, ', r'\1TEST(Seeded, ', 'multiConditionChecker', 'TEST should use TEST_CLASS',
			lambda line, relpath: line.startswith('\t') and 'TEST_NAME' not in line and '##' not in line and not relpath.endswith('Stress.h')),
		TextEdit(
			'single-line:call-split-over-two-lines', r'^(\t+)(\w[\w:.>-]*)\((\w[\w, ]*)\);$', r'\1\2(\n\1\t\t\3);', 'singleLine',
			'block fits in a single line', lambda line, _: 'return' not in line, report_first_line=True),
		TextEdit(
			'formatting:macro-semicolon', r'^(\t+)(DEFINE_[A-Z_]+_TESTS?|MAKE_[A-Z_]+_TESTS?)\(([^()]*)\)$', r'\1\2(\3);', 'macroSemicolonChecker', None,
			lambda line, _: not any(word in line for word in (
				'NOTIFICATION', 'RECEIPT', 'RESULT', '_TYPE', 'EXPECT_', 'ASSERT_', 'CATAPULT_', 'WAIT_FOR', 'PROPERTY', 'DECLARE_MONGO', 'DEFINE_MOCK'))),
	]
	for entry in entries:
		if 'TypoChecker' == entry['owner']:
			families.append(RegexWitness(entry, 'nameTypo', entry['message']))
		elif 'BasicFunctionAliasValidator' == entry['owner']:
			families.append(RegexWitness(entry, 'functionAlias', entry['message']))
		elif 'Cpp17TraitsValidator' == entry['owner']:
			families.append(RegexWitness(entry, 'cpp17Traits', None))
	return families


# endregion

# region (3) seeded edits: engine (runs the real Analyzer in-process, in worker processes)

_W = {}


class _Args:  # what check_dependencies reads from the parsed command line
	dep_check_dir = ['src', 'extensions', 'plugins']


def _worker_init(root):
	"""Per process: scratch root as cwd (the linter works on relative paths), real modules imported from the working tree."""
	os.makedirs(root, exist_ok=True)
	os.chdir(root)
	import checkProjectStructure as cps  # pylint: disable=import-error,import-outside-toplevel
	import Parser as parser_module  # pylint: disable=import-error,import-outside-toplevel
	from DepsChecker import DepsChecker  # pylint: disable=import-error,import-outside-toplevel
	parser_module.TEXT_OUTPUT = True
	_W.update({'cps': cps, 'root': root, 'DepsChecker': DepsChecker, 'originals': {}, 'silent': {}, 'catalogue': None})


def _original(relpath):
	cache = _W['originals']
	if relpath not in cache:
		with open(os.path.join(REPO, CATAPULT, relpath), 'rt', encoding='utf8') as infile:
			cache[relpath] = infile.read()
		if len(cache) > 400:
			cache.pop(next(iter(cache)))
	return cache[relpath]


def _write(relpath, text):
	path = os.path.join(_W['root'], relpath)
	os.makedirs(os.path.dirname(path), exist_ok=True)
	with open(path, 'wb') as outfile:
		outfile.write(text.encode('utf8'))


def _new_analyzer():
	cps = _W['cps']
	options = cps.AnalyzerOptions()
	options.text_output = True
	return cps.Analyzer(options)


def _lint_one(analyzer, relpath):
	"""Adds one scratch file to the Analyzer; returns its sorted reports, report = (group, lineno, kind)."""
	cps = _W['cps']
	aborted = False
	saved = sys.stdout
	sys.stdout = open(os.devnull, 'wt', encoding='utf8')  # pylint: disable=consider-using-with
	try:
		directory, filename = os.path.split(relpath)
		entry = cps.Entry(directory, filename, cps.SOURCE_DIRS[relpath.split('/')[0]])
		before = {group: len(errors) for group, errors in analyzer.context.items()}
		try:
			analyzer.add(entry)
		except SystemExit:
			aborted = True  # Parser.quit(): the token-level parser gave up on the file
		except Exception as ex:  # pylint: disable=broad-except
			aborted = True
			analyzer.context['crash'].append(type('Crash', (), {'path': relpath, 'lineno': 0, 'kind': f'{type(ex).__name__}: {ex}'})())
		reports = []
		for group, errors in analyzer.context.items():
			for err in errors[before.get(group, 0):]:
				lineno = getattr(err, 'lineno', None)
				kind = getattr(err, 'kind', '') if hasattr(err, 'kind') else getattr(err, 'include', '')
				if err.path != relpath:
					kind = f'[reported for {err.path}] {kind}'
				reports.append((group, lineno if isinstance(lineno, int) else (None if lineno is None else str(lineno)), str(kind)[:160]))
		entry = analyzer.includes.get(relpath)
		if aborted:
			reports.append(('parser-abort', None, ''))
		elif entry is not None:
			verdict = entry.check()
			if cps.CheckResult.SUCCESS != verdict:
				reports.append(('namespace', None, verdict.name))
			for err in entry.template_errors:
				reports.append(('template', None, str(err.line)[:80]))
			if 'deps' not in _W:
				_W['deps'] = _W['DepsChecker']('deps.config', [])
			_W['deps'].errors = []
			cps.check_dependencies({relpath: entry}, _W['deps'], _Args)
			for err in _W['deps'].errors:
				reports.append(('dependency', None, err[1]))
	finally:
		sys.stdout.close()
		sys.stdout = saved
	return sorted(reports, key=lambda report: (report[0], -1 if report[1] is None else (report[1] if isinstance(report[1], int) else 0), report[2]))


def _lint(relpaths):
	"""Lints the scratch files in this order with ONE Analyzer; returns {relpath: reports}."""
	analyzer = _new_analyzer()
	return {relpath: _lint_one(analyzer, relpath) for relpath in relpaths}


def _seed(case):
	"""(seeded text, expectation) of a case = dict(family index, relpath, site, seed)."""
	import random  # pylint: disable=import-outside-toplevel
	if _W.get('catalogue') is None:
		entries, _, constants = extract_regexes()
		_W['catalogue'] = build_catalogue(entries, constants)
	family = _W['catalogue'][case['family']]
	original = _original(case['relpath'])
	lines = original.split('\n')
	family.current_relpath = case['relpath']
	new_lines, expectation = family.apply(lines, case['site'], random.Random(case['seed']))
	return '\n'.join(new_lines), expectation, original


def _matches(report, expectation):
	group, lineno, kind = report
	if group != expectation['group']:
		return False
	if expectation.get('lineno') is not None and lineno != expectation['lineno']:
		return False
	return expectation.get('kind') is None or expectation['kind'] in kind


def _judge(result, reports, expectation):
	found = any(_matches(report, expectation) for report in reports)
	if expectation.get('absent'):
		if found:
			result['failures'].append(('property', f'conforming boundary edit is reported: {expectation["group"]} at line {expectation["lineno"]}'))
	elif not found:
		broken = [report[0] for report in reports if report[0] in ('parser-abort', 'crash')]
		if 'crash' in broken and 'unknown token' in ' '.join(report[2] for report in reports if 'crash' == report[0]):
			# the seeded text is no longer lexable for the forward-declaration tokenizer: its RuntimeError ends the validator loop
			result['discarded'] = 'tokenizer-crash'
		elif 'parser-abort' in broken and expectation['group'] in ('namespace', 'template', 'dependency', 'cross_includes', 'includesOrder', 'firstInclude'):
			result['discarded'] = 'parser-abort'
		else:
			where = '' if expectation.get('lineno') is None else f' at line {expectation["lineno"]}'
			result['failures'].append((
				'property', f'seeded violation is not reported: expected {expectation["group"]}{where}'
				+ (f' ({expectation["kind"]})' if expectation.get('kind') else '') + f'; reported: {reports[:6]}', expectation.get('signature')))
	if not reports and not expectation.get('absent'):
		result['failures'].append(('property', 'the linter is silent about the seeded file (it would exit 0)', expectation.get('signature')))


def run_chunk(cases):
	"""Seeded edits, chained: every seeded file is linted as the first file of a fresh Analyzer ("alone") and, with the Analyzer of
	the previous case, directly after that case's (different) dirty file; the edit is undone and, for a sample, the original relinted.
	Before each case the worker notes it in <root>/current-case.json (the parent's watchdog reads it: a regular expression of the
	linter that backtracks exponentially cannot be interrupted from inside the process)."""
	results = []
	previous = None  # (analyzer that has linted exactly the previous seeded file, its case)
	note_path = os.path.join(_W['root'], 'current-case.json')
	for case in cases:
		with open(note_path + '.tmp', 'wt', encoding='utf8') as outfile:
			json.dump({'case': case, 'since': time.time()}, outfile)
		os.replace(note_path + '.tmp', note_path)
		relpath = case['relpath']
		seeded, expectation, original = _seed(case)
		result = {'case': case, 'expectation': expectation, 'failures': []}
		_write(relpath, seeded)
		analyzer = _new_analyzer()
		alone = _lint_one(analyzer, relpath)
		result['reports'] = alone[:12]
		_judge(result, alone, expectation)

		if previous is not None and previous[1]['relpath'] != relpath:
			after_dirty = _lint_one(previous[0], relpath)
			if after_dirty != alone:
				extra = [report for report in after_dirty if report not in alone]
				missing = [report for report in alone if report not in after_dirty]
				only_explicit_ctor = all('explicitCtorChecker' == report[0] for report in extra + missing)
				result['failures'].append((
					'property', f'reports depend on the file linted before ({previous[1]["relpath"]}, {previous[1]["name"]}): missing {missing[:4]}, additional {extra[:4]}',
					SIG_EXPLICIT_CTOR_LEAK if only_explicit_ctor else None))
				result['dirty'] = previous[1]
			result['leak_checked'] = True
		if previous is not None:
			_write(previous[1]['relpath'], _original(previous[1]['relpath']))
		previous = (analyzer, case)

		# undo: the inverse edit gives back the original text, about which the linter is silent
		if case.get('relint'):
			_write(relpath, original)
			silent = _lint([relpath])[relpath]
			_write(relpath, seeded)
			if silent:
				result['failures'].append(('property', f'undoing the edit does not restore silence: {silent[:4]}'))
			result['relinted'] = True
		result['modelled'] = {'path': relpath, 'text': seeded, 'reports': alone} if case.get('model') else None
		results.append(result)
	if previous is not None:
		_write(previous[1]['relpath'], _original(previous[1]['relpath']))
	if os.path.exists(note_path):
		os.remove(note_path)
	return results


def run_case(pair):
	"""One seeded edit with an explicit dirty predecessor (replay)."""
	case, dirty_case = pair
	chunk = ([dict(dirty_case, relint=False, model=False)] if dirty_case else []) + [dict(case, relint=True)]
	return run_chunk(chunk)[-1]


def file_sites(args):
	"""(relpath, [family index -> candidate sites]) computed in a worker (reads and scans the file once)."""
	relpath, family_indexes = args
	if _W.get('catalogue') is None:
		entries, _, constants = extract_regexes()
		_W['catalogue'] = build_catalogue(entries, constants)
	lines = _original(relpath).split('\n')
	out = {}
	for index in family_indexes:
		sites = _W['catalogue'][index].candidates(lines, relpath)
		if sites:
			out[index] = sites
	return relpath, out



# context classes of a site (a line index): features of the line and of its neighbourhood
CONTEXT_LABELS = (
	'prev:backslash', 'prev:directive', 'prev:include', 'prev:comment', 'prev:empty', 'prev:open-brace', 'prev:close-brace',
	'self:directive', 'self:comment', 'self:empty', 'self:backslash', 'next:empty', 'next:directive', 'next:close-brace',
	'in:macro', 'in:region', 'in:block-comment', 'in:indented-block', 'pos:licence', 'pos:first-lines', 'pos:last-lines', 'plain')
# for these families the few sites of these classes are always all exercised
RARE_CLASS_SITES = 40  # a family-specific class (e.g. a pair of include classes) with at most this many sites in the tree is exercised in full
ALWAYS_ALL = {'blank-lines:consecutive': ('prev:backslash', 'in:macro'), 'whitespace:tabs-in-empty-line': ('prev:backslash',)}


def line_contexts(lines):
	"""For every line index the set of context classes it belongs to."""
	count = len(lines) - 1 if lines and not lines[-1] else len(lines)
	out = []
	in_macro = False
	in_comment = False
	region_depth = 0
	for index in range(len(lines)):
		line = lines[index]
		previous = lines[index - 1] if index else None
		following = lines[index + 1] if index + 1 < count else None
		stripped = line.strip()
		labels = set()
		if previous is not None:
			before = previous.strip()
			if previous.endswith('\\'):
				labels.add('prev:backslash')
			if before.startswith('#'):
				labels.add('prev:include' if before.startswith('#include') else 'prev:directive')
			if before.startswith(('//', '/*', '*')):
				labels.add('prev:comment')
			if not before:
				labels.add('prev:empty')
			if before.endswith('{'):
				labels.add('prev:open-brace')
			if before.startswith('}'):
				labels.add('prev:close-brace')
		if stripped.startswith('#'):
			labels.add('self:directive')
		if stripped.startswith(('//', '/*', '*')):
			labels.add('self:comment')
		if not stripped:
			labels.add('self:empty')
		if line.endswith('\\'):
			labels.add('self:backslash')
		if following is not None:
			after = following.strip()
			if not after:
				labels.add('next:empty')
			if after.startswith('#'):
				labels.add('next:directive')
			if after.startswith('}'):
				labels.add('next:close-brace')
		if in_macro:
			labels.add('in:macro')
		if region_depth > 0:
			labels.add('in:region')
		if in_comment:
			labels.add('in:block-comment')
		if line.startswith('\t'):
			labels.add('in:indented-block')
		if index < LICENSE_LINES:
			labels.add('pos:licence')
		elif index < LICENSE_LINES + 5:
			labels.add('pos:first-lines')
		if index >= count - 4:
			labels.add('pos:last-lines')
		if not labels:
			labels.add('plain')
		out.append(labels)
		# state for the next line
		in_macro = line.endswith('\\') and (in_macro or stripped.startswith('#')) and not _is_include(line)
		if '/*' in line and '*/' not in line.split('/*')[-1]:
			in_comment = True
		elif in_comment and '*/' in line:
			in_comment = False
		if re.search(r'// region\b', line):
			region_depth += 1
		elif re.search(r'// endregion\b', line):
			region_depth = max(0, region_depth - 1)
	return out


def stratification_groups(catalogue):
	"""Families that share their site predicate are stratified together: [(group name, [family indexes])]."""
	groups = []
	typo_inline = [index for index, family in enumerate(catalogue) if isinstance(family, RegexWitness) and 'TypoChecker' == family.entry['owner'] and not family.new_line]
	typo_line = [index for index, family in enumerate(catalogue) if isinstance(family, RegexWitness) and 'TypoChecker' == family.entry['owner'] and family.new_line]
	for index, family in enumerate(catalogue):
		if not isinstance(family, RegexWitness):
			groups.append((family.name, [index]))
	if typo_inline:
		groups.append(('regex:TypoChecker:witness-inside-a-line', typo_inline))
	if typo_line:
		groups.append(('regex:TypoChecker:witness-as-a-new-line', typo_line))
	return groups


def context_sites(relpath):
	"""Worker: for every stratification group the sites of this file per context class: {group: {label: (count, [<= 2 sites])}}
	(all sites for the ALWAYS_ALL classes)."""
	if _W.get('catalogue') is None:
		entries, _, constants = extract_regexes()
		_W['catalogue'] = build_catalogue(entries, constants)
	if _W.get('groups') is None:
		_W['groups'] = stratification_groups(_W['catalogue'])
	lines = _original(relpath).split('\n')
	contexts = None
	out = {}
	for name, members in _W['groups']:
		sites = _W['catalogue'][members[0]].candidates(lines, relpath)
		if not sites:
			continue
		if contexts is None:
			contexts = line_contexts(lines)
		per_label = {}
		family = _W['catalogue'][members[0]]
		own_classes = getattr(family, 'site_classes', None)
		for site in sites:
			if not isinstance(site, int) or site >= len(contexts):
				continue
			for label in (own_classes(lines, site, relpath) if own_classes else contexts[site]):
				per_label.setdefault(label, []).append(site)
		keep = {}
		for label, found in per_label.items():
			if label in ALWAYS_ALL.get(name, ()) or own_classes:
				keep[label] = (len(found), found)
			else:
				keep[label] = (len(found), [found[0], found[len(found) // 2]] if len(found) > 1 else found)
		out[name] = keep
	return relpath, out


def plan_stratified(ctx, catalogue, per_file):
	"""At least one case (thorough: three) for every (family group x context class) that exists in the tree; all sites of the
	ALWAYS_ALL classes. Records the class counts for the evidence."""
	rng = ctx.rng
	groups = dict(stratification_groups(catalogue))
	pools = {}
	counts = {}
	for relpath in sorted(per_file):
		for name, labels in per_file[relpath].items():
			for label, (count, sites) in labels.items():
				counts.setdefault(name, {}).setdefault(label, 0)
				counts[name][label] += count
				pools.setdefault((name, label), []).extend((relpath, site) for site in sites)
	cases = []
	exercised = {}
	for (name, label), pool in sorted(pools.items()):
		if label in ALWAYS_ALL.get(name, ()) or (' | ' in label and len(pool) <= RARE_CLASS_SITES):
			chosen = pool  # few sites in the whole tree: all of them
		else:
			chosen = rng.sample(pool, min(len(pool), ctx.scale(1, 3)))
		for relpath, site in chosen:
			family = rng.choice(groups[name])
			cases.append({
				'family': family, 'relpath': relpath, 'site': site, 'seed': rng.randrange(1 << 30), 'name': catalogue[family].name, 'context': label, 'group': name})
		exercised.setdefault(name, {})[label] = len(chosen)
	ctx.c19_contexts = {
		name: {label: {'sites_in_tree': counts[name][label], 'cases': exercised.get(name, {}).get(label, 0)} for label in sorted(counts[name])}
		for name in sorted(counts)}
	ctx.count('context:classes-present-in-the-tree', sum(len(labels) for labels in counts.values()))
	ctx.count('context:classes-exercised', sum(1 for labels in exercised.values() for number in labels.values() if number))
	ctx.count('context:stratified-cases', len(cases))
	return cases


# endregion

# region (4) correspondence with the Lean models

WS_KINDS = {
	'Whitespace at line ending': 'wsLineEnding', 'Spaces at beginning of a line': 'wsSpacesStart', 'Tabs in empty line': 'wsTabsEmpty',
	'Tab present inside the text': 'wsTabInside',
}
PRAGMA_KINDS = {'Missing license info': 'missingLicense', 'Missing `#pragma once`': 'missingPragmaOnce', 'Empty line after `#pragma once`': 'emptyAfterPragmaOnce'}
REGION_KINDS = {
	'invalid region': 'regionInvalid', 'nested region': 'regionNested', 'endregion without corresponding region': 'regionOrphanEnd',
	'non-closed region': 'regionUnclosed'}


def modelled_view(reports, entries):
	"""The reports of the real linter restricted to, and renamed as, what Model/Lint/LineRules.lean models."""
	out = []
	messages = {}
	for entry in entries:
		if 'TypoChecker' == entry['owner']:
			messages.setdefault(entry['message'], []).append(entry['id'])
	for group, lineno, kind in reports:
		if 'whitespaceLines' == group:
			if kind in WS_KINDS:
				out.append(f'{WS_KINDS[kind]}:{lineno}')
			elif kind.startswith('Space after operator'):
				out.append(f'wsSpaceOperator:{lineno}')
			elif kind.startswith('Carriage returns'):
				out.append('wsCarriageReturns:0')
		elif 'tooLongLines' == group:
			out.append(f'tooLong:{lineno}')
		elif group in ('consecutiveEmpty', 'emptyNearEnd'):
			out.append(f'{group}:{lineno}')
		elif 'pragmaErrors' == group:
			out.append(f'{PRAGMA_KINDS[kind]}:{lineno}')
		elif 'copyrightCommentChecker' == group:
			out.append(f'copyright:{lineno}')
		elif 'regionValidator' == group:
			for prefix, name in REGION_KINDS.items():
				if kind.startswith(prefix):
					out.append(f'{name}:{lineno}')
		elif 'nameTypo' == group:
			out.append(f'typo[{kind}]:{lineno}')
		elif 'singleLine' == group:
			out.append(f'singleLine:{lineno}')
		elif 'multiConditionChecker' == group:
			out.append(f'mcc[{kind}]:{lineno}')
	return sorted(out)


def model_view(answer, entries, mcc_messages=()):
	if '-' == answer:
		return []
	out = []
	for item in answer.split(','):
		name, lineno = item.split(':')
		if name.startswith('typo'):
			name = f'typo[{entries[int(name[4:])]["message"][:160]}]'
		elif name.startswith('mcc'):
			name = f'mcc[{mcc_messages[int(name[3:])][:160]}]'
		out.append(f'{name}:{lineno}')
	return sorted(out)


def check_regex_correspondence(ctx, entries, lines, label):
	"""Lean `search`/`matchStart` against `re.search`/`re.match` for every table regex on the given (ASCII) lines."""
	if not ctx.driver:
		return
	compiled = [re.compile(entry['source']) for entry in entries]
	for operation, method in (('searchall', 'search'), ('matchall', 'match')):
		subset = lines if 'searchall' == operation else lines[:len(lines) // 3]
		answers = ctx.driver.ask_many([f'{operation} {sx(line)}' for line in subset])
		for line, answer in zip(subset, answers):
			expected = ''.join('1' if getattr(pattern, method)(line) else '0' for pattern in compiled)
			ctx.count(f'regex:{label}:{method}:evaluations', len(compiled))
			if answer != expected:
				for index, (one, two) in enumerate(zip(answer, expected)):
					if one != two:
						ctx.fail(
							'corr', f're.{method}({entries[index]["source"]!r}, {line!r}): model {one}, implementation {two}',
							{'kind': 'regex', 'id': index, 'source': entries[index]['source'], 'line': line, 'method': method})
						break
		ctx.case(('regex', label, operation), None)


# endregion

# region entry points


STALL_TIMEOUT_S = 150
OVERALL_STALL_S = 900


def report_stalled(ctx, final):
	"""No chunk finished for a while. A worker stuck inside the linter (typically a regular expression that backtracks
	exponentially, which cannot be interrupted from Python) shows as a case that has been running for a long time: the case each
	worker noted before starting is then the failing input. Returns True when the run has to stop."""
	now = time.time()
	found = False
	for name in sorted(os.listdir(_POOL_ROOT)):
		path = os.path.join(_POOL_ROOT, name, 'current-case.json')
		if name.startswith('seeded-') and os.path.exists(path):
			try:
				with open(path, 'rt', encoding='utf8') as infile:
					note = json.load(infile)
			except ValueError:
				continue
			if now - note['since'] > STALL_TIMEOUT_S:
				found = True
				case = note['case']
				ctx.fail(
					'property', f'{case["name"]} in {case["relpath"]} line {case["site"] + 1}: the linter does not finish on the seeded file '
					f'(no answer for {int(now - note["since"])} s)', {'kind': 'seeded', 'case': case, 'dirty': None, 'stalled': True})
	if not found and final:
		ctx.fail('corr', f'the seeded-edit workers made no progress for {OVERALL_STALL_S} s and no stuck case was identified', {'kind': 'stall'})
		return True
	return found


def _pool_init():
	_worker_init(os.path.join(_POOL_ROOT, f'seeded-{os.getpid()}'))


_POOL_ROOT = None


def plan_cases(ctx, catalogue, sites_by_file, budget):
	"""Chooses (family, file, site) triples: every family gets its share, files and sites drawn with ctx.rng."""
	rng = ctx.rng
	by_family = {}
	for relpath, sites in sites_by_file.items():
		for index, candidates in sites.items():
			by_family.setdefault(index, []).append((relpath, candidates))
	cases = []
	regex_families = [index for index, family in enumerate(catalogue) if isinstance(family, RegexWitness)]
	other_families = [index for index in range(len(catalogue)) if index not in regex_families]
	share_other = max(4, int(budget * 0.55) // max(1, len(other_families)))
	share_regex = max(2, int(budget * 0.45) // max(1, len(regex_families)))
	for index in range(len(catalogue)):
		available = by_family.get(index, [])
		if not available:
			ctx.count(f'seeded:no-applicable-site:{catalogue[index].name.split(":")[0]}')
			ctx.notes.append(f'no applicable site in the sampled files for {catalogue[index].name}')
			continue
		share = share_regex if index in regex_families else share_other
		for _ in range(share):
			relpath, candidates = rng.choice(available)
			cases.append({'family': index, 'relpath': relpath, 'site': rng.choice(candidates), 'seed': rng.randrange(1 << 30), 'name': catalogue[index].name})
	rng.shuffle(cases)
	for number, case in enumerate(cases):
		case['model'] = 0 == number % 4
		case['relint'] = 0 == number % 6
	return cases


def report_result(ctx, result, catalogue, entries, model_requests):
	case = result['case']
	family = catalogue[case['family']]
	ctx.case((case['name'], case['relpath'], case['site'], case['seed']), {
		'family': case['name'], 'file': case['relpath'], 'line': case['site'] + 1, 'expected': result['expectation'], 'reported': result['reports'][:3]}
		if len(ctx.samples) < 10 else None)
	ctx.count('seeded:' + family.name.split(':')[0])
	if case.get('context'):
		ctx.count('seeded:stratified:' + case['context'])
	if result.get('discarded'):
		ctx.count('seeded:discarded:' + result['discarded'])
	if result.get('leak_checked'):
		ctx.count('seeded:also-linted-after-a-dirty-file')
	if result.get('relinted'):
		ctx.count('seeded:undone-and-relinted')
	for failure in result['failures']:
		kind, what = failure[0], failure[1]
		signature = failure[2] if len(failure) > 2 else None
		seen = ctx.__dict__.setdefault('c19_signatures', set())
		if signature is not None:
			if signature in seen:
				continue
			seen.add(signature)
		ctx.fail(kind, f'{case["name"]} in {case["relpath"]} line {case["site"] + 1}: {what}', {
			'kind': 'seeded', 'case': case, 'dirty': result.get('dirty'), 'expectation': result['expectation'], 'reports': result['reports'],
			'seeded_line': result['expectation'].get('seeded_line')}, signature)
	if result.get('modelled'):
		model_requests.append((case, result['modelled']))


def run(ctx):
	# pylint: disable=too-many-locals,too-many-statements
	global _POOL_ROOT  # pylint: disable=global-statement
	entries, typo_count, constants = extract_regexes()
	catalogue = build_catalogue(entries, constants)
	base, files = tree_files()
	import exclusions  # pylint: disable=import-error,import-outside-toplevel
	skipped = [relpath for relpath in files if any(pattern.match(relpath) for pattern in exclusions.SKIP_FILES)]
	files = [relpath for relpath in files if relpath not in skipped]
	ctx.count('files:skipped-by-the-linter-itself', len(skipped))
	rng = ctx.rng
	full = start_full_run(ctx, split=not ctx.thorough)
	try:
		_POOL_ROOT = ctx.tmpdir()
		workers = max(2, min(8, (os.cpu_count() or 4) // 2))
		with multiprocessing.get_context('fork').Pool(workers, initializer=_pool_init) as pool:
			oracle = DepsOracle()
			mark = time.time()
			check_dependencies_exhaustively(ctx, pool, oracle, deps_universe(oracle, files, base))
			ctx.count('seconds:dependency-pairs', int(time.time() - mark))
			sampled = files if ctx.thorough else rng.sample(files, 260)
			family_indexes = list(range(len(catalogue)))
			sites_by_file = dict(pool.imap_unordered(file_sites, [(relpath, family_indexes) for relpath in sampled], chunksize=8))
			# rare families need the files where they apply
			for relpath in files:
				if relpath not in sites_by_file and (relpath.startswith('src/catapult/utils/') or relpath.startswith('tests/catapult/')) and rng.random() < 0.15:
					sites_by_file.update(dict([file_sites_local(relpath, catalogue)]))
			per_file = dict(pool.imap_unordered(context_sites, files, chunksize=16))
			stratified = plan_stratified(ctx, catalogue, per_file)
			cases = plan_cases(ctx, catalogue, sites_by_file, max(600, ctx.scale(2000, 30000) - len(stratified)))
			cases = stratified + cases
			rng.shuffle(cases)
			for number, case in enumerate(cases):
				case['model'] = 0 == number % 4 or case.get('context') in ('prev:backslash', 'in:macro')
				case['relint'] = 0 == number % 6
			ctx.count('seeded:families', len(catalogue))
			ctx.count('seeded:files-with-sites', len(sites_by_file))
			chunks = [cases[start:start + 12] for start in range(0, len(cases), 12)]
			model_requests = []
			iterator = pool.imap_unordered(run_chunk, chunks)
			remaining = len(chunks)
			last_progress = time.time()
			last_look = time.time()
			while remaining:
				results = None
				try:
					results = iterator.next(timeout=20)
				except multiprocessing.TimeoutError:
					pass
				if results is not None:
					remaining -= 1
					last_progress = time.time()
					for result in results:
						report_result(ctx, result, catalogue, entries, model_requests)
				if time.time() - last_look > 20:
					last_look = time.time()
					# a worker stuck inside the linter shows as a case that has been running for long, whatever the others do
					if report_stalled(ctx, final=time.time() - last_progress >= OVERALL_STALL_S):
						pool.terminate()
						break

		ctx.count('seconds:seeded-edits', int(time.time() - full['start']))
		mark = time.time()
		# Lean regex engine against `re`
		lines = []
		for relpath in rng.sample(files, ctx.scale(40, 400)):
			with open(os.path.join(base, relpath), 'rt', encoding='utf8') as infile:
				lines.extend(line for line in infile.read().split('\n') if line.isascii())
		lines = rng.sample(lines, min(len(lines), ctx.scale(1200, 6000)))
		witness_lines = [entry['witness'] for entry in entries] + [f'x {entry["witness"]} y' for entry in entries] + [f'a{entry["witness"]}b' for entry in entries]
		witness_lines = [line for line in witness_lines if line.isascii() and '\n' not in line]
		check_regex_correspondence(ctx, entries, lines, 'tree-lines')
		check_regex_correspondence(ctx, entries, witness_lines, 'witness-lines')
		if ctx.driver:
			for entry in entries:
				if 'true' != ctx.driver.ask(f'full {entry["id"]} {sx(entry["witness"])}'):
					ctx.fail('corr', f'model: witness {entry["witness"]!r} does not match {entry["source"]!r}', {'kind': 'witness', 'id': entry['id']})

		ctx.count('seconds:regex-correspondence', int(time.time() - mark))
		mark = time.time()
		# Lean line-rule models against the real validators, on seeded files and on conforming files
		if ctx.driver:
			model_requests.sort(key=lambda item: 0 if item[0].get('context') in ('prev:backslash', 'in:macro') else 1)  # those first (stable)
			for case, modelled in model_requests[:ctx.scale(90, 1200)]:
				if any(report[0] in ('crash', 'parser-abort') for report in modelled['reports']):
					ctx.count('model-lint:skipped:the-linter-aborted-on-the-seeded-file')  # finalize() never ran: nothing to compare
					continue
				answer = ctx.driver.ask(f'lint {sx(modelled["path"])} {sx(modelled["text"])}')
				ctx.count('model-lint:seeded-files')
				if model_view(answer, entries, constants['mccMessages']) != modelled_view(modelled['reports'], entries):
					ctx.fail(
						'corr', f'{case["name"]} in {case["relpath"]}: modelled reports differ: model {model_view(answer, entries, constants["mccMessages"])[:6]}, '
						f'implementation {modelled_view(modelled["reports"], entries)[:6]}', {'kind': 'seeded', 'case': case, 'model': answer[:300]})
			for relpath in rng.sample(files, ctx.scale(20, 250)):
				with open(os.path.join(base, relpath), 'rt', encoding='utf8') as infile:
					text = infile.read()
				if not text.isascii():
					continue
				ctx.count('model-lint:conforming-files')
				answer = ctx.driver.ask(f'lint {sx(relpath)} {sx(text)}')
				if '-' != answer:
					ctx.fail('corr', f'the model is not silent on the conforming file {relpath}: {answer[:200]}', {'kind': 'model-silent', 'file': relpath})
				ctx.case(('model-silent', relpath), None)
		ctx.count('seconds:model-lint', int(time.time() - mark))
		mark = time.time()
		check_validator_models(ctx, entries, constants, lines)
		check_namespace_rules(ctx, files)
		ctx.count('seconds:validator-models', int(time.time() - mark))
		mark = time.time()
		check_command_line(ctx)
		ctx.count('seconds:command-line', int(time.time() - mark))
		check_frozen_catalogue(ctx)
		ctx.count('regex:table-entries', len(entries))
		ctx.count('regex:typo-entries', typo_count)
	finally:
		finish_full_run(ctx, full)


def file_sites_local(relpath, catalogue):
	with open(os.path.join(REPO, CATAPULT, relpath), 'rt', encoding='utf8') as infile:
		lines = infile.read().split('\n')
	out = {}
	for index, family in enumerate(catalogue):
		sites = family.candidates(lines, relpath)
		if sites:
			out[index] = sites
	return relpath, out


def replay(ctx, payload):
	global _POOL_ROOT  # pylint: disable=global-statement
	case = payload.get('case') or {}
	print(payload.get('what', ''))
	kind = case.get('kind')
	entries, _, constants = extract_regexes()
	catalogue = build_catalogue(entries, constants)
	if 'seeded' == kind:
		_POOL_ROOT = ctx.tmpdir()
		saved = os.getcwd()
		try:
			_pool_init()
			result = run_case((case['case'], case.get('dirty')))
		finally:
			os.chdir(saved)
		report_result(ctx, result, catalogue, entries, [])
	elif 'regex' == kind:
		check_regex_correspondence(ctx, entries, [case['line']], 'replay')
	elif 'ci' == kind:
		finish_full_run(ctx, start_full_run(ctx, split=False))
	elif 'catalogue' == kind:
		check_frozen_catalogue(ctx)
	elif 'deps' == kind:
		_POOL_ROOT = ctx.tmpdir()
		oracle = DepsOracle()
		with multiprocessing.get_context('fork').Pool(1, initializer=_pool_init) as pool:
			check_dependencies_exhaustively(ctx, pool, oracle, ([case['source']], [case['destination']], [], []))
	else:
		run(ctx)


def extra_evidence(ctx):
	entries, typo_count, constants = extract_regexes()
	return {
		'regex_table': {'entries': len(entries), 'typo_entries': typo_count, 'anchor_free': sum(1 for entry in entries if not any(entry['features'].values()))},
		'constants': constants,
		'context_classes': getattr(ctx, 'c19_contexts', {}),
	}


# endregion

MANIFEST = {
	'level_text': (
		'Partial by design. Proved for all inputs: the regex engine agrees with its declarative semantics on the fragment without '
		'group/back-reference (m_iff_matches, search_iff_lang); a witness inserted at ANY position of ANY line fires an anchor-free rule '
		'(search_context), also through strip_comments_and_strings when it stands outside comments and literals '
		'(strip_preserves_plain_prefix, stripped_witness_survives, stripped_search_context; strip_idem_partial); every pattern the validators '
		'hold has a kernel-checked witness (typo_witnesses, validator_witnesses, re-read from the running linter on every run); seeded-edit '
		'and undo theorems for the modelled line rules (whitespace, line length incl. the boundary, consecutive blank lines at every position - '
		'the multiline flag of parse_file is modelled -, near-end blank lines, region comments, typo insertion, empty line after #pragma once), '
		'for MultiConditionChecker (mcc_reports_iff, seeded_stripped_witness, seeded_enum_without_class, seeded_operator_bool_not_explicit, '
		'seeded_doxygen_in_cpp), for SingleLineValidator (singleLine_two_lines, seeded_split_call) and for the namespace-versus-path rule '
		'from the namespace name onwards (plugin/extension_namespace_unique, seeded_namespace_rename, default_namespace_needs_path); '
		'DepsChecker: deps_closure_spec, allowed_iff, anchoring theorems; exit_is_count, shell_status_wraps. Executed on the real code: the CI '
		'command over the whole tree; context-stratified and sampled seeded edits of every catalogue family, each linted alone, after a dirty '
		'file, and undone; every (source directory x include directory) pair through DepsChecker.match; the stripper, the capturing matcher, '
		'MultiConditionChecker, SingleLineValidator and the four namespace_check rule sets against their models.'),
	'level_note': (
		'Not modelled: Parser.NamespacesParser and Analyzer.get_shortest_namespace_set (which namespace names a file has; PLY-tokenised C++) '
		'and forwardsValidation - covered by seeded edits on the implementation only; these parsers run on a PLY stand-in. The capturing '
		'matcher (groups) and the unconditional idempotence of the stripper are tied by execution only (exhaustive over short marker strings). '
		'\\w \\d \\b modelled on ASCII. SHA-1 is a parameter.'),
	'technique': 'Lean 4 theorems over a hand-written model + differential correspondence with the Python implementation',
}


# region DepsChecker: independent oracle and exhaustive correspondence


class DepsOracle:
	"""The verdict deps.config prescribes, written directly from the file: defines expanded, rules closed transitively over the
	names as strings, every name used as a full-string pattern (plain `re.fullmatch`)."""

	def __init__(self):
		config = parse_deps_config()
		defines = config['defines']
		edges = set()

		def expand(source, destination, level):
			if level >= 5:
				raise ValueError('define nesting too deep')
			if source in defines:
				for item in defines[source]:
					expand(item, destination, level + 1)
			elif destination in defines:
				for item in defines[destination]:
					expand(source, item, level + 1)
			else:
				edges.add((source, destination))

		for source, destination in config['lines']:
			expand(source, destination, 1)
		direct = {}
		for source, destination in edges:
			direct.setdefault(source, set()).add(destination)
		self.reach = {}
		for source in direct:
			seen = set()
			todo = list(direct[source])
			while todo:
				name = todo.pop()
				if name not in seen:
					seen.add(name)
					todo.extend(direct.get(name, ()))
			self.reach[source] = seen
		self.names = sorted(set(direct) | {name for values in direct.values() for name in values})
		self.compiled = {name: re.compile(name) for name in self.names}
		self._by_source = {}

	def destinations_for(self, source):
		if source not in self._by_source:
			patterns = set()
			for name, reached in self.reach.items():
				if self.compiled[name].fullmatch(source):
					patterns |= reached
			self._by_source[source] = [self.compiled[name] for name in sorted(patterns)]
		return self._by_source[source]

	def allowed(self, source, destination):
		fixed = destination if '/' in destination or 'catapult' == destination else source + '/' + destination
		return any(pattern.fullmatch(fixed) for pattern in self.destinations_for(source))


def source_directory(relpath):
	"""The source directory check_dependencies derives from a file name, or None when the file is not dependency-checked."""
	if not any(re.match(top, relpath) for top in _Args.dep_check_dir) or 'tests' in relpath:
		return None
	parts = re.split(r'[/\\]', os.path.dirname(relpath))
	return '/'.join(parts[1:]) if 'src' == parts[0] else '/'.join(parts)


def deps_universe(oracle, files, base):
	"""(real source directories, real include directories, synthetic sources, synthetic destinations)."""
	sources = sorted({source_directory(relpath) for relpath in files} - {None})
	destinations = set()
	include_re = re.compile(r'\s*#\s*include[ \t]*"([^">]*)"')
	for relpath in files:
		with open(os.path.join(base, relpath), 'rt', encoding='utf8', errors='replace') as infile:
			for line in infile:
				if 'include' in line:
					match = include_re.match(line)
					if match and os.path.dirname(match.group(1)):
						destinations.add(os.path.dirname(match.group(1)))
	literal = [name for name in oracle.names if '.' not in name]
	patterned = [name for name in oracle.names if '.' in name]
	destinations |= set(literal) | {name.replace('.*', '') for name in patterned} | {name.replace('.*', '/x') for name in patterned}

	def neighbours(name):
		out = {name + 'x', name + '_x', name + '/sub', name + '/'}
		if len(name) > 1:
			out.add(name[:-1])
		if '/' in name:
			out.add(name.rsplit('/', 1)[0])
		return out

	synthetic_sources = set()
	synthetic_destinations = set()
	for name in literal + [name.replace('.*', '') for name in patterned]:
		synthetic_sources |= neighbours(name)
		synthetic_destinations |= neighbours(name)
	# every real directory that extends another real directory by a name suffix is already in `sources`; add the reverse direction
	synthetic_sources -= set(sources)
	synthetic_destinations -= destinations
	return sources, sorted(destinations), sorted(synthetic_sources - {''}), sorted(synthetic_destinations - {''})


def deps_rows(job):
	"""Worker: the real DepsChecker.match for one source directory against many destinations -> string of 0/1."""
	source, destinations = job
	if 'deps' not in _W:
		_W['deps'] = _W['DepsChecker']('deps.config', [])
	checker = _W['deps']
	checker.errors = []
	out = []
	for destination in destinations:
		out.append('1' if checker.match('seeded', source, destination, destination + '/Seeded.h') else '0')
	checker.errors = []
	return source, ''.join(out)


def check_dependencies_exhaustively(ctx, pool, oracle, universe):
	"""Every (source directory, include directory) pair: implementation vs oracle vs model."""
	sources, destinations, synthetic_sources, synthetic_destinations = universe
	ctx.count('deps:source-directories', len(sources))
	ctx.count('deps:include-directories', len(destinations))
	ctx.count('deps:synthetic-sources', len(synthetic_sources))
	ctx.count('deps:synthetic-destinations', len(synthetic_destinations))
	# quick: ALL real pairs; the synthetic neighbours (names extended / truncated by a suffix or a path component) are sampled
	step = 1 if ctx.thorough else 5
	wide = destinations + synthetic_destinations[::step]
	narrow = wide if ctx.thorough else destinations
	jobs = [(source, wide) for source in sources] + [(source, narrow) for source in synthetic_sources[::step]]
	results = pool.imap_unordered(deps_rows, jobs, chunksize=4)  # the workers start on the implementation's verdicts right away
	model_rows = {}
	mark = time.time()
	if ctx.driver:
		encoded = {id(wide): ','.join(sx(destination) for destination in wide), id(narrow): ','.join(sx(destination) for destination in narrow)}
		for number, (source, row_destinations) in enumerate(jobs):
			if ctx.thorough or 0 == (number + ctx.seed) % 3:  # the model side is the slow one: a third of the rows per quick run
				model_rows[source] = ctx.driver.ask(f'allowedrow {sx(source)} {encoded[id(row_destinations)]}')
	ctx.count('seconds:dependency-pairs:model', int(time.time() - mark))
	lists = dict(jobs)
	wrongly_allowed = 0
	for source, row in results:
		row_destinations = lists[source]
		ctx.case(('deps-row', source), {'source': source, 'allowed': row.count('1'), 'of': len(row)} if len(ctx.samples) < 12 else None)
		ctx.count('deps:pairs', len(row))
		expected = ''.join('1' if oracle.allowed(source, destination) else '0' for destination in row_destinations)
		if row != expected:
			for destination, got, want in zip(row_destinations, row, expected):
				if got != want:
					case = {'kind': 'deps', 'source': source, 'destination': destination, 'implementation': got, 'deps.config': want}
					if '1' == got:
						wrongly_allowed += 1
						if wrongly_allowed <= 12:
							ctx.fail(
								'property', f'dependency rules: a file in {source!r} may include "{destination}/..." although deps.config does not allow it '
								f'(DepsChecker.match returns True; a seeded #include of that directory there is a violation the linter does not report)', case)
					else:
						ctx.fail('corr', f'dependency rules: DepsChecker.match forbids {source!r} -> {destination!r}, which deps.config allows', case)
						break
		model = model_rows.get(source)
		if model is not None:
			ctx.count('deps:pairs-compared-with-the-model', len(row))
			if model != row:
				for destination, got, want in zip(row_destinations, model, row):
					if got != want:
						ctx.fail(
							'corr', f'dependency rules: model {got}, implementation {want} for {source!r} -> {destination!r}',
							{'kind': 'deps', 'source': source, 'destination': destination, 'model': got, 'implementation': want})
						break
	if wrongly_allowed:
		ctx.count('deps:pairs-allowed-against-deps.config', wrongly_allowed)


# endregion


# region strip_comments_and_strings, MultiConditionChecker, SingleLineValidator: model against implementation

BATTERY_PATHS = (
	'src/catapult/model/Seeded.h', 'src/catapult/model/Seeded.cpp', 'tests/catapult/validators/SeededValidatorTests.cpp',
	'plugins/txes/seeded/src/observers/SeededObserver.cpp', 'plugins/txes/seeded/src/validators/SeededValidator.cpp', 'tests/TestHarness.h',
	'tests/test/nodeps/Stress.h')
SINGLE_LINE_BLOCKS = (
	['\tfoo(', '\t\t\ta,', '\t\t\tb);', ''],
	['\tauto x = bar(', '\t\t\tbaz(1), // note', '\t\t\tqux[2]);', 'int y;'],
	['\tfoo(', '\t\t\t// comment', '\t\t\tb);'],
	['\tfoo(', '\t\t\t{ a[1], b[2] },', '\t\t\tc);'],
	['\tfoo(', '\t\t\t"str)ing",', "\t\t\t')');"],
	['\tconstexpr auto Raw = R"(', 'text', ')";'],
	['\tfoo(', '\t\t\t' + 'a' * 150 + ');'],
	['\tfoo(', '\t\t\ta));', '\tbar;', '\tbaz(', '\t\t\tc);'],
	['\touter(inner(', '\t\t\ta),', '\t\t\tb);'],
)


def format_groups(match):
	if match is None:
		return 'none'
	return 'ok ' + ';'.join(f'{index}={sx(match.group(index))}' for index in range(0, (match.re.groups or 0) + 1) if index and match.group(index) is not None)


def check_validator_models(ctx, entries, constants, tree_lines):
	"""The Lean stripper, the capturing matcher and the models of MultiConditionChecker / SingleLineValidator against the real code."""
	# pylint: disable=too-many-locals,too-many-branches
	import itertools  # pylint: disable=import-outside-toplevel
	import validation  # pylint: disable=import-error,import-outside-toplevel
	if not ctx.driver:
		return
	witnesses = [entry['witness'] for entry in entries if entry['witness'].isascii() and '\n' not in entry['witness']]
	# (a) strip_comments_and_strings: tree lines, witness lines in and around comments / literals, and EVERY string over the marker alphabet
	small = [''.join(item) for size in range(0, ctx.scale(6, 7)) for item in itertools.product('/*"\'a ', repeat=size)]
	decorated = [f'{left}{witness}{right}' for witness in witnesses[::3] for left, right in (('', ''), ('a "', '" b'), ('/* ', ' */ x'), ("'", "' // y"), ('x // ', ''))]
	strip_lines = tree_lines + decorated + small
	answers = ctx.driver.ask_many([f'strip {sx(line)}' for line in strip_lines])
	for line, answer in zip(strip_lines, answers):
		real = validation.strip_comments_and_strings(line)
		ctx.count('strip:lines')
		if answer != sx(real):
			ctx.fail('corr', f'strip_comments_and_strings({line!r}): model differs from the implementation {real!r}', {'kind': 'strip', 'line': line, 'model': answer})
		if validation.strip_comments_and_strings(real) != real:
			ctx.fail('corr', f'strip_comments_and_strings is not idempotent on {line!r}: {real!r} -> {validation.strip_comments_and_strings(real)!r}', {'kind': 'strip', 'line': line})
	ctx.case(('strip', len(strip_lines)), {'lines': len(strip_lines), 'exhaustive_up_to_length': ctx.scale(5, 6)})

	# (b) the groups of the four patterns whose groups MultiConditionChecker reads
	checker = validation.MultiConditionChecker()
	probes = tree_lines[:ctx.scale(400, 3000)] + witnesses + ['\t' + witness for witness in witnesses] + [
		'\tFoo(const Bar& bar);', '\tFoo(Foo& foo);', '\tCreateFoo(int a);', '\tResolvable(int a);', '\tFoo(int a, int b);', '\texplicit Foo(int a);',
		'void Check(int a, ValidationResult value)', 'void Check(int a,  ValidationResult result)', 'f(a, ValidationResult value) g(b, ValidationResult x)',
		'\tconst auto* pPacket = ionet::CoercePacket<Foo>(&packet);', '\tauto& x = CoercePacket<Foo>(&packet);', '\tconst auto* a = f(); auto* b = CoercePacket(p);',
		'\tauto x = {', '\tstatic constexpr Foo::Bar baz = {', '\tconst std::vector vec = { 1 };', 'Foo foo = {']
	for name, mode in (('validation_result', 'search'), ('missing_explicit_ctor', 'match'), ('coerce', 'search'), ('struct_assignment', 'match')):
		pattern = getattr(checker, 'pattern_' + name, None)
		if pattern is None:
			continue
		answers = ctx.driver.ask_many([f'captures {name} {mode} {sx(line)}' for line in probes])
		for line, answer in zip(probes, answers):
			real = format_groups(getattr(pattern, mode)(line))
			ctx.count(f'captures:{name}')
			if answer != real:
				ctx.fail('corr', f're.{mode}({pattern.pattern!r}, {line!r}) groups: model {answer}, implementation {real}', {'kind': 'captures', 'name': name, 'line': line})
	ctx.case(('captures', len(probes)), None)

	# (c) a battery of lines that make the checks fire (every pattern's witness in several shapes) under paths of every kind
	battery = []
	for witness in witnesses:
		battery += [witness, '\t' + witness, '\t' + witness + ';', '\tx ' + witness + ' // ' + witness, '\t// ' + witness, '\t"' + witness + '"']
	for block in SINGLE_LINE_BLOCKS:
		battery += block
	battery += probes[-16:]
	text = '\n'.join(battery) + '\n'
	messages = constants['mccMessages']
	for path in BATTERY_PATHS:
		reports = []
		for validator in (validation.SingleLineValidator(), checker):
			validator.reset(path, lambda group, err: reports.append((group, err.lineno, err.kind)))
			for number, line in enumerate(battery, 1):
				validator.check(number, line)
			validator.finalize()
		real = sorted([f'singleLine:{lineno}' for group, lineno, _ in reports if 'singleLine' == group] + [
			f'mcc[{kind[:160]}]:{lineno}' for group, lineno, kind in reports if 'multiConditionChecker' == group])
		answer = ctx.driver.ask(f'lint {sx(path)} {sx(text)}')
		model = [item for item in model_view(answer, entries, messages) if item.startswith(('singleLine', 'mcc['))]
		ctx.count('validator-battery:lines', len(battery))
		ctx.count('validator-battery:reports', len(real))
		ctx.case(('battery', path), {'path': path, 'lines': len(battery), 'reports': len(real)})
		if model != real:
			difference = sorted(set(model) ^ set(real))[:6]
			ctx.fail(
				'corr', f'MultiConditionChecker / SingleLineValidator on the battery under {path}: model and implementation differ on {difference}',
				{'kind': 'battery', 'path': path, 'difference': difference, 'lines': [battery[int(item.rsplit(":", 1)[1]) - 1] for item in difference]})


# endregion


# region namespace versus path: Rules.*.namespace_check against Model/Lint/Namespace.lean


def check_namespace_rules(ctx, files):
	"""`ruleset.namespace_check(unified namespace, path)` of the real rule sets against the model, for tree paths and synthetic
	ones x candidate namespaces (the namespace names themselves come from the unmodelled token-level parser)."""
	import checkProjectStructure as cps  # pylint: disable=import-error,import-outside-toplevel
	if not ctx.driver:
		return
	rng = ctx.rng
	kinds = {'DefaultRules': 'default', 'PluginRules': 'plugin', 'ExtensionRules': 'extension', 'ToolsRules': 'tools'}
	paths = list(files) if ctx.thorough else rng.sample(files, 250)
	paths += [
		'src/catapult/model/Mock_Thing.h', 'tests/catapult/model/mocks/MockThing.h', 'tests/int/node/stress/Foo_Bar.cpp', 'tests/bench/nodeps/Bench.cpp',
		'tests/TestHarness.h', 'tests/test/core/mocks/MockFoo.h', 'plugins/txes/lock_hash/src/constants.h', 'plugins/txes/lock_hash/tests/test/mocks/MockX.h',
		'plugins/txes/lock_hash/int/Foo.cpp', 'plugins/coresystem/Foo.cpp', 'sdk/src/builders/Foo.h', 'extensions/mongo/MongoExtension.cpp',
		'extensions/mongo/plugins/transfer/src/TransferMapper.cpp', 'extensions/timesync/src/filters/Foo.h', 'extensions/sync/tests/test/mocks/MockY.h',
		'extensions/zeromq/src/model.h/Foo.h', 'tools/health/main.cpp', 'tools/tools_x/ToolMain.cpp', 'internal/tools/address/main.cpp', 'extensions/hashcache']
	directories = sorted({part for relpath in files for part in relpath.split('/')[:-1]})
	candidates = [f'catapult:{name}:' for name in rng.sample(directories, min(len(directories), ctx.scale(40, 200)))] + [
		'catapult:test:', 'catapult:mocks:', 'catapult:', 'catapult:plugins:', 'catapult:mongo:plugins:', 'catapult:tools:', 'catapult:tools:health:',
		'catapult:tools:health:<anon>:', 'catapult:<anon>:', '<anon>:', 'catapult:model:<anon>:', 'catapult:mongo:<anon>:', 'catapult:model:', ':mocks:', '']
	requests = []
	for path in paths:
		ruleset = cps.SOURCE_DIRS.get(path.split('/')[0]) or cps.SOURCE_DIRS.get('/'.join(path.split('/')[:2]))
		if ruleset is None:
			continue
		for namespace in candidates:
			try:
				verdict = ruleset.namespace_check(namespace, path)
				real = bool(verdict[0] if isinstance(verdict, tuple) else verdict)
			except IndexError:
				real = False
				ctx.count('namespace-rule:IndexError')
			requests.append((f'nscheck {kinds[ruleset.__name__]} {sx(namespace)} {sx(path)}', 'true' if real else 'false', path, namespace))
	answers = ctx.driver.ask_many([request for request, _, _, _ in requests])
	accepted = 0
	for (request, real, path, namespace), answer in zip(requests, answers):
		accepted += 'true' == real
		if answer != real:
			ctx.fail(
				'corr', f'namespace_check({namespace!r}, {path!r}): model {answer}, implementation {real}',
				{'kind': 'namespace-rule', 'path': path, 'namespace': namespace, 'request': request.split()[1]})
	ctx.count('namespace-rule:evaluations', len(requests))
	ctx.count('namespace-rule:accepted', accepted)
	ctx.case(('namespace-rule', len(requests)), {'paths': len(paths), 'candidate_namespaces': len(candidates), 'accepted': accepted})


# endregion


# region end to end: the command line, its suites, SUMMARY and exit status


def _cli(root, dest):
	linters = os.path.join(REPO, 'linters/cpp')
	env = dict(os.environ, PYTHONPATH=os.pathsep.join([linters, os.path.join(ROOT, 'shims')]), PYTHONDONTWRITEBYTECODE='1', COLUMNS='80')
	command = [sys.executable, os.path.join(linters, 'checkProjectStructure.py'), '--text', '--dest-dir', dest] + CI_ARGS[1:]
	return subprocess.Popen(command, cwd=root, env=env, stdout=subprocess.PIPE, stderr=subprocess.PIPE, text=True)  # pylint: disable=consider-using-with


def _read_cli(proc):
	out, err = proc.communicate(timeout=600)
	suites, summaries, current = [], [], None
	for line in out.split('\n'):
		match = SUITE_RE.match(line)
		if match:
			current = {'suite': match.group(1), 'failures': int(match.group(3)), 'lines': []}
			suites.append(current)
			continue
		match = SUMMARY_RE.match(line)
		if match:
			summaries.append((match.group(1), int(match.group(2))))
			current = None
			continue
		if current is not None and line.strip():
			current['lines'].append(line)
	return {'exit': proc.returncode, 'suites': suites, 'summaries': summaries, 'stderr': err[-300:]}


def check_command_line(ctx):
	"""One seeded edit per suite the CI run prints, on a small lint-clean scratch tree, through the REAL command line: the suite lists
	the violation, the exit status is the number of printed violations (mod 256), the last SUMMARY agrees; undone -> exit 0."""
	# pylint: disable=too-many-locals,too-many-statements,too-many-branches
	import shutil  # pylint: disable=import-outside-toplevel
	base = os.path.join(REPO, CATAPULT)
	tools = sorted(
		os.path.relpath(os.path.join(dirpath, name), base) for dirpath, _, names in os.walk(os.path.join(base, 'tools')) for name in names
		if name.endswith(('.h', '.cpp')))

	def text_of(relpath):
		with open(os.path.join(base, relpath), 'rt', encoding='utf8') as infile:
			return infile.read().split('\n')

	def includes_of(lines):
		return [index for index, line in enumerate(lines) if _is_include(line)]

	header = next(relpath for relpath in tools if relpath.endswith('.h') and any('namespace catapult { namespace tools {' in line for line in text_of(relpath))
		and len(includes_of(text_of(relpath))) >= 2 and 'Generators' not in relpath)
	source = next(relpath for relpath in tools if relpath.endswith('.cpp') and 'main.cpp' not in relpath and len(includes_of(text_of(relpath))) >= 3
		and includes_of(text_of(relpath))[1] == includes_of(text_of(relpath))[0] + 1 and includes_of(text_of(relpath))[2] == includes_of(text_of(relpath))[0] + 2)
	template_file = next((relpath for relpath in tools if any('template<typename' in line for line in text_of(relpath))), None)

	def edit(relpath, function):
		lines = text_of(relpath)
		return {relpath: '\n'.join(function(lines))}

	def blank(lines):
		index = next(index for index, line in enumerate(lines) if not line and index > LICENSE_LINES + 1)
		return lines[:index] + [''] + lines[index:]

	def swap(lines, which):
		found = includes_of(lines)
		first = found[which]
		return lines[:first] + [lines[first + 1], lines[first]] + lines[first + 2:]

	def after_namespace(lines, extra):
		index = next(index for index, line in enumerate(lines) if 'namespace catapult { namespace tools {' in line)
		return lines[:index + 1] + extra + lines[index + 1:]

	def replace_first(lines, old, new):
		index = next(index for index, line in enumerate(lines) if old in line)
		return lines[:index] + [lines[index].replace(old, new, 1)] + lines[index + 1:]

	cases = {
		'Consecutiveempty': (edit(header, blank), header, {}),
		'Indentedpreprocessor': (edit(header, lambda lines: replace_first(lines, '#include', '\t#include')), header, {}),
		'Emptynearend': (edit(header, lambda lines: lines[:-2] + ['\t'] + lines[-2:]), header, {}),
		'Firstinclude': (edit(source, lambda lines: swap(lines, 0)), source, {}),
		'Includesorder': (edit(source, lambda lines: swap(lines, 1)), source, {}),
		'Anonnamespace': (edit(header, lambda lines: after_namespace(lines, ['\tnamespace {', '\t\tconstexpr auto Seeded_Value = 1;', '\t}', ''])), header, {}),
		'Preprocessorother': (edit(header, lambda lines: (lambda index: lines[:index + 1] + ['', '#define SEEDED_TEST_CLASS Seeded'] + lines[index + 1:])(includes_of(lines)[-1])), header, {}),
		'Whitespaces': (edit(source, lambda lines: replace_first(lines, 'namespace catapult', 'namespace catapult ') if False else [
			line + ' ' if index == includes_of(lines)[-1] + 2 and line else line for index, line in enumerate(lines)]), source, {}),
		'Inconsistent': (edit(header, lambda lines: replace_first(lines, 'namespace catapult { namespace tools {', 'namespace catapult { namespace seededtools {')), header, {}),
		'Exclusions': ({}, 'scripts/lint/exclusions.py', {'remove': 'tools/statusgen/main.cpp'}),
	}
	del template_file  # the Templates suite is not seeded here: `template<class` alone does not make the token-level parser report
	cases['Dependencies'] = ({'src/catapult/thread/detail/FutureSharedState.h': '\n'.join(
		(lambda lines: lines[:includes_of(lines)[-1] + 1] + ['#include "catapult/model/Block.h"'] + lines[includes_of(lines)[-1] + 1:])(
			text_of('src/catapult/thread/detail/FutureSharedState.h')))}, 'src/catapult/thread/detail/FutureSharedState.h', {'extra': ['src/catapult/thread/detail/FutureSharedState.h']})
	cases['Cross_Includes'] = ({'tests/catapult/thread/FutureTests.cpp': '\n'.join(
		(lambda lines: lines[:includes_of(lines)[-1] + 1] + ['#include "tests/catapult/zzzseeded/test/SeededUtils.h"'] + lines[includes_of(lines)[-1] + 1:])(
			text_of('tests/catapult/thread/FutureTests.cpp')))}, 'tests/catapult/thread/FutureTests.cpp', {'extra': ['tests/catapult/thread/FutureTests.cpp']})
	combined = dict(cases['Consecutiveempty'][0])
	combined.update(cases['Includesorder'][0])
	runs = {'(unchanged)': ({}, None, {}), '(two edits)': (combined, None, {})}
	runs.update(cases)
	for name in ('Dependencies', 'Cross_Includes'):
		runs[f'(unchanged, with {name})'] = ({}, None, {'extra': cases[name][2]['extra']})

	procs = {}
	for number, (name, (files, _, options)) in enumerate(runs.items()):
		root = os.path.join(ctx.tmpdir(), f'cli-{number}')
		shutil.copytree(os.path.join(base, 'tools'), os.path.join(root, 'tools'), ignore=shutil.ignore_patterns('CMakeLists.txt'))
		for relpath in options.get('extra', []):
			os.makedirs(os.path.dirname(os.path.join(root, relpath)), exist_ok=True)
			shutil.copy(os.path.join(base, relpath), os.path.join(root, relpath))
		for relpath, text in files.items():
			with open(os.path.join(root, relpath), 'wt', encoding='utf8') as outfile:
				outfile.write(text)
		if options.get('remove'):
			os.remove(os.path.join(root, options['remove']))
		os.makedirs(os.path.join(root, 'dest'), exist_ok=True)
		procs[name] = _cli(root, os.path.join(root, 'dest'))
	results = {name: _read_cli(proc) for name, proc in procs.items()}

	def total(result):
		return sum(suite['failures'] for suite in result['suites'])

	for name, result in results.items():
		files, listed, options = runs[name]
		case = {'kind': 'cli', 'edit': name, 'files': {relpath: text[-400:] for relpath, text in files.items()}, 'exit': result['exit'],
			'suites': {suite['suite']: suite['failures'] for suite in result['suites'] if suite['failures']}, 'summaries': result['summaries']}
		ctx.case(('cli', name), {'edit': name, 'exit': result['exit'], 'violations_printed': total(result), 'summary': result['summaries'][-1:]})
		ctx.count('cli:runs')
		printed = total(result)
		if not result['suites'] or not result['summaries']:
			ctx.fail('corr', f'command line run for {name}: no suites printed ({result["stderr"]})', case)
			continue
		if result['exit'] != printed % 256:
			ctx.fail('property', f'command line, edit {name}: the suites print {printed} violation(s) ({case["suites"]}) but the exit status is {result["exit"]}', case)
		if result['summaries'][-1][1] != printed or ('SUCCESS' == result['summaries'][-1][0]) != (0 == printed):
			ctx.fail('property', f'command line, edit {name}: the suites print {printed} violation(s) but the last SUMMARY line says {result["summaries"][-1]}', case)
		baseline = results['(unchanged)'] if 'extra' not in options else results[f'(unchanged, with {name})'] if name in cases else result
		if name in cases:
			suite = next((suite for suite in result['suites'] if suite['suite'] == name), None)
			before = next((item['failures'] for item in baseline['suites'] if item['suite'] == name), 0)
			if suite is None or suite['failures'] <= before:
				ctx.fail('property', f'command line: the seeded {name} violation is not printed under its suite (failures {suite and suite["failures"]}, unchanged tree {before})', case)
			elif 'Exclusions' != name and not any(listed in line for line in suite['lines']):
				ctx.fail('property', f'command line: suite {name} does not list {listed}', case)
			if 0 == result['exit']:
				ctx.fail('property', f'command line: exit status 0 although a {name} violation was seeded', case)
	if 0 != total(results['(unchanged)']) or 0 != results['(unchanged)']['exit']:
		ctx.fail('property', f'command line on the unchanged tools tree (the undone edits): exit {results["(unchanged)"]["exit"]}, {total(results["(unchanged)"])} violations', {'kind': 'cli', 'edit': '(unchanged)'})
	expected = total(results['Consecutiveempty']) + total(results['Includesorder'])
	if total(results['(two edits)']) != expected:
		ctx.fail('property', f'command line: two edits in one run print {total(results["(two edits)"])} violations, the two single runs {expected}', {'kind': 'cli', 'edit': '(two edits)'})


# endregion


# region frozen catalogue (harness/c19_catalogue.json)


def check_frozen_catalogue(ctx):
	"""Strings that violate a typo-list / function-alias rule, frozen from the pinned commit: the CURRENT validators must report the
	same message for each, in any context the rule does not anchor (so a weakened or dropped pattern is a failing input)."""
	import validation  # pylint: disable=import-error,import-outside-toplevel
	path = os.path.join(ROOT, 'harness', 'c19_catalogue.json')
	with open(path, 'rt', encoding='utf8') as infile:
		catalogue = json.load(infile)['entries']
	validators = {'TypoChecker': validation.TypoChecker(), 'BasicFunctionAliasValidator': validation.BasicFunctionAliasValidator()}
	rng = ctx.rng
	for entry in catalogue:
		validator = validators[entry['validator']]
		for violation in entry['violations']:
			glue = ' ' if entry['wordb'] else ''
			contexts = [violation]
			if not entry['bol'] and not entry['eol']:
				contexts += [f'\tauto x = 1; // {violation}{glue}', f'abc{glue}{violation}{glue}def' if not entry['wordb'] else f'abc {violation} def']
			elif entry['bol'] and not entry['eol']:
				contexts += [violation + ' trailing']
			elif entry['eol'] and not entry['bol']:
				contexts += ['\tleading ' + violation]
			for line in contexts:
				reports = []
				validator.reset('src/catapult/seeded/Seeded.cpp', lambda group, err: reports.append((group, err.lineno, err.kind)))  # pylint: disable=cell-var-from-loop
				number = rng.randrange(1, 500)
				validator.check(number, line)
				validator.finalize()
				ctx.case(('catalogue', entry['message'], line), None)
				ctx.count('catalogue:lines')
				if (validator.NAME, number, entry['message']) not in reports:
					ctx.fail(
						'property', f'catalogue violation {violation!r} of rule "{entry["message"]}" is not reported in line {line!r} '
						f'(pattern at the pinned commit: {entry["pattern_at_pinned_commit"]!r}); reported: {reports[:3]}',
						{'kind': 'catalogue', 'entry': entry, 'line': line})


# endregion

"""Random CATS schemas in the dialect the shipped schemas use (C15, C12).

Recombines the shipped constructs with fresh names, widths, orders and nesting: aliases (integers of every
width and sign, fixed buffers), enums and flag enums, plain / inline / abstract structs, const and reserved
members, counted arrays of aliases and structs, byte arrays sized by a member, sort keys, named inlines of
size-prefixed templates, sizeof and sizeref members with their conditionals (sizeref of a struct member and
of a byte array), enum conditionals before and
after their discriminant, discriminated factories with byte-sized aligned arrays, fill arrays (aligned
`not pad_last` and plain, the plain ones with and without sort key) and counted arrays of abstract elements.

Outside the dialect (decision recorded in lean/SymbolVerif/Proofs/Codec/STATUS.md): a size member not called `size`: the
window is right since c797a2816, but the class keeps a dead `total_size` attribute that to_json/__str__ show -- excluded
by `storedOk` (RENAMED_SIZE_MEMBERS stays False).
"""

INT_TYPES = ['uint8', 'uint16', 'uint32', 'uint64', 'int8', 'int16', 'int32', 'int64']
UNSIGNED = ['uint8', 'uint16', 'uint32', 'uint64']

# `@size(total_size)`: the emitted text (window of `_deserialize`, accessors, `instance._total_size = total_size`) is modelled and
# compares equal, but the generated class then *stores* the renamed size member as a dead attribute (`filter_size_if_first` goes by
# the name `size`): `to_json()` / `__str__` print it (stale: 0 on a fresh object), and the object model (`Val.struct`, Render.lean
# `toJson` / `toStr`) has no such member. Switch on once the object model follows (or the generator filters by `@size`).
RENAMED_SIZE_MEMBERS = False
IMPLICIT_FACTORIES = True  # an @is_size_implicit abstract family measured by a sizeof member of its holder


class SchemaGen:
	def __init__(self, rng, variant=None):
		self.rng = rng
		# `variant` walks systematically through the combinations that matter for array framing (container kind x padding
		# spelling) and conditional placement, so that a run of a dozen schemas covers each of them at least once
		self.variant = variant
		self.lines = []
		self.counter = 0
		self.int_aliases = []
		self.byte_aliases = []
		self.enums = []  # (name, members)
		self.leaf_structs = []  # fixed-size structs: (name, key candidates [(member, kind)])
		self.var_structs = []  # self-delimiting variable-size structs
		self.features = set()

	def fresh(self, stem):
		self.counter += 1
		suffix = ''
		number = self.counter
		while True:
			suffix = chr(ord('a') + number % 26) + suffix
			number //= 26
			if 0 == number:
				break
		return f'{stem}{suffix.capitalize()}'

	def emit(self, *lines):
		self.lines.extend(lines)
		self.lines.append('')

	# region declarations

	def alias_int(self):
		name = self.fresh('Num')
		base = self.rng.choice(UNSIGNED)  # the shipped schemas alias unsigned integers only (a signed alias cannot hold negative values: BaseValue is built unsigned)
		self.emit(f'using {name} = {base}')
		self.int_aliases.append((name, base))
		return name

	def alias_bytes(self):
		name = self.fresh('Buf')
		size = self.rng.choice([1, 3, 8, 20, 32])
		self.emit(f'using {name} = binary_fixed({size})')
		self.byte_aliases.append((name, size))
		return name

	def enum(self, bitwise=None):
		name = self.fresh('Kind')
		bitwise = self.rng.random() < 0.35 if bitwise is None else bitwise
		base = self.rng.choice(UNSIGNED)
		count = self.rng.randrange(2, 6)
		if bitwise:
			values = [1 << index for index in self.rng.sample(range(8), count)]
			self.features.add('flag-enum')
		else:
			values = self.rng.sample(range(0, 200), count)
			self.features.add('enum')
		members = [(f'V{index}X', value) for index, value in enumerate(values)]
		lines = (['@is_bitwise'] if bitwise else []) + [f'enum {name} : {base}']
		for member, value in members:
			lines.append(f'\t{member} = {hex(value).upper().replace("0X", "0x") if self.rng.random() < 0.5 else value}')
		self.emit(*lines)
		self.enums.append((name, members, bitwise))
		return name

	def scalar_type(self):
		pick = self.rng.random()
		if pick < 0.3:
			return self.rng.choice(INT_TYPES), 'int'
		if pick < 0.55 and self.int_aliases:
			return self.rng.choice(self.int_aliases)[0], 'alias-int'
		if pick < 0.75 and self.byte_aliases:
			return self.rng.choice(self.byte_aliases)[0], 'alias-bytes'
		if self.enums:
			return self.rng.choice(self.enums)[0], 'enum'
		return self.rng.choice(INT_TYPES), 'int'

	def scalar_members(self, prefix, count):
		members = []
		for index in range(count):
			type_name, kind = self.scalar_type()
			members.append((f'{prefix}{index}', type_name, kind))
		return members

	def leaf_struct(self):
		name = self.fresh('Leaf')
		members = self.scalar_members('fa', self.rng.randrange(1, 4))
		lines = [f'struct {name}']
		if self.rng.random() < 0.3:
			lines.append(f'\tLEAF_CONST = make_const(uint16, {self.rng.randrange(1000)})')
			self.features.add('const')
		for member, type_name, _ in members:
			lines.append(f'\t{member} = {type_name}')
			if self.rng.random() < 0.2:
				lines.append(f'\t{member}_reserved = make_reserved({self.rng.choice(UNSIGNED)}, {self.rng.randrange(0, 200)})')
				self.features.add('reserved')
		self.emit(*lines)
		keys = [(member, kind) for member, _, kind in members if kind in ('alias-int', 'alias-bytes')]
		self.leaf_structs.append((name, keys))
		return name

	def element_type(self):
		pick = self.rng.random()
		if pick < 0.3 and self.int_aliases:
			return self.rng.choice(self.int_aliases)[0], None
		if pick < 0.45 and self.byte_aliases:
			return self.rng.choice(self.byte_aliases)[0], None
		if pick < 0.6 and self.var_structs:
			return self.rng.choice(self.var_structs), None
		name, keys = self.rng.choice(self.leaf_structs)
		return name, keys

	def variable_struct(self):
		"""Self-delimiting struct with counted arrays / byte arrays / nested structs."""
		name = self.fresh('Var')
		lines = [f'struct {name}']
		aligned_parent = False
		if self.rng.random() < 0.5:
			lines.insert(0, '@is_aligned')
			aligned_parent = True
		for index in range(self.rng.randrange(1, 4)):
			pick = self.rng.random()
			if pick < 0.12:
				# NEM-style optional byte array: the size member holds a sentinel when the array is absent
				width, sentinel = self.rng.choice([('uint32', '0xFFFFFFFF'), ('uint16', '0xFFFF'), ('uint32', '4294967295')])
				lines += [f'\topt{index}_size = {width}', f'\topt{index} = array(int8, opt{index}_size) if {sentinel} not equals opt{index}_size']
				self.features.add('optional-byte-array')
			elif pick < 0.35:
				width = self.rng.choice(UNSIGNED)
				lines += [f'\tdata{index}_size = {width}', f'\tdata{index} = array({self.rng.choice(["uint8", "int8"])}, data{index}_size)']
				self.features.add('byte-array')
			elif pick < 0.75:
				element, keys = self.element_type()
				count_name = self.rng.choice([f'items{index}_count', f'num_items{index}'])
				lines.append(f'\t{count_name} = {self.rng.choice(UNSIGNED[:3])}')
				if keys and self.rng.random() < 0.6:
					lines.append(f'\t@sort_key({self.rng.choice(keys)[0]})')
					self.features.add('sort-key')
				lines.append(f'\titems{index} = array({element}, {count_name})')
				self.features.add('count-array')
			else:
				type_name, _ = self.scalar_type()
				lines.append(f'\tplain{index} = {type_name}')
		if self.leaf_structs and self.rng.random() < 0.5:
			lines.append(f'\tnested = {self.rng.choice(self.leaf_structs)[0]}')
			self.features.add('nested-struct')
		self.emit(*lines)
		self.var_structs.append(name)
		return name

	def size_prefixed(self):
		"""Named inline of a size-prefixed template + sizeof prefix + sizeref conditional (NEM style)."""
		template = self.fresh('Prefixed')
		self.emit(f'inline struct {template}', '\tsize = uint32', '\t__value__ = array(int8, size)')
		implicit = self.fresh('Implicit')
		inner = self.rng.choice(self.var_structs + [leaf for leaf, _ in self.leaf_structs])
		self.emit('@is_size_implicit', f'struct {implicit}', f'\tlabel = inline {template}', f'\tbody = {inner}')
		holder = self.fresh('Holder')
		delta = self.rng.choice([0, 0, 4])
		lines = [
			f'struct {holder}', f'\tinner_size = sizeof(uint32, inner)', f'\tinner = {implicit}', f'\t@sizeref(extra, {delta})', '\textra_size = uint32',
			f'\textra = {implicit} if 0 not equals extra_size', f'\ttail = {self.rng.choice(INT_TYPES)}']
		self.emit(*lines)
		self.var_structs.append(holder)
		self.features.update(['named-inline', 'sizeof', 'sizeref', 'conditional-computed'])
		if self.variant is None and self.rng.random() < 0.5 or self.variant is not None and 0 == self.variant % 2:
			# a sizeref naming a byte array: the computed value is the array's length plus the delta
			envelope = self.fresh('Enveloped')
			self.emit(
				f'struct {envelope}', f'\t@sizeref(blob, {self.rng.choice([0, 2, 4])})', f'\tblob_envelope_size = {self.rng.choice(["uint16", "uint32"])}',
				f'\tblob_size = {self.rng.choice(["uint8", "uint16"])}', f'\tblob = array({self.rng.choice(["uint8", "int8"])}, blob_size)',
				f'\ttrailer = {self.rng.choice(INT_TYPES)}')
			self.var_structs.append(envelope)
			self.features.add('sizeref-byte-array')
		return holder

	def two_member_enum(self):
		name = self.fresh('Pick')
		values = self.rng.sample(range(0, 200), 2)
		self.emit(f'enum {name} : {self.rng.choice(UNSIGNED[:3])}', f'\tFIRST = {values[0]}', f'\tSECOND = {values[1]}')
		return name, [('FIRST', values[0]), ('SECOND', values[1])]

	def discriminant_name(self):
		"""Name of the discriminant of a conditional struct: `selector`, or one of the names the generator mangles
		(`type` / `property` are stored and exposed as `type_` / `property_`; conditions must refer to the mangled name)."""
		if self.variant is None:
			mangled = self.rng.random() < 0.4
		else:
			mangled = 1 == (self.variant // 4) % 2
		if not mangled:
			return 'selector'
		self.features.add('discriminant-mangled-name')
		return self.rng.choice(['type', 'property'])

	def conditional_struct(self):
		name = self.fresh('Cond')
		shape = self.rng.randrange(4) if self.variant is None else self.variant % 4
		if shape >= 2:
			# two unions, each placed before its own discriminant. shape 2: both are pending at the same time (second union starts before
			# the first discriminant is reached; discriminants in either order); shape 3: one after the other
			first_enum, first_members = self.two_member_enum()
			second_enum, second_members = self.two_member_enum()
			aliases = []
			for _ in range(4):
				alias = self.fresh('Wide')
				self.emit(f'using {alias} = uint64')
				aliases.append(alias)
			first_union = [f'\tarm0 = {aliases[0]} if {first_members[0][0]} equals kind', f'\tarm1 = {aliases[1]} if {first_members[1][0]} equals kind']
			second_union = [f'\tarm2 = {aliases[2]} if {second_members[0][0]} equals mode', f'\tarm3 = {aliases[3]} if {second_members[1][0]} equals mode']
			kind_line, mode_line = f'\tkind = {first_enum}', f'\tmode = {second_enum}'
			lines = [f'struct {name}']
			if 2 == shape:
				lines += first_union + second_union + [f'\tmiddle = {self.rng.choice(INT_TYPES)}']
				lines += [kind_line, mode_line] if self.rng.random() < 0.5 else [mode_line, kind_line]
				self.features.add('two-unions-pending-together')
			else:
				lines += first_union + [kind_line] + second_union + [mode_line]
				self.features.add('two-unions-one-after-the-other')
		elif 0 == shape:
			# discriminant first
			plain = [entry for entry in self.enums if not entry[2]]
			if plain:
				enum_name, members, _ = self.rng.choice(plain)
			else:
				enum_name, members = self.two_member_enum()
			selector = self.discriminant_name()
			lines = [f'struct {name}', f'\t{selector} = {enum_name}']
			for index, (member, _) in enumerate(members[:3]):
				operation = 'equals' if index or self.rng.random() < 0.7 else 'not equals'
				# arms are of named types, as in the shipped schemas: for a member of builtin integer type the generator tests the
				# member's own truthiness (`if self.arm:`), so a zero value would vanish from the encoding
				arm_type = self.rng.choice([name for name, _ in self.int_aliases + self.byte_aliases] + [name for name, _, _ in self.enums])
				lines.append(f'\tarm{index} = {arm_type} if {member} {operation} {selector}')
			self.features.add('conditional-after')
		else:
			# union placed before its discriminant: exhaustive arms of equal size, as in namespace registration
			enum_name, members = self.two_member_enum()
			alias_a = self.fresh('Wide')
			alias_b = self.fresh('Wide')
			self.emit(f'using {alias_a} = uint64')
			self.emit(f'using {alias_b} = uint64')
			selector = self.discriminant_name()
			lines = [f'struct {name}']
			lines.append(f'\tarm0 = {alias_a} if {members[0][0]} equals {selector}')
			lines.append(f'\tarm1 = {alias_b} if {members[1][0]} equals {selector}')
			lines.append(f'\tmiddle = {self.rng.choice(INT_TYPES)}')
			lines.append(f'\t{selector} = {enum_name}')
			self.features.add('conditional-before')
		lines.append(f'\ttrailer = {self.rng.choice(INT_TYPES)}')
		self.emit(*lines)
		self.var_structs.append(name)
		return name

	def fill_array(self, member):
		"""Expandable array of a leaf struct, with a sort key on some of them."""
		element, keys = self.rng.choice(self.leaf_structs)
		lines = []
		if keys and self.rng.random() < 0.5:
			lines.append(f'\t@sort_key({self.rng.choice(keys)[0]})')
			self.features.add('fill-array-sort-key')
		lines.append(f'\t{member} = array({element}, __FILL__)')
		self.features.add('fill-array')
		return lines

	def factory(self):
		"""Abstract struct with @size / @discriminator / @initializes and concrete children."""
		type_enum = self.fresh('Tag')
		child_count = self.rng.randrange(2, 5)
		tags = self.rng.sample(range(1, 60000), child_count)
		self.emit(f'enum {type_enum} : uint16', *[f'\tT{index}X = {hex(tag).upper().replace("0X", "0x")}' for index, tag in enumerate(tags)])
		base = self.fresh('Entity')
		two_part = self.rng.random() < 0.6
		# the size member of the abstract struct under another name than `size` (its local in `_deserialize` is then that name)
		size_name = 'size'
		if RENAMED_SIZE_MEMBERS:
			size_name = self.rng.choice(['size', 'size', 'total_size', 'entity_size']) if self.variant is None else ['size', 'total_size', 'size', 'entity_size'][self.variant % 4]
		if 'size' != size_name:
			self.features.add('size-member-renamed')
		lines = [f'@size({size_name})', '@initializes(version, ENTITY_VERSION)' if two_part else None, '@initializes(tag, ENTITY_TAG)',
			f'@discriminator(tag{", version" if two_part else ""})', '@is_aligned', f'abstract struct {base}', f'\t{size_name} = uint32',
			'\tentity_reserved_1 = make_reserved(uint32, 0)', f'\towner = {self.rng.choice(self.byte_aliases)[0]}' if self.byte_aliases else '\towner = uint64',
			'\tversion = uint8', f'\ttag = {type_enum}']
		# members of the base that `sort()` of a derived struct has to reach: a keyed array and / or a struct holding one
		keyed_leaves = [(leaf, keys) for leaf, keys in self.leaf_structs if keys]
		if keyed_leaves and ((self.rng.random() < 0.5) if self.variant is None else (1 == (self.variant // 2) % 2)):
			leaf, keys = self.rng.choice(keyed_leaves)
			lines += ['\tbase_entries_count = uint8', f'\t@sort_key({self.rng.choice(keys)[0]})', f'\tbase_entries = array({leaf}, base_entries_count)']
			self.features.add('abstract-base-with-keyed-array')
			if self.var_structs and self.rng.random() < 0.5:
				lines.append(f'\tbase_nested = {self.rng.choice(self.var_structs)}')
				self.features.add('abstract-base-with-struct-member')
		self.emit(*[line for line in lines if line is not None])
		children = []
		for index in range(child_count):
			child = self.fresh('Child')
			body = [f'struct {child}', f'\tENTITY_VERSION = make_const(uint8, {self.rng.randrange(1, 4)})', f'\tENTITY_TAG = make_const({type_enum}, T{index}X)', f'\tinline {base}']
			for member_index in range(self.rng.randrange(1, 4)):
				pick = self.rng.random()
				if pick < 0.5:
					body.append(f'\tpay{member_index} = {self.scalar_type()[0]}')
				elif pick < 0.8:
					body += [f'\tblob{member_index}_size = uint16', f'\tblob{member_index} = array(uint8, blob{member_index}_size)']
				elif self.leaf_structs:
					body.append(f'\tleaf{member_index} = {self.rng.choice(self.leaf_structs)[0]}')
				else:
					body.append(f'\tpay{member_index} = {self.rng.choice(INT_TYPES)}')
			if self.leaf_structs and self.rng.random() < 0.35:
				body += self.fill_array('trailing')
			self.emit(*body)
			children.append(child)
		self.features.add('factory' + ('-two-part' if two_part else ''))

		container = self.fresh('Batch')
		mode = self.rng.randrange(3) if self.variant is None else self.variant % 3
		lines = ['@size(size)', '@is_aligned', f'struct {container}', '\tsize = uint32', f'\tstamp = {self.rng.choice(INT_TYPES)}']
		if 0 == mode:
			qualifier = self.rng.choice(['', '', ', pad_last', ', not pad_last']) if self.variant is None else ['', ', not pad_last', ', pad_last'][(self.variant // 3) % 3]  # every spelling of the padding rule, also on byte-sized arrays
			lines += ['\tpayload_size = uint32', '\t@is_byte_constrained', f'\t@alignment({self.rng.choice([4, 8])}{qualifier})', f'\tentities = array({base}, payload_size)']
			if 'not' in qualifier:
				self.features.add('sized-aligned-array-not-pad-last')
			if self.leaf_structs:
				lines += self.fill_array('rest')
			self.features.add('sized-aligned-array')
		elif 1 == mode:
			lines += [f'\t@alignment({self.rng.choice([4, 8])}, not pad_last)', f'\tentities = array({base}, __FILL__)']
			self.features.add('fill-aligned-array')
		else:
			lines += ['\tentities_count = uint16', f'\tentities = array({base}, entities_count)']
			self.features.add('count-abstract-array')
		self.emit(*lines)
		# a byte-sized aligned array whose elements are CONCRETE structs of different sizes (the padding rule does not depend on the
		# elements being read through a factory)
		concrete = [name for name in self.var_structs] or [leaf for leaf, _ in self.leaf_structs]
		if concrete and ((self.rng.random() < 0.5) if self.variant is None else (0 == (self.variant // 2) % 2)):
			pack = self.fresh('Pack')
			qualifier = self.rng.choice(['', ', pad_last', ', not pad_last'])
			self.emit(f'struct {pack}', f'\tstamp = {self.rng.choice(INT_TYPES)}', '\tpayload_size = uint32', '\t@is_byte_constrained',
				f'\t@alignment({self.rng.choice([4, 8])}{qualifier})', f'\titems = array({self.rng.choice(concrete)}, payload_size)', f'\ttrailer = {self.rng.choice(INT_TYPES)}')
			self.features.add('sized-aligned-array-of-concrete-elements')
		return container

	def implicit_factory(self):
		"""Abstract struct without a size member (@is_size_implicit), measured by a sizeof member of its holder; a child may end in a fill
		array, which then has to stop where the sizeof member says (more members follow in the holder)."""
		kind_enum = self.fresh('Kind')
		child_count = self.rng.randrange(2, 4)
		self.emit(f'enum {kind_enum} : uint8', *[f'\tK{index}X = {index + 1}' for index in range(child_count)])
		base = self.fresh('Inner')
		self.emit('@is_size_implicit', '@initializes(kind, KIND)', '@discriminator(kind)', f'abstract struct {base}', f'\tkind = {kind_enum}',
			f'\tfee = {self.rng.choice(INT_TYPES)}')
		filled = self.rng.randrange(child_count)
		for index in range(child_count):
			child = self.fresh('InnerChild')
			body = [f'struct {child}', f'\tKIND = make_const({kind_enum}, K{index}X)', f'\tinline {base}']
			if index != filled or self.rng.random() < 0.5:
				body.append(f'\tnote{index} = {self.rng.choice(INT_TYPES)}')
			if index == filled and self.leaf_structs:
				body += self.fill_array('items')
			self.emit(*body)
		holder = self.fresh('Envelope')
		self.emit(f'struct {holder}', f'\tinner_size = sizeof({self.rng.choice(["uint16", "uint32"])}, inner)', f'\tinner = {base}',
			f'\ttrailer = {self.rng.choice(["uint16", "uint32"])}')
		self.features.add('sizeof-abstract-member-with-fill-array')
		return holder

	# endregion

	def build(self):
		for _ in range(self.rng.randrange(1, 4)):
			self.alias_int()
		for _ in range(self.rng.randrange(1, 3)):
			self.alias_bytes()
		for _ in range(self.rng.randrange(1, 3)):
			self.enum()
		for _ in range(self.rng.randrange(1, 4)):
			self.leaf_struct()
		for _ in range(self.rng.randrange(1, 4)):
			self.variable_struct()
		if self.variant is not None or self.rng.random() < 0.6:
			self.size_prefixed()
		if self.variant is not None or self.rng.random() < 0.7:
			self.conditional_struct()
		if self.variant is not None or self.rng.random() < 0.7:
			self.factory()
		if IMPLICIT_FACTORIES and ((self.rng.random() < 0.5) if self.variant is None else (0 == self.variant % 2)):
			self.implicit_factory()
		if self.rng.random() < 0.5:
			self.variable_struct()
		return '\n'.join(self.lines).rstrip('\n') + '\n'

"""Helpers shared by the CATS front-end checks (C05, C06, C18): loading the shipped schema sets with the real lark parser,
descriptor comparison, a scratch runner for the real post processor."""
import json
import os

from . import cats_json
from .common import REPO

_PARSER = []


def lark_parser():
	if not _PARSER:
		from catparser.CatsLarkParser import create_cats_lark_parser  # pylint: disable=import-outside-toplevel
		_PARSER.append(create_cats_lark_parser())
	return _PARSER[0]


def parse_text(text):
	"""Declarations of one CATS document (imports ignored), as real catparser objects."""
	from catparser.ast import Statement  # pylint: disable=import-outside-toplevel
	result = lark_parser().parse(text)
	if isinstance(result, Statement):
		return [result]
	return [child for child in result.children if isinstance(child, Statement)]


def load_schema_set(name, root_file='all.cats'):
	"""All declarations of a shipped schema set in import order (each file once, depth first), freshly parsed.

	An independent 15-line reader of the import structure (``catparser.__main__`` needs yaml and is the subject of C17)."""
	from catparser.ast import Statement  # pylint: disable=import-outside-toplevel
	from lark import Tree  # pylint: disable=import-outside-toplevel
	base = os.path.join(REPO, 'catbuffer', 'schemas', name)
	seen = []
	models = []

	def visit(relative):
		path = os.path.normpath(os.path.join(base, relative))
		if path in seen:
			return
		seen.append(path)
		with open(path, 'rt', encoding='utf8') as infile:
			result = lark_parser().parse(infile.read())
		if isinstance(result, Statement):
			models.append(result)
			return
		children = result.children if isinstance(result, Tree) and 'import' != result.data else [result]
		for child in children:
			if isinstance(child, Tree) and 'import' == child.data:
				visit(str(child.children[0]))
		models.extend(child for child in children if isinstance(child, Statement))

	visit(root_file)
	return models


def descriptors(models):
	return [cats_json.canon(model.to_legacy_descriptor()) for model in models]


def diff_paths(expected, actual, path=()):
	"""Paths at which two canonical descriptor trees differ: list of (path, expected, actual)."""
	if isinstance(expected, dict) and isinstance(actual, dict):
		result = []
		for key in sorted(set(expected) | set(actual)):
			if key not in expected:
				result.append((path + (key,), None, actual[key]))
			elif key not in actual:
				result.append((path + (key,), expected[key], None))
			else:
				result.extend(diff_paths(expected[key], actual[key], path + (key,)))
		return result
	if isinstance(expected, list) and isinstance(actual, list) and len(expected) == len(actual):
		result = []
		for index, (left, right) in enumerate(zip(expected, actual)):
			result.extend(diff_paths(left, right, path + (index,)))
		return result
	if expected == actual and type(expected) is type(actual):
		return []
	return [(path, expected, actual)]


def ask_json(driver, line):
	answer = driver.ask(line)
	if 'bad-request' == answer:
		return None
	return json.loads(answer)

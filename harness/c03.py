"""C03 - shipped codec modules are exactly the generator output for the shipped schemas.

Executed part: the real CLI (python -m catparser ... --generator generator.Generator, as
sdk/python/scripts/run_catbuffer_generator.sh runs it) under several hash seeds, working directories,
relative/absolute paths and fresh/stale output directories; every output must be byte-identical to the
checked-in module. Model part: the emitted text is parsed with `ast` and its class skeleton and
TYPE_HINTS tables are compared with the Lean emission plan computed from the independent IR.
"""
import ast
import difflib
import os
import shutil
import subprocess

from translate import cats

from .common import REPO, ROOT

RULE = (
	'both shipped schema sets x PYTHONHASHSEED values (0, 1, 2, VERIF_SEED-derived ...) x working directories (sdk/python as the script does, '
	'repo root, a scratch directory) x relative/absolute --schema/--include x fresh output directory / output directory holding a leftover __init__.py (unrelated text, the expected file itself, its CRLF / CR / BOM / non-UTF-8 / truncated / no-final-newline / trailing-blank variants, the module of the other network, an empty file); plus sequences of runs for different schema sets inside ONE interpreter (nem then symbol, symbol then nem, ...); every line of both generated '
	'modules compared with the checked-in file. distinct = distinct (network, seed, cwd, path style, stale) configurations; all non-trivial '
	'(each runs the full parser + generator).')
TRUSTED_BASE = [
	'Lean 4.33 kernel; axioms of the property theorems: subset of {propext, Classical.choice, Quot.sound}',
	'byte identity of the two 350 KB modules is an executed comparison, not a theorem (string literals of that size do not elaborate)',
	'yaml stand-in in /verif/shims (catparser.__main__ imports yaml; the runs without --quiet dump the descriptors with it, the dump itself is not compared)',
	'emission plan model SymbolVerif/Model/Codec/Emission.lean is a port of the whole text-producing code of sdk/python/generator over the independent IR (moduleLines); its equality with the generator output is an executed comparison per schema (both shipped sets here, random schemas in C15), not a theorem about the Python generator',
]
ASSUMPTIONS = ['the generator is run with /venv/bin/python; other interpreter versions are out of scope']

NETWORKS = {'symbol': 'sc', 'nem': 'nc'}
STALE_STYLES = ['garbage', 'identical', 'crlf', 'cr', 'bom', 'non-utf8', 'truncated', 'no-final-newline', 'trailing-blanks', 'other-network', 'empty']


def stale_content(style, expected, other_module):
	"""Content of an `__init__.py` left in the output directory before the run."""
	return {
		'garbage': b'# left over from a previous run\n' * 50,
		'identical': expected,
		'crlf': expected.replace(b'\n', b'\r\n'),
		'cr': expected.replace(b'\n', b'\r'),
		'bom': b'\xef\xbb\xbf' + expected,
		'non-utf8': expected[:2000] + b'\xff\xfe\x80' + expected[2000:],
		'truncated': expected[:-137],
		'no-final-newline': expected.rstrip(b'\n'),
		'trailing-blanks': expected.replace(b':\n', b': \n'),
		'other-network': other_module,
		'empty': b'',
	}[style]


def run_generator(network, hash_seed, cwd, relative, output, extra_env=None, quiet=True):
	schemas = os.path.join(REPO, 'catbuffer', 'schemas', network)
	schema, include = os.path.join(schemas, 'all_generated.cats'), schemas
	if relative:
		schema, include = os.path.relpath(schema, cwd), os.path.relpath(include, cwd)
	env = dict(os.environ)
	env.update({
		'PYTHONHASHSEED': str(hash_seed), 'PYTHONDONTWRITEBYTECODE': '1',
		'PYTHONPATH': os.pathsep.join([os.path.join(REPO, 'catbuffer', 'parser'), os.path.join(REPO, 'sdk', 'python'), os.path.join(ROOT, 'shims')]),
	})
	env.update(extra_env or {})
	command = [
		'/venv/bin/python', '-m', 'catparser', '--schema', schema, '--include', include, '--output', output, '--generator', 'generator.Generator']
	if quiet:
		command.insert(-2, '--quiet')  # (without it the parsed descriptors are also dumped as YAML on the console)
	proc = subprocess.run(command, cwd=cwd, env=env, capture_output=True, text=True, timeout=300, check=False)
	return proc


def module_skeleton(text):
	"""Class names in order and the TYPE_HINTS literal of each class (None when absent)."""
	tree = ast.parse(text)
	classes = []
	for node in tree.body:
		if not isinstance(node, ast.ClassDef):
			continue
		hints = None
		for item in node.body:
			if isinstance(item, ast.Assign) and isinstance(item.targets[0], ast.Name) and 'TYPE_HINTS' == item.targets[0].id:
				hints = []
				for key, value in zip(item.value.keys, item.value.values):
					if key is not None:
						hints.append((key.value, value.value))
		classes.append((node.name, hints))
	return classes


def method_bodies(text):
	"""{class: {method: [body lines, dedented]}} for serialize, _serialize, size, deserialize and _deserialize of every class of a generated module."""
	tree = ast.parse(text)
	lines = text.split('\n')
	result = {}
	for node in tree.body:
		if not isinstance(node, ast.ClassDef):
			continue
		methods = {}
		for item in node.body:
			if isinstance(item, ast.FunctionDef) and item.name in ('serialize', '_serialize', 'size', 'deserialize', '_deserialize'):
				body = lines[item.body[0].lineno - 1:item.end_lineno]
				methods[item.name] = [line[2:] if line.startswith('\t\t') else line for line in body]
		result[node.name] = methods
	return result


def compare_bodies(ctx, driver, label, schema, text):
	"""The serialize / _serialize / size / deserialize / _deserialize bodies of every struct class against the text the Lean emission model derives from the IR."""
	bodies = method_bodies(text)
	ir = cats.to_json(schema)
	requests = []
	for name, typedef in schema:
		if 'struct' != typedef['k']:
			continue
		requests.append((name, 'serialize', f'body serialize {name} {ir}'))
		requests.append((name, 'size', f'body size {name} {ir}'))
		if typedef['abstract']:
			requests.append((name, '_serialize', f'body _serialize {name} {ir}'))
			requests.append((name, '_deserialize', f'body _deserialize {name} {ir}'))
		else:
			requests.append((name, 'deserialize', f'body deserialize {name} {ir}'))
	answers = driver.ask_many([line for _, _, line in requests])
	for (name, method, _), answer in zip(requests, answers):
		ctx.case(('body', label, name, method), None)
		ctx.count(f'method-bodies:{method}')
		model = bytes.fromhex(answer).decode('utf8').split('\n') if answer not in ('-', 'not-a-struct') and not answer.startswith('bad') else [answer]
		actual = bodies.get(name, {}).get(method)
		if actual != model:
			differing = next((pair for pair in zip(model, actual or []) if pair[0] != pair[1]), (model[len(actual or []):][:1], (actual or [])[len(model):][:1]))
			ctx.fail('corr', f'{label}.{name}.{method}: emitted body differs from the emission model', {
				'network': label, 'type': name, 'method': method, 'model_line': differing[0], 'module_line': differing[1]})
	compare_module(ctx, driver, label, schema, text)


def compare_module(ctx, driver, label, schema, text):
	"""The whole generated file against the lines the Lean emission model derives from the IR (first differing line reported)."""
	answer = driver.ask(f'module {cats.to_json(schema)}')
	ctx.case(('module', label), {'label': label, 'lines': text.count('\n')} if label in NETWORKS else None)
	ctx.count('whole-module-texts')
	try:
		model = bytes.fromhex(answer).decode('utf8') + '\n'
	except ValueError:
		ctx.fail('corr', f'{label}: emission model gives no module text: {answer[:200]}', {'network': label})
		return
	if model != text:
		model_lines, module_lines = model.split('\n'), text.split('\n')
		index = next((i for i, pair in enumerate(zip(model_lines, module_lines)) if pair[0] != pair[1]), min(len(model_lines), len(module_lines)))
		enclosing = next((line for line in reversed(module_lines[:index + 1]) if line.startswith('class ')), '')
		ctx.fail('corr', f'{label}: generated module differs from the text of the emission model at line {index + 1} ({enclosing.strip()})', {
			'network': label, 'line': index + 1, 'class': enclosing.strip(),
			'model_line': model_lines[index] if index < len(model_lines) else None,
			'module_line': module_lines[index] if index < len(module_lines) else None})


SIBLING_LEFTOVERS = ['__init__.py.tmp', '__init__.py.lock', '__init__.py.bak', '.__init__.py.swp', '__init__.py~', '__init__.tmp', '__init__.py.new', '__init__.py.part', '__pycache__/', 'tmp', '.lock']


SEQUENCE_PROGRAM = r'''
import json, os, sys
from catparser.__main__ import main
repo, scratch, order = sys.argv[1], sys.argv[2], sys.argv[3].split(',')
# a schema the generator cannot format (a struct holding only a constant), after an abstract struct and an enum were formatted:
# a run that ABORTS part-way must not leave anything behind for the next run either
ABORTING = """enum Kind : uint8
\tNONE = 0
\tSOME = 1

@size(size)
@discriminator(kind)
@initializes(kind, ENTITY_KIND)
abstract struct Entity
\tsize = uint32
\tkind = Kind

struct Marker
\tMARKER_VERSION = make_const(uint8, 1)
"""
for index, network in enumerate(order):
	if 'aborting' == network:
		directory = os.path.join(scratch, f'{index}-aborting-schema')
		os.makedirs(directory)
		with open(os.path.join(directory, 'bad.cats'), 'wt', encoding='utf8') as outfile:
			outfile.write(ABORTING)
		sys.argv = ['catparser', '--schema', os.path.join(directory, 'bad.cats'), '--include', directory,
			'--output', os.path.join(scratch, f'{index}-aborting'), '--quiet', '--generator', 'generator.Generator']
		try:
			main()
			print('aborting-run: completed')
		except BaseException as ex:
			print('aborting-run:', type(ex).__name__)
		continue
	if network.endswith('+again'):
		# the descriptors of the previous run (parsed and post-processed once) handed to the generator a second time: generating must
		# not change what it was given
		network = network[:-len('+again')]
		generator_class.generate(descriptors, os.path.join(scratch, f'{index}-{network}'))
		continue
	schemas = os.path.join(repo, 'catbuffer', 'schemas', network)
	if 0 == index % 2:
		sys.argv = ['catparser', '--schema', os.path.join(schemas, 'all_generated.cats'), '--include', schemas,
			'--output', os.path.join(scratch, f'{index}-{network}'), '--quiet', '--generator', 'generator.Generator']
		main()
	# the same steps as main(), keeping the descriptors (through the public entry points only: the generator class is what
	# `--generator generator.Generator` names)
	import importlib
	from catparser.__main__ import LarkMultiFileParser
	from catparser.AstPostProcessor import AstPostProcessor
	from catparser.AstValidator import AstValidator
	file_parser = LarkMultiFileParser()
	file_parser.set_include_path(schemas)
	raw = file_parser.parse(os.path.join(schemas, 'all_generated.cats'))
	processor = AstPostProcessor(raw)
	for mode, steps in ((AstValidator.Mode.PRE_EXPANSION, ('apply_attributes', 'expand_named_inlines', 'expand_unnamed_inlines')), (AstValidator.Mode.POST_EXPANSION, ())):
		validator = AstValidator(raw)
		validator.set_validation_mode(mode)
		validator.validate()
		assert not validator.errors, validator.errors
		for step in steps:
			getattr(processor, step)()
	descriptors = processor.type_descriptors
	generator_class = importlib.import_module('generator.Generator').Generator
	if 0 != index % 2:
		generator_class.generate(descriptors, os.path.join(scratch, f'{index}-{network}'))
'''


def run_sequences(ctx, scratch, shipped_modules):
	"""Several generator runs in ONE interpreter (the parser and the generator used as a library, one schema set after the
	other): what an earlier run left in the process - caches on classes or modules - must not leak into a later one."""
	orders = [['nem', 'symbol'], ['symbol', 'nem'], ['nem', 'symbol', 'nem'], ['symbol', 'symbol'], ['aborting', 'nem', 'symbol'], ['symbol', 'aborting', 'symbol'],
		['nem', 'nem+again', 'symbol', 'symbol+again'], ['aborting', 'symbol', 'symbol+again', 'symbol+again']]
	if ctx.thorough:
		orders += [['symbol', 'nem', 'symbol'], ['nem', 'nem', 'symbol', 'symbol'], ['symbol', 'symbol+again', 'nem', 'nem+again', 'nem+again']]
	for number, order in enumerate(orders):
		target = os.path.join(scratch, f'sequence-{number}')
		os.makedirs(target)
		env = dict(os.environ)
		env.update({
			'PYTHONHASHSEED': str(number), 'PYTHONDONTWRITEBYTECODE': '1',
			'PYTHONPATH': os.pathsep.join([os.path.join(REPO, 'catbuffer', 'parser'), os.path.join(REPO, 'sdk', 'python'), os.path.join(ROOT, 'shims')]),
		})
		proc = subprocess.run(
			['/venv/bin/python', '-c', SEQUENCE_PROGRAM, REPO, target, ','.join(order)], cwd=scratch, env=env, capture_output=True, text=True, timeout=600, check=False)
		config = {'one_interpreter_sequence': order, 'hash_seed': number}
		ctx.case(('sequence', tuple(order)), config)
		ctx.count('runs:sequence-in-one-interpreter')
		if 0 != proc.returncode:
			ctx.fail('property', f'generator runs {order} in one interpreter fail: exit {proc.returncode}', dict(config, stderr=proc.stderr[-800:]))
			continue
		for index, network in enumerate(order):
			if 'aborting' == network:
				ctx.count('runs:aborted-generation:' + ('raised' if 'aborting-run: completed' not in proc.stdout else 'completed'))
				continue
			network = network.split('+')[0]
			with open(os.path.join(target, f'{index}-{network}', '__init__.py'), 'rb') as infile:
				produced = infile.read()
			if produced != shipped_modules[network]:
				diff = list(difflib.unified_diff(
					shipped_modules[network].decode('utf8').split('\n'), produced.decode('utf8', 'replace').split('\n'), 'checked-in', 'generated', lineterm='', n=1))[:30]
				ctx.fail('property', (
					f'{network}: run number {index + 1} of the sequence {order} in one interpreter does not reproduce the checked-in module '
					'(the output depends on an earlier run)'), dict(config, position=index, diff=diff))
		shutil.rmtree(target, ignore_errors=True)


def run(ctx):
	# pylint: disable=too-many-locals,too-many-branches
	rng = ctx.rng
	scratch = ctx.tmpdir()
	seeds = [0, 1, 2, rng.randrange(3, 1 << 31)] if not ctx.thorough else [0, 1, 2] + [rng.randrange(3, 1 << 31) for _ in range(13)]
	cwds = [os.path.join(REPO, 'sdk', 'python'), REPO, scratch]
	shipped_modules = {}
	for network, package in NETWORKS.items():
		shipped_path = os.path.join(REPO, 'sdk', 'python', 'symbolchain', package, '__init__.py')
		with open(shipped_path, 'rb') as infile:
			shipped = infile.read()
		shipped_modules[network] = shipped
		configurations = []
		for seed in seeds:
			for cwd in cwds:
				configurations.append((seed, cwd, False, False))
		# a working directory that holds files with the very names the schemas import (the other network's schema directory):
		# import resolution must go through --include only
		other = os.path.join(REPO, 'catbuffer', 'schemas', 'nem' if 'symbol' == network else 'symbol')
		configurations.insert(1, (seeds[1], other, False, False))
		configurations.append((seeds[0], other, True, False))
		configurations.append((seeds[0], cwds[1], True, False))
		configurations.append((seeds[-1], cwds[0], True, 'garbage'))
		configurations.append((seeds[1], cwds[2], False, 'garbage'))
		# what a previous run may have left in the output directory: the result must not depend on it. Besides unrelated text, the
		# leftovers are near misses of the expected file (line-end style, encoding, truncation, the other network's module), which a
		# "skip the write when nothing changed" shortcut would have to tell apart
		leftovers = [(seeds[index % len(seeds)], cwds[index % len(cwds)], bool(index % 2), style) for index, style in enumerate(STALE_STYLES[1:])]
		if not ctx.thorough:
			configurations = configurations[:3] + rng.sample(configurations[3:], 5)
		configurations += leftovers
		outputs = {}
		other_package = NETWORKS['nem' if 'symbol' == network else 'symbol']
		with open(os.path.join(REPO, 'sdk', 'python', 'symbolchain', other_package, '__init__.py'), 'rb') as infile:
			other_module = infile.read()
		for index, (seed, cwd, relative, stale) in enumerate(configurations):
			output = os.path.join(scratch, f'out-{network}-{index}')
			if stale:
				os.makedirs(output)
				with open(os.path.join(output, '__init__.py'), 'wb') as outfile:
					outfile.write(stale_content(stale, shipped, other_module))
				with open(os.path.join(output, 'stale.txt'), 'wt', encoding='utf8') as outfile:
					outfile.write('stale')
				# what an INTERRUPTED earlier run (or an editor, or a lock of some tool) may have left next to the module: scratch, lock and
				# backup files under the module's name - the module must be written all the same
				# (every second stale directory gets all of them, the others one each)
				for sibling in (SIBLING_LEFTOVERS if 0 == index % 2 else [SIBLING_LEFTOVERS[(index // 2) % len(SIBLING_LEFTOVERS)]]):
					if sibling.endswith('/'):
						os.makedirs(os.path.join(output, sibling), exist_ok=True)
					else:
						with open(os.path.join(output, sibling), 'wb') as outfile:
							outfile.write(stale_content(stale, shipped, other_module)[:len(shipped) // 2])
					ctx.count(f'leftover-sibling:{sibling}')
			quiet = 0 != index % 5  # every fifth configuration runs without --quiet: the console dump must not influence the module
			proc = run_generator(network, seed, cwd, relative, output, quiet=quiet)
			config = {'quiet': quiet, 'network': network, 'hash_seed': seed, 'cwd': os.path.relpath(cwd, REPO) if cwd.startswith(REPO) else '<scratch>', 'relative_paths': relative, 'stale_output': stale or None}
			ctx.case(tuple(sorted(config.items())), config if index < 2 else None)
			ctx.count(f'runs:{network}')
			if 0 != proc.returncode:
				ctx.fail('property', f'generator run fails for {config}: exit {proc.returncode}', dict(config, stderr=proc.stderr[-800:], stdout=proc.stdout[-400:]))
				continue
			with open(os.path.join(output, '__init__.py'), 'rb') as infile:
				produced = infile.read()
			outputs[index] = produced
			if produced != shipped:
				diff = list(difflib.unified_diff(
					shipped.decode('utf8').split('\n'), produced.decode('utf8', 'replace').split('\n'), 'checked-in', 'generated', lineterm='', n=1))[:40]
				ctx.fail('property', f'{network}: generator output differs from the checked-in symbolchain/{package}/__init__.py for {config}', dict(config, diff=diff))
			shutil.rmtree(output, ignore_errors=True)
		if len(set(outputs.values())) > 1:
			ctx.fail('property', f'{network}: generator output depends on hash seed / working directory / previous output', {'network': network})

		# model: emission plan and TYPE_HINTS from the independent IR vs the skeleton of the checked-in text
		base = os.path.join(REPO, 'catbuffer', 'schemas', network)
		try:
			schema, _ = cats.load_schema(os.path.join(base, 'all_generated.cats'), base)
		except Exception as ex:  # pylint: disable=broad-except
			ctx.fail('corr', f'translate/cats.py cannot read the {network} schema: {ex}', {'network': network})
			continue
		skeleton = module_skeleton(shipped.decode('utf8'))
		if ctx.driver:
			text = cats.to_json(schema)
			plan = ctx.driver.ask(f'plan {text}')
			ctx.case(('plan', network), {'network': network, 'plan_head': plan[:120]})
			if plan != ','.join(name for name, _ in skeleton):
				ctx.fail('corr', f'{network}: classes of the generated module are not the emission plan (declaration order, then factories)', {
					'network': network, 'model': plan[:2000], 'module': ','.join(name for name, _ in skeleton)[:2000]})
			compare_bodies(ctx, ctx.driver, network, schema, shipped.decode('utf8'))
			names = [name for name, typedef in schema if 'struct' == typedef['k']]
			answers = ctx.driver.ask_many([f'hints {name} {text}' for name in names])
			module_hints = dict(skeleton)
			for name, answer in zip(names, answers):
				ctx.case(('hints', network, name), None)
				ctx.count('type-hint-tables')
				expected = module_hints.get(name) or []
				rendered = ','.join(f'{key}={value}' for key, value in expected) or '-'
				if answer != rendered:
					ctx.fail('corr', f'{network}.{name}: TYPE_HINTS of the generated class differ from the model', {'network': network, 'type': name, 'model': answer, 'module': rendered})
	run_sequences(ctx, scratch, shipped_modules)


def replay(ctx, payload):
	print(payload['what'])
	run(ctx)


MANIFEST = {
	'level_text': (
		'Byte identity of both shipped modules with fresh generator output is decided by executing the real CLI under several hash seeds, working '
		'directories, path styles and stale output directories (a finite closed instance, not a theorem). The theorems cover what a model can carry: '
		'the emission plan (one class per declaration in declaration order, then one factory per abstract struct; TYPE_HINTS = the value-carrying own '
		'members in layout order) is a function of the declarations alone, and the only hash-ordered iteration feeding the generator is order-independent '
		'(C18). The plan, the hint tables, the serialize/_serialize/size/deserialize/_deserialize bodies and the complete module text (moduleLines: a port of every text-producing function of the generator) computed by the Lean model from the independent IR are compared with the module.'),
	'level_note': (
		'partial: the whole module text is modelled (moduleLines) and compared with the generator output, but byte identity is an executed comparison; yaml stand-in needed to import catparser.__main__; '
		'Lean kernel + standard axioms for the plan theorems.'),
	'technique': 'executed differential of the real generator over configurations + Lean theorems about the emission plan',
}

"""Shared codec correspondence machinery (C01, C02, C12, C15, C10).

Values travel as "wire" trees: ints as decimal strings, bytes as {"b": HEX}, structs as
{"s": Type, "f": [[member, value], ...]} (value-carrying members in layout order), arrays as lists,
an absent conditional member as None.
"""
import importlib
import json
import os
import signal

from translate import cats

from .common import REPO


class Timeout(Exception):
	pass


def _alarm(_signum, _frame):
	raise Timeout()


def guarded(function, *args, seconds=1.0):
	"""Runs implementation code with a time limit (mutated counts can make the real code loop for hours)."""
	previous = signal.signal(signal.SIGALRM, _alarm)
	signal.setitimer(signal.ITIMER_REAL, seconds)
	try:
		return function(*args)
	finally:
		signal.setitimer(signal.ITIMER_REAL, 0)
		signal.signal(signal.SIGALRM, previous)


def fix_name(name):
	return f'{name}_' if name in ('type', 'property') else name


CARRYING = ('int', 'ref', 'barray', 'array')


class Network:
	"""IR of one shipped schema set + the generated module that implements it."""

	def __init__(self, name, schema=None, module=None):
		self.name = name
		if schema is None:
			base = os.path.join(REPO, 'catbuffer', 'schemas', name)
			schema, self.files = cats.load_schema(os.path.join(base, 'all_generated.cats'), base)
		self.schema = schema
		self.types = dict(schema)
		self.order = [type_name for type_name, _ in schema]
		self.json = cats.to_json(schema)
		self.module = module or importlib.import_module({'symbol': 'symbolchain.sc', 'nem': 'symbolchain.nc'}[name])

	def children(self, abstract_name):
		return [name for name in self.order if 'struct' == self.types[name]['k'] and self.types[name]['base'] == abstract_name]

	def concrete_structs(self):
		return [name for name in self.order if 'struct' == self.types[name]['k'] and not self.types[name]['abstract']]

	def carrying(self, type_name):
		return [field for field in self.types[type_name]['fields'] if field['kind']['k'] in CARRYING]

	def cls(self, type_name):
		return getattr(self.module, type_name)

	def factory(self, abstract_name):
		return getattr(self.module, f'{abstract_name}Factory')

	# region wire <-> objects

	def to_obj(self, type_name, value):
		typedef = self.types[type_name]
		kind = typedef['k']
		if 'int' == kind:
			return self.cls(type_name)(int(value))
		if 'bytes' == kind:
			return self.cls(type_name)(bytes.fromhex(value['b']))
		if 'enum' == kind:
			return self.cls(type_name)(int(value))
		if typedef['abstract']:
			return self.to_obj(value['s'], value)
		instance = self.cls(type_name)()
		given = dict((name, item) for name, item in value['f'])
		for field in self.carrying(type_name):
			setattr(instance, fix_name(field['name']), self.field_to_obj(field, given[field['name']]))
		return instance

	def field_to_obj(self, field, value):
		if value is None:
			return None
		kind = field['kind']
		if 'int' == kind['k']:
			return int(value)
		if 'ref' == kind['k']:
			return self.to_obj(kind['ty'], value)
		if 'barray' == kind['k']:
			return bytes.fromhex(value['b'])
		return [self.to_obj(kind['elem'], item) for item in value]

	def to_wire(self, type_name, obj):
		typedef = self.types[type_name]
		kind = typedef['k']
		if kind in ('int', 'bytes', 'enum') and type(obj).__name__ != type_name:
			# a member holds a value of another class with the same bytes (typed equality of the SDK tells them apart)
			raise TypeError(f'expected {type_name}, found {type(obj).__name__}')
		if 'int' == kind:
			return str(obj.value)
		if 'bytes' == kind:
			return {'b': obj.bytes.hex().upper()}
		if 'enum' == kind:
			return str(obj.value)
		if typedef['abstract']:
			return self.to_wire(type(obj).__name__, obj)
		if type(obj).__name__ != type_name:
			raise TypeError(f'expected {type_name}, found {type(obj).__name__}')
		members = []
		for field in self.carrying(type_name):
			members.append([field['name'], self.field_to_wire(field, getattr(obj, fix_name(field['name'])))])
		return {'s': type_name, 'f': members}

	def field_to_wire(self, field, obj):
		if obj is None:
			return None
		kind = field['kind']
		if 'int' == kind['k']:
			return str(obj)
		if 'ref' == kind['k']:
			return self.to_wire(kind['ty'], obj)
		if 'barray' == kind['k']:
			return {'b': bytes(obj).hex().upper()}
		return [self.to_wire(kind['elem'], item) for item in obj]

	# endregion


def dumps(value):
	return json.dumps(value, separators=(',', ':'))


# region value generation


class ValueGen:
	"""Type-directed generator of admissible values (wire form)."""

	def __init__(self, net, rng, transform=None):
		self.net = net
		self.rng = rng
		self.transform = transform
		self.branches = {}

	def hit(self, key):
		self.branches[key] = self.branches.get(key, 0) + 1

	def int_value(self, width, signed):
		return self.rng.boundary_int(8 * width, signed)

	def value(self, type_name, depth=0):
		typedef = self.net.types[type_name]
		kind = typedef['k']
		if 'int' == kind:
			return str(self.int_value(typedef['w'], typedef['signed']))
		if 'bytes' == kind:
			return {'b': self.rng.bytes_(typedef['n']).hex().upper()}
		if 'enum' == kind:
			values = [value for _, value in typedef['members']]
			if typedef['bitwise']:
				result = 0
				for value in values:
					if self.rng.random() < 0.5:
						result |= value
				self.hit(f'flags:{type_name}:{"zero" if 0 == result else "combo"}')
				return str(result)
			choice = self.rng.choice(values)
			self.hit(f'enum:{type_name}:{choice}')
			return str(choice)
		if typedef['abstract']:
			children = self.net.children(type_name)
			if depth >= 2:
				simple = [child for child in children if not self.has_abstract_member(child)]
				children = simple or children
			child = self.rng.choice(children)
			self.hit(f'child:{type_name}:{child}')
			return self.struct_value(child, depth)
		return self.struct_value(type_name, depth)

	def has_abstract_member(self, type_name):
		for field in self.net.types[type_name]['fields']:
			kind = field['kind']
			target = kind.get('ty') or kind.get('elem')
			if target and 'struct' == self.net.types[target]['k'] and self.net.types[target]['abstract']:
				return True
		return False

	def array_length(self):
		pick = self.rng.random()
		if pick < 0.2:
			return 0
		if pick < 0.9:
			return self.rng.choice([1, 1, 2, 2, 3, 5])
		return self.rng.choice([17, 40, 130])

	def struct_value(self, type_name, depth):
		# pylint: disable=too-many-locals,too-many-branches
		typedef = self.net.types[type_name]
		fields = typedef['fields']
		by_name = {field['name']: field for field in fields}
		values = {}
		fixed = {}
		for target, const_name in typedef.get('initializers', []):
			const = next((entry for entry in typedef.get('consts', []) if entry[0] == const_name), None)
			if const is not None and target in by_name:
				raw = const[2]
				if not isinstance(raw, int):
					raw = dict(self.net.types[const[1]]['members'])[raw]
				fixed[target] = str(raw)

		def make(field):
			kind = field['kind']
			if field['name'] in fixed:
				return fixed[field['name']]
			if 'int' == kind['k']:
				return str(self.int_value(kind['w'], kind['signed']))
			if 'ref' == kind['k']:
				return self.value(kind['ty'], depth + 1)
			if 'barray' == kind['k']:
				width = next(other['kind']['w'] for other in fields if other['name'] == kind['sizeField'])
				length = self.rng.choice([0, 1, 2, 5, 16, 33, 40, 300 if width > 1 else 200])
				return {'b': self.rng.bytes_(length).hex().upper()}
			length = self.array_length()
			if kind['sortKey'] and 0 < length < 3 and self.rng.random() < 0.6:
				length = self.rng.choice([3, 4])  # an order check that only looks at the first pair needs three elements to be seen
			if depth >= 2:
				length = min(length, 2)
			elements = [self.value(kind['elem'], depth + 1) for _ in range(length)]
			if kind['align'] and elements and self.rng.random() < 0.6:
				# boundary of the padding rule: make the last element's size a multiple of the alignment (no padding needed)
				for _ in range(60):
					try:
						if 0 == self.net.to_obj(kind['elem'], elements[-1]).size % kind['align']:
							self.hit(f'aligned-last:{type_name}.{field["name"]}:multiple')
							break
					except Exception:  # pylint: disable=broad-except
						break
					elements[-1] = self.value(kind['elem'], depth + 1)
			if kind['sortKey']:
				elements = self.make_sorted(kind['elem'], kind['sortKey'], elements)
			self.hit(f'array:{type_name}.{field["name"]}:{"empty" if not elements else "one" if 1 == len(elements) else "many"}')
			return elements

		carrying = [field for field in fields if field['kind']['k'] in CARRYING]
		for field in carrying:
			if field['cond'] is None:
				values[field['name']] = make(field)
		for field in carrying:
			cond = field['cond']
			if cond is None:
				continue
			cond_field = by_name[cond['field']]
			if cond_field['kind']['k'] in CARRYING:
				actual = int(values[cond['field']])
				present = (cond['value'] == actual) if 'eq' == cond['op'] else (cond['value'] != actual)
			else:
				present = self.rng.random() < 0.6
			self.hit(f'cond:{type_name}.{field["name"]}:{"present" if present else "absent"}')
			if present:
				value = make(field)
				if cond['viaSelf'] and isinstance(value, dict) and self.rng.random() < 0.3:
					value = {'b': ''}  # present but empty: the member's own truthiness is what serialize() tests
				values[field['name']] = value
			else:
				values[field['name']] = None
		return {'s': type_name, 'f': [[field['name'], values[field['name']]] for field in carrying]}

	def sort_key(self, element_type, key_name, element):
		"""Independent statement of the declared comparer (used to build admissible keyed arrays)."""
		members = dict((name, value) for name, value in element['f'])
		key_value = members[key_name]

		def atom(value):
			if isinstance(value, str):
				return (0, int(value))
			if isinstance(value, dict) and 'b' in value:
				return (1, bytes.fromhex(value['b']))
			if isinstance(value, list):
				return tuple(atom(item) for item in value)
			raise ValueError('unsupported key')

		if isinstance(key_value, dict) and 's' in key_value:
			comparer = self.net.types[key_value['s']]['comparer']
			inner = dict((name, value) for name, value in key_value['f'])
			parts = []
			for name, transform in comparer:
				if transform:
					parts.append((1, self.transform(transform, bytes.fromhex(inner[name]['b']))))
				else:
					parts.append(atom(inner[name]))
			return tuple(parts)
		return atom(key_value)

	def make_sorted(self, element_type, key_name, elements):
		keyed = {}
		for element in elements:
			keyed.setdefault(self.sort_key(element_type, key_name, element), element)
		return [keyed[key] for key in sorted(keyed)]


# endregion

"""C01 - model codecs round-trip every admissible value and report its exact size.

Correspondence: Model/Codec/Interp.lean over the IR regenerated from the CATS text, against the classes
of symbolchain.sc / symbolchain.nc; direct evaluation of round trip, size, factory agreement and
decode-encode-decode stability on the real objects.
"""
import json
import os

from . import codec
from .common import LEAN, write_if_changed

DRIVER = 'c01'

RULE = (
	'for every type of both generated modules (enumerated from the schema IR and by reflection; the lists must match): type-directed '
	'admissible values from VERIF_SEED (boundary integers of each width/sign, every enum member, random flag combinations, arrays empty/1/2/long, '
	'both arms of each conditional, every child of each factory, nesting to depth 3); then byte mutants of each encoding located with the '
	'model\'s layout (bit flips in reserved/count/size members, +-1 on counts and sizes, random flips in data, truncation at and around '
	'member boundaries, appended garbage). distinct = distinct (type, value) or (type, mutant bytes); all are non-trivial (each reaches '
	'serialize/deserialize of the real class).')
TRUSTED_BASE = [
	'Lean 4.33 kernel; axioms of the property theorems: subset of {propext, Classical.choice, Quot.sound}',
	'hand-written interpreter SymbolVerif/Model/Codec/{Schema,Interp,Render}.lean, tied to the generated classes by this differential run',
	'translator translate/cats.py (independent reader of the .cats text -> IR), cross-checked against catparser descriptors by C02',
	'harness conversion between Python objects and wire values (harness/codec.py)',
]
ASSUMPTIONS = [
	'values are compared structurally (member by member); Python object identity/aliasing is out of scope',
	'reserved-member checks are asserts: behaviour under python -O is out of scope',
	'mutants that make the real code run longer than 3 s (huge counts) are skipped on both sides',
]


def translate(_ctx):
	"""Generated/{Symbol,Nem}Schema.lean from the CATS text of /repo's working tree."""
	from translate import cats

	failures = []
	for name in ('symbol', 'nem'):
		try:
			net = codec.Network.__new__(codec.Network)
			base = os.path.join(codec.REPO, 'catbuffer', 'schemas', name)
			schema, _ = cats.load_schema(os.path.join(base, 'all_generated.cats'), base)
			text = cats.to_lean(schema, f'SymbolVerif.Generated.{name.capitalize()}', 'schema')
			write_if_changed(os.path.join(LEAN, 'SymbolVerif', 'Generated', f'{name.capitalize()}Schema.lean'), text)
			del net
		except cats.Unsupported as ex:
			failures.append(f'translate/cats.py cannot express the {name} schema: {ex}')
	return failures


class Engine:
	"""Runs the differential for one network; shared by C01, C02 and C12."""

	def __init__(self, ctx, net, focus='C01'):
		self.ctx = ctx
		self.net = net
		self.focus = focus
		self.sid = net.name
		self.gen = codec.ValueGen(net, ctx.rng, transform=python_transform)
		if ctx.driver:
			answer = ctx.driver.ask(f'schema {self.sid} {net.json}')
			if not answer.startswith('ok'):
				ctx.fail('corr', f'driver rejected the {net.name} schema IR: {answer}', {'network': net.name})

	def ask_many(self, lines):
		if not self.ctx.driver:
			return [None] * len(lines)
		return self.ctx.driver.ask_many(lines)

	# region implementation side

	def impl_decode(self, type_name, data, use_factory=False):
		typedef = self.net.types[type_name]
		try:
			if use_factory:
				obj = codec.guarded(self.net.factory(typedef['base']).deserialize, data)
				return ('ok', self.net.to_wire(typedef['base'], obj), obj)
			obj = codec.guarded(self.net.cls(type_name).deserialize, data)
			return ('ok', self.net.to_wire(type_name, obj), obj)
		except codec.Timeout:
			return ('timeout', None, None)
		except Exception as ex:  # pylint: disable=broad-except
			return ('err', type(ex).__name__, None)

	# endregion

	def check_type(self, type_name, count, mutants_per_value, values=None):
		# pylint: disable=too-many-locals,too-many-branches,too-many-statements
		ctx = self.ctx
		net = self.net
		typedef = net.types[type_name]
		is_struct = 'struct' == typedef['k']
		cases = []
		for value in (values if values is not None else [self.gen.value(type_name) for _ in range(count)]):
			try:
				obj = net.to_obj(type_name, value)
				data = bytes(obj.serialize())
				size = obj.size
			except Exception as ex:  # pylint: disable=broad-except
				ctx.fail('corr', f'{net.name}.{type_name}: generated value is refused by the implementation ({type(ex).__name__}: {ex})', {
					'network': net.name, 'type': type_name, 'value': value})
				continue
			cases.append({'value': value, 'obj': obj, 'data': data, 'size': size})

		wire = [codec.dumps(case['value']) for case in cases]
		lines = []
		for text in wire:
			lines += [f'enc {self.sid} {type_name} {text}', f'size {self.sid} {type_name} {text}', f'json {self.sid} {type_name} {text}', f'adm {self.sid} {type_name} {text}', f'str {self.sid} {type_name} {text}']
			if is_struct:
				lines.append(f'layout {self.sid} {type_name} {text}')
		answers = self.ask_many(lines)
		stride = 6 if is_struct else 5

		mutant_lines = []
		mutant_meta = []
		for index, case in enumerate(cases):
			value, data = case['value'], case['data']
			key = (net.name, type_name, wire[index])
			ctx.case(key, {'network': net.name, 'type': type_name, 'value': value, 'bytes': data.hex().upper()} if index == 0 and ctx.rng.random() < 0.05 else None)
			ctx.count(f'values:{net.name}')
			ident = {'network': net.name, 'type': type_name, 'value': value, 'bytes': data.hex().upper()}

			# direct evaluation of the property on the implementation
			if case['size'] != len(data):
				ctx.fail('property', f'{net.name}.{type_name}: size {case["size"]} != {len(data)} bytes encoded', ident)
			status, decoded, _ = self.impl_decode(type_name, data)
			if 'ok' != status or decoded != value:
				ctx.fail('property', f'{net.name}.{type_name}: decode(encode(v)) != v ({status}: {decoded if "ok" != status else "value differs"})', dict(ident, decoded=decoded))
			if is_struct and typedef['base']:
				status, decoded, obj = self.impl_decode(type_name, data, use_factory=True)
				if 'ok' != status or decoded != value or type(obj).__name__ != type_name:
					ctx.fail('property', f'{net.name}.{type_name}: {typedef["base"]}Factory does not return the same type and value ({status})', dict(ident, decoded=decoded))
				ctx.count('factory-decodes')

			if 0 == index % 2:
				self.check_object_histories(type_name, case)

			# model vs implementation
			enc, size, rendered = answers[stride * index: stride * index + 3]
			if enc is not None:
				expected = f'ok {data.hex().upper() if data else "-"}'
				if enc != expected:
					offset = first_difference(enc[3:], data.hex().upper()) // 2 if enc.startswith('ok ') else None
					ctx.fail('corr', f'{net.name}.{type_name}: model encoding differs from serialize() (first differing offset {offset})', dict(ident, model=enc))
				if size != f'ok {case["size"]}':
					ctx.fail('corr', f'{net.name}.{type_name}: model size {size} != {case["size"]}', ident)
				impl_json = codec.dumps(case['obj'].to_json()) if hasattr(case['obj'], 'to_json') else None
				if impl_json is not None and rendered != f'ok {impl_json}':
					ctx.fail('corr', f'{net.name}.{type_name}: model to_json differs', dict(ident, model=rendered, implementation=impl_json))

				# the theorems' hypothesis: every generated value must be admissible in the model (non-vacuity of `roundtrip`)
				admissible = answers[stride * index + 3]
				ctx.count(f'admissible:{admissible}')
				if 'ok true' != admissible and self.has_empty_self_tested_member(type_name, value):
					# `Adm` is a sufficient condition: it excludes a present-but-empty member whose own truthiness guards it
					# (NEM parent_name == b''); the implementation is run at that excluded point here and must still round-trip
					ctx.count('outside-adm:empty-self-tested-member')
				elif 'ok true' != admissible:
					ctx.fail('corr', f'{net.name}.{type_name}: a value the implementation round-trips is not admissible in the model ({admissible})', ident)

				# text rendering: str(value) shows exactly the member values
				impl_str = str(case['obj'])
				model_str = answers[stride * index + 4]
				expected_str = 'ok ' + (impl_str.encode('utf8').hex().upper() or '-')
				if model_str != expected_str:
					decoded_model = bytes.fromhex(model_str[3:]).decode('utf8', 'replace') if model_str.startswith('ok ') and '-' != model_str[3:] else model_str
					ctx.fail('corr', f'{net.name}.{type_name}: model str() differs from the implementation', dict(ident, model=decoded_model[:600], implementation=impl_str[:600]))
				ctx.count('str-compared')

			spans = None
			if is_struct and answers[stride * index + 5] and answers[stride * index + 5].startswith('ok '):
				spans = [part.split(':') for part in answers[stride * index + 5][3:].split(',') if ':' in part]
			for mutant, label in self.mutants(data, spans, mutants_per_value) + self.reorder_mutants(type_name, case['obj'], data, spans):
				mutant_lines.append(f'dec {self.sid} {type_name} {mutant.hex().upper() if mutant else "-"}')
				mutant_meta.append((mutant, label, ident))
			mutant_lines.append(f'dec {self.sid} {type_name} {data.hex().upper() if data else "-"}')
			mutant_meta.append((data, 'valid', ident))

		decoded_answers = self.ask_many(mutant_lines)
		for (mutant, label, ident), model_answer in zip(mutant_meta, decoded_answers):
			self.eval_mutant(type_name, mutant, label, ident, model_answer)

	def eval_mutant(self, type_name, mutant, label, ident, model_answer):
		ctx, net = self.ctx, self.net
		ctx.count(f'mutant:{label}')
		if 'valid' != label:
			ctx.case((net.name, type_name, mutant), None)
		status, decoded, obj = self.impl_decode(type_name, mutant)
		if 'timeout' == status:
			ctx.count('mutant-timeouts')
			return
		info = {'network': net.name, 'type': type_name, 'bytes': mutant.hex().upper(), 'mutation': label, 'from': ident['bytes']}
		ctx.count(f'mutant-outcome:{status}')
		if 'ok' == status:
			self.check_ded(type_name, obj, decoded, info)
		if label.startswith('reserved-flip') and 'ok' == status:
			ctx.fail('property', f'{net.name}.{type_name}: a reserved member with a non-constant value is accepted ({label})', info)
		if model_answer is not None:
			if model_answer.startswith('ok '):
				model_value = json.loads(model_answer[3:])
				if 'ok' != status or decoded != model_value:
					ctx.fail('corr', f'{net.name}.{type_name}: decode of {label} mutant differs (implementation {status})', dict(info, model=model_answer[:400], implementation=decoded))
			elif 'ok' == status and not model_answer.endswith('unsupported'):
				ctx.fail('corr', f'{net.name}.{type_name}: implementation accepts a {label} mutant the model rejects ({model_answer})', dict(info, implementation=decoded))

	def has_empty_self_tested_member(self, type_name, value):
		if not isinstance(value, dict) or 's' not in value:
			return False
		typedef = self.net.types[value['s']]
		members = dict((name, item) for name, item in value['f'])
		for field in typedef['fields']:
			item = members.get(field['name'])
			if field['cond'] and field['cond']['viaSelf'] and isinstance(item, dict) and 'b' in item and not item['b']:
				return True
			if isinstance(item, dict) and 's' in item and self.has_empty_self_tested_member(item['s'], item):
				return True
			if isinstance(item, list) and any(self.has_empty_self_tested_member(None, element) for element in item):
				return True
		return False

	def check_ded(self, type_name, obj, decoded, info):
		"""decode-encode-decode stability, directly on the implementation."""
		ctx = self.ctx
		try:
			again = bytes(codec.guarded(obj.serialize))
		except codec.Timeout:
			return
		except Exception as ex:  # pylint: disable=broad-except
			ctx.fail('property', f'{self.net.name}.{type_name}: a decoded value does not re-encode ({type(ex).__name__}: {ex})', info, signature=ded_signature(self.net.name, type_name, 're-encode'))
			return
		status, decoded2, obj2 = self.impl_decode(type_name, again)
		if 'timeout' == status:
			ctx.count('ded-timeouts')
			return
		if 'ok' != status or decoded2 != decoded:
			ctx.fail('property', f'{self.net.name}.{type_name}: decode-encode-decode is not stable (second decode {status})', dict(info, reencoded=again.hex().upper()), signature=ded_signature(self.net.name, type_name, 'second-decode'))
			return
		if bytes(obj2.serialize()) != again:
			ctx.fail('property', f'{self.net.name}.{type_name}: second re-encoding differs from the first', info, signature=ded_signature(self.net.name, type_name, 're-encode-differs'))
		ctx.count('ded-checked')

	def check_object_histories(self, type_name, case):
		"""What a codec object answers must depend on its current contents only, and decoding must hand out an independent value:
		observing an object (size, str, to_json, serialize) does not change its encoding; a value decoded from a mutable buffer keeps
		its encoding when the caller scribbles over that buffer afterwards; two values decoded from the same bytes do not share
		their arrays; fresh default instances do not share theirs."""
		ctx, net = self.ctx, self.net
		typedef = net.types[type_name]
		if 'struct' != typedef['k'] or typedef['abstract']:
			return
		obj, data = case['obj'], case['data']
		ident = {'network': net.name, 'type': type_name, 'value': case['value'], 'bytes': data.hex().upper()}
		cls = net.cls(type_name)
		try:
			_ = obj.size
			str(obj)
			if hasattr(obj, 'to_json'):
				obj.to_json()
			again = bytes(obj.serialize())
			if again != data:
				ctx.fail('property', f'{net.name}.{type_name}: serialize() answers differently after size / str / to_json / serialize were called on the object', ident)
			buffer = bytearray(data)
			decoded = codec.guarded(cls.deserialize, buffer)
			for index in range(len(buffer)):
				buffer[index] ^= 0xFF
			if bytes(decoded.serialize()) != data:
				ctx.fail('property', f'{net.name}.{type_name}: a value decoded from a bytearray changes when the caller overwrites that bytearray afterwards', ident)
			view_source = bytearray(data)
			decoded_view = codec.guarded(cls.deserialize, memoryview(view_source))
			view_source[:] = bytes(len(view_source))
			if bytes(decoded_view.serialize()) != data:
				ctx.fail('property', f'{net.name}.{type_name}: a value decoded from a memoryview changes when the underlying buffer is overwritten afterwards', ident)
			arrays = [codec.fix_name(field['name']) for field in typedef['fields'] if 'array' == field['kind']['k']]
			first, second = codec.guarded(cls.deserialize, data), codec.guarded(cls.deserialize, data)
			for attribute in arrays:
				items = getattr(first, attribute, None)
				if isinstance(items, list):
					items.clear()
			if bytes(second.serialize()) != data:
				ctx.fail('property', f'{net.name}.{type_name}: two values decoded from the same bytes share an array (clearing it in one changes the other)', ident)
			# the other direction: an array that decoded EMPTY is grown in place in one value (the idiom `decoded.cosignatures.append(...)`);
			# a value decoded afterwards, and the one decoded before, must still hold what the bytes say
			array_fields = [field for field in typedef['fields'] if 'array' == field['kind']['k']]
			if array_fields and all(getattr(obj, codec.fix_name(field['name']), None) for field in array_fields):
				# no array of this value is empty: use the encoding of the value with its arrays emptied (sizes and counts follow)
				emptied = codec.guarded(cls.deserialize, data)
				for field in array_fields:
					setattr(emptied, codec.fix_name(field['name']), [])
				try:
					data = bytes(emptied.serialize())
					second = codec.guarded(cls.deserialize, data)
				except Exception:  # pylint: disable=broad-except
					array_fields = []
			grown = codec.guarded(cls.deserialize, data) if array_fields else None
			touched = False
			for field in array_fields:
				items = getattr(grown, codec.fix_name(field['name']), None)
				if isinstance(items, list) and not items:
					try:
						items.append(net.to_obj(field['kind']['elem'], self.gen.value(field['kind']['elem'], 2)))
						touched = True
					except Exception:  # pylint: disable=broad-except
						pass
			if touched:
				later = codec.guarded(cls.deserialize, data)
				ctx.count('history:grow-an-empty-decoded-array')
				if bytes(later.serialize()) != data or bytes(second.serialize()) != data:
					ctx.fail('property', (
						f'{net.name}.{type_name}: appending to an array that decoded empty in one value changes other values decoded from the same bytes '
						'(decoded values share one empty list)'), ident)
			fresh = cls()
			for attribute in arrays:
				items = getattr(fresh, attribute, None)
				if isinstance(items, list) and getattr(obj, attribute, None):
					items.append(getattr(obj, attribute)[0])
			other = cls()
			for attribute in arrays:
				if isinstance(getattr(other, attribute, None), list) and getattr(other, attribute):
					ctx.fail('property', f'{net.name}.{type_name}: default-constructed instances share the array {attribute}', ident)
			self.check_shared_elements(type_name, case, ident)
			self.check_stale_arm(type_name, case, ident)
			self.check_rekeyed_entries(type_name, case, ident)
			ctx.count('object-histories')
		except codec.Timeout:
			ctx.count('history-timeouts')
		except Exception as ex:  # pylint: disable=broad-except
			ctx.fail('property', f'{net.name}.{type_name}: a history of harmless operations on a valid object raises {type(ex).__name__}: {ex}', ident)

	def check_shared_elements(self, type_name, case, ident):
		"""One element OBJECT placed several times in an array (the last position and an earlier one, all positions): encoding and size
		depend on the contents only, so they must equal those of the same array built from independent equal objects."""
		ctx, net = self.ctx, self.net
		typedef = net.types[type_name]
		for field in typedef['fields']:
			if 'array' != field['kind']['k'] or field['kind']['sortKey']:
				continue
			attribute = codec.fix_name(field['name'])
			shared = codec.guarded(net.cls(type_name).deserialize, case['data'])
			items = getattr(shared, attribute, None)
			if not isinstance(items, list) or not items:
				continue
			for shape in ([0, 0], [0, -1, 0], [-1, -1, -1]):
				if len(items) < 2 and -1 in shape and 0 in shape:
					continue
				independent = [codec.guarded(net.cls(type_name).deserialize, case['data']) for _ in shape]
				expected_items = [getattr(source, attribute)[position] for source, position in zip(independent, shape)]
				reference = codec.guarded(net.cls(type_name).deserialize, case['data'])
				setattr(reference, attribute, expected_items)
				setattr(shared, attribute, [items[position] for position in shape])
				ctx.count('history:shared-element-object')
				try:
					expected = (bytes(reference.serialize()), reference.size)
				except Exception:  # pylint: disable=broad-except
					continue  # (such an array is not encodable at all, e.g. a count member too narrow)
				try:
					actual = (bytes(shared.serialize()), shared.size)
				except Exception as ex:  # pylint: disable=broad-except
					actual = (f'{type(ex).__name__}: {ex}', None)
				if actual != expected:
					ctx.fail('property', (
						f'{net.name}.{type_name}: the array {field["name"]} holding one element object at positions {shape} encodes / measures differently '
						'from the same array built from independent equal objects'), dict(ident, member=field['name'], shape=shape, shared=str(actual[0])[:200] if isinstance(actual[0], str) else actual[0].hex().upper()[:400], expected=expected[0].hex().upper()[:400]))
				elif 'ok' != self.impl_decode(type_name, actual[0])[0]:
					ctx.fail('property', f'{net.name}.{type_name}: the encoding of the array {field["name"]} with a shared element object does not decode', dict(ident, member=field['name'], shape=shape))

	def check_stale_arm(self, type_name, case, ident):
		"""A conditional member whose condition does not hold is not part of the value: giving it a content (the other arm of a
		union left set) must change neither the encoding nor the size nor what to_json / str show."""
		ctx, net = self.ctx, self.net
		typedef = net.types[type_name]
		members = dict((name, item) for name, item in case['value']['f'])
		for field in typedef['fields']:
			cond = field['cond']
			if cond is None or cond['viaSelf'] or field['name'] not in members or members[field['name']] is not None:
				continue
			if 'ref' != field['kind']['k']:
				continue
			discriminant = next(other for other in typedef['fields'] if other['name'] == cond['field'])
			if discriminant['kind']['k'] not in codec.CARRYING:
				continue  # a computed discriminant (@sizeref of this very member) follows the member: no arm can be stale
			fresh = net.to_obj(type_name, case['value'])
			before = (bytes(fresh.serialize()), fresh.size, codec.dumps(fresh.to_json()) if hasattr(fresh, 'to_json') else None, str(fresh))
			setattr(fresh, codec.fix_name(field['name']), net.to_obj(field['kind']['ty'], self.gen.value(field['kind']['ty'], 2)))
			after = (bytes(fresh.serialize()), fresh.size, codec.dumps(fresh.to_json()) if hasattr(fresh, 'to_json') else None, str(fresh))
			ctx.count('history:stale-arm')
			for what, left, right in zip(('encoding', 'size', 'to_json', 'str'), before, after):
				if left != right:
					ctx.fail('property', (
						f'{net.name}.{type_name}: the {what} changes when the member {field["name"]}, whose condition does not hold, is given a content '
						'(the object no longer shows / encodes the value its discriminant selects)'), dict(ident, member=field['name'], before=str(left)[:300], after=str(right)[:300]))

	def check_rekeyed_entries(self, type_name, case, ident):
		"""Entries of a keyed array are re-keyed IN PLACE after the object was decoded / sorted / encoded once (nothing remembered from
		the first evaluation may survive): the out-of-order array must be refused, sort() must restore an order the encoder accepts,
		and the bytes must decode to what the object now holds."""
		from . import c12
		ctx, net = self.ctx, self.net
		typedef = net.types[type_name]
		for field in typedef['fields']:
			if 'array' != field['kind']['k'] or not field['kind']['sortKey']:
				continue
			attribute = codec.fix_name(field['name'])
			obj = codec.guarded(net.cls(type_name).deserialize, case['data'])
			entries = getattr(obj, attribute, None)
			if not isinstance(entries, list) or len(entries) < 2:
				continue
			obj.sort()
			bytes(obj.serialize())
			c12.KeyedArrayCheck(ctx, net, self, type_name, field).swap_keys(entries[0], entries[-1])
			ctx.count('history:rekey-after-decode')
			try:
				bytes(obj.serialize())
				ctx.fail('property', f'{net.name}.{type_name}: serialize() accepts the array {field["name"]} after two of its entries exchanged their keys in place', dict(ident, member=field['name']))
				continue
			except Exception:  # pylint: disable=broad-except
				pass
			obj.sort()
			try:
				again = bytes(obj.serialize())
			except Exception as ex:  # pylint: disable=broad-except
				ctx.fail('property', f'{net.name}.{type_name}: after re-keying entries of {field["name"]} in place, sort() leaves an order serialize() refuses ({type(ex).__name__})', dict(ident, member=field['name']))
				continue
			status, decoded, _ = self.impl_decode(type_name, again)
			if 'ok' != status or decoded != net.to_wire(type_name, obj):
				ctx.fail('property', f'{net.name}.{type_name}: the encoding of the re-keyed and re-sorted value does not decode to it ({status})', dict(ident, member=field['name'], bytes=again.hex().upper()))
			# two neighbours given one key in place: no order makes such a value encodable (the decoder refuses equal neighbours, so
			# the encoder must as well), before and after sort()
			twin = codec.guarded(net.cls(type_name).deserialize, case['data'])
			twins = getattr(twin, attribute, None)
			if isinstance(twins, list) and len(twins) >= 2:
				twin.sort()
				twins = getattr(twin, attribute)
				c12.KeyedArrayCheck(ctx, net, self, type_name, field).copy_key(twins[0], twins[1])
				ctx.count('history:equal-keys-after-decode')
				for stage in ('as it is', 'after sort()'):
					try:
						produced = bytes(twin.serialize())
					except Exception:  # pylint: disable=broad-except
						produced = None
					if produced is not None:
						ctx.fail('property', (
							f'{net.name}.{type_name}: serialize() accepts the array {field["name"]} with two neighbouring entries of one key ({stage}); '
							'its own decoder refuses those bytes'), dict(ident, member=field['name'], bytes=produced.hex().upper()))
						break
					twin.sort()

	def reorder_mutants(self, type_name, obj, data, spans):
		"""Encodings in which the elements of one array member are rearranged (two neighbours swapped - the first pair, a later
		pair - or an element written twice), everything else and all counts/sizes untouched. For an array with a sort key such
		bytes are not the encoding of any value: the decoder must refuse them exactly as the model's decoder does."""
		typedef = self.net.types[type_name]
		if not spans or 'struct' != typedef['k']:
			return []
		result = []
		fields = {field['name']: field for field in typedef['fields']}
		for name, kind, offset, length in spans:
			field = fields.get(name)
			if 'array' != kind or field is None or 'array' != field['kind']['k']:
				continue
			offset, length = int(offset), int(length)
			elements = getattr(obj, '_' + codec.fix_name(name), None)
			if not isinstance(elements, list) or len(elements) < 2:
				continue
			try:
				encoded = [bytes(element.serialize()) for element in elements]
			except Exception:  # pylint: disable=broad-except
				continue
			align = field['kind']['align']
			chunks, position = [], offset
			for index, raw in enumerate(encoded):
				width = len(raw)
				if align and (index + 1 < len(encoded) or field['kind']['padLast']):
					width += -width % align
				chunks.append(data[position:position + width])
				position += width
			if position != offset + length or any(not chunk.startswith(raw) for chunk, raw in zip(chunks, encoded)):
				continue  # the member is not laid out as the plain sequence of its elements (reported by the layout comparison)
			if align and not field['kind']['padLast']:
				chunks = chunks[:-1]  # keep the unpadded last element in place
			variants = []
			if len(chunks) >= 2:
				variants.append(('swap-first', [chunks[1], chunks[0]] + chunks[2:]))
				variants.append(('duplicate', [chunks[0], chunks[0]] + chunks[2:]))
			if len(chunks) >= 3:
				last = len(chunks) - 1
				variants.append(('swap-later', chunks[:last - 1] + [chunks[last], chunks[last - 1]]))
				variants.append(('duplicate-later', chunks[:last] + [chunks[last - 1]]))
			keyed = 'keyed' if field['kind']['sortKey'] else 'plain'
			for label, rearranged in variants:
				body = b''.join(rearranged) + (b''.join(data[offset:offset + length][len(b''.join(chunks)):] for _ in (0,)))
				if len(body) == length and body != data[offset:offset + length]:
					result.append((data[:offset] + body + data[offset + length:], f'elements-{label}:{keyed}'))
		return result

	def mutants(self, data, spans, limit):
		rng = self.ctx.rng
		result = []
		if not data:
			return [(b'\x00', 'append')]
		if spans:
			for name, kind, offset, length in spans:
				offset, length = int(offset), int(length)
				if 0 == length or offset + length > len(data):
					continue  # (the second case: the implementation's encoding is shorter than the model's layout - reported elsewhere)
				if 'reserved' == kind:
					position = offset + rng.randrange(length)
					result.append((flip(data, position, rng.randrange(8)), f'reserved-flip:{name}'))
				elif kind in ('count', 'bytesize', 'sizeof', 'sizeref', 'size'):
					current = int.from_bytes(data[offset:offset + length], 'little')
					for delta in rng.sample([-8, -1, 1, 2, 8], 2):
						updated = current + delta
						if 0 <= updated < (1 << (8 * length)) and updated < current + 64:
							result.append((data[:offset] + updated.to_bytes(length, 'little') + data[offset + length:], f'{kind}{delta:+d}'))
				else:
					position = offset + rng.randrange(length)
					result.append((flip(data, position, rng.randrange(8)), f'data-flip:{kind}'))
				for cut in (offset, offset + 1, offset + length - 1):
					if 0 <= cut < len(data) and rng.random() < 0.25:
						result.append((data[:cut], 'truncate'))
		else:
			for _ in range(3):
				result.append((flip(data, rng.randrange(len(data)), rng.randrange(8)), 'flip'))
			result.append((data[:rng.randrange(len(data))], 'truncate'))
		result.append((data + rng.bytes_(rng.choice([1, 4, 9])), 'append'))
		result.append((data[:-1], 'truncate'))
		rng.shuffle(result)
		return result[:limit]


def ded_signature(network, type_name, what):
	return f'ded:{network}.{type_name}:{what}'


def flip(data, position, bit):
	return data[:position] + bytes([data[position] ^ (1 << bit)]) + data[position + 1:]


def first_difference(left, right):
	for index, (a, b) in enumerate(zip(left, right)):
		if a != b:
			return index
	return min(len(left), len(right))


def python_transform(name, data):
	import hashlib

	import sha3
	if 'ripemd_keccak_256' == name:
		return hashlib.new('ripemd160', sha3.keccak_256(data).digest()).digest()
	raise ValueError(name)


def reflect_classes(module):
	import inspect
	return sorted(
		name for name, obj in vars(module).items()
		if inspect.isclass(obj) and obj.__module__ == module.__name__ and not name.endswith('Factory'))


def run(ctx, focus='C01'):
	for name in ('symbol', 'nem'):
		try:
			net = codec.Network(name)
		except Exception as ex:  # pylint: disable=broad-except
			ctx.fail('corr', f'the {name} schema cannot be read by translate/cats.py: {ex}', {'network': name})
			continue
		listed = sorted(net.order)
		reflected = reflect_classes(net.module)
		if listed != reflected:
			ctx.fail('corr', f'{name}: classes of the generated module and types of the schema differ', {
				'only_in_module': sorted(set(reflected) - set(listed)), 'only_in_schema': sorted(set(listed) - set(reflected))})
		engine = Engine(ctx, net, focus)
		for type_name in net.order:
			typedef = net.types[type_name]
			if 'struct' == typedef['k']:
				if typedef['abstract']:
					continue
				engine.check_type(type_name, ctx.scale(4, 60), ctx.scale(8, 40))
			else:
				engine.check_type(type_name, ctx.scale(3, 30), ctx.scale(3, 8))
		for key, amount in engine.gen.branches.items():
			ctx.count(f'gen:{key.split(":")[0]}', amount)
		ctx.notes.append(f'{name}: {len(net.order)} types, {len(engine.gen.branches)} distinct generator branches hit')


def replay(ctx, payload):
	"""Re-evaluates the stored value / mutant on the current working tree (property and correspondence)."""
	case = payload['case']
	print(payload['what'])
	if 'network' not in case or case['network'] not in ('symbol', 'nem'):
		run(ctx)
		return
	net = codec.Network(case['network'])
	engine = Engine(ctx, net)
	if 'mutation' in case:
		data = bytes.fromhex(case['bytes'])
		answer = ctx.driver.ask(f'dec {net.name} {case["type"]} {case["bytes"] or "-"}') if ctx.driver else None
		print('implementation:', engine.impl_decode(case['type'], data)[:2])
		print('model:', answer)
		engine.eval_mutant(case['type'], data, case['mutation'], {'bytes': case.get('from', '')}, answer)
	else:
		engine.check_type(case['type'], 0, 0, values=[case['value']])


MANIFEST = {
	'level_text': (
		'Round trip, exact size and factory agreement are Lean theorems about a schema-indexed codec interpreter, for ALL well-formed schemas, all types, '
		'all admissible values and any trailing bytes (Properties/C01.lean: roundtrip / decode_encode / size_eq_length / factory_agrees, built from integer, '
		'array (counted, keyed, fill, aligned) and struct-level laws by induction, no size bounds), instantiated for the two shipped schema sets by '
		'kernel-checked instance theorems (symbol_wf, nem_wf, symbol_wfd, nem_wfd) over Lean terms regenerated from the .cats text on every run; decode-encode-decode '
		'stability is a theorem for every byte string under one decidable hypothesis (ded_stable_partial: re-computed sizes fit their widths; false without it). The interpreter is tied to the '
		"generated classes by a differential run over every type of both modules (values, byte mutants located with the model's layout), and round trip, "
		'size, factory agreement and decode-encode-decode stability are also evaluated directly on the real objects.'
	),
	'level_note': (
		'Trusted: Lean kernel + {propext, Classical.choice, Quot.sound}; hand-written interpreter tied to the Python classes by differential execution only; '
		'translator translate/cats.py (cross-checked against catparser in C02); decode-encode-decode stability needs the `fit` hypothesis (for shipped types it can '
		'only fail on inputs of 4 GiB and more); counted arrays above 100000 elements are outside the modelled domain; see lean/SymbolVerif/Proofs/Codec/STATUS.md for what the theorem excludes.'
	),
	'technique': 'Lean 4 theorems over a schema-indexed codec interpreter + differential correspondence with the generated Python codecs',
}

"""C11 - ill-formed CATS text is rejected, never silently accepted.

Correspondence: the corruption catalogue defined in Model/Cats/Corrupt.lean (applied by driver_c11, which also gives the model's
verdict on every corrupted document) against create_cats_lark_parser().parse(text); direct evaluation of the property on the
implementation: every corrupted document must raise a lark error that carries a position; through the command line a corruption in a
file reached by import must give a non-zero exit status and no output file.
"""
import os
import re

from . import c04, c17
from .common import REPO, sx

RULE = (
	'well-formed documents (the C04 grammar-directed generator: every declaration, member and attribute form, comments, blank lines, LF/CRLF, '
	'tab/4-space, decimal/hex; plus every shipped .cats file) x the 14 operators of the catalogue (Model/Cats/Corrupt.lean: unsupported integer '
	'width, wrong case class, one-character name, unknown keyword / attribute / transform / condition operator, missing operand / bracket / `=` / '
	'final line end, member outside its declaration, struct without members, wrong attribute arity) x every applicable site (quick tier: up to 4 '
	'sites per document and operator, chosen from VERIF_SEED); plus the three operators that move a line end (join-lines / join-lines-flush: the '
	'line end between two neighbouring lines removed, indentation of the second kept / dropped, sampled per class of the two lines - code, comment, '
	'attribute, header, member, import, blank; split-line: a line end inserted in front of a token) and the three near-miss operators built from '
	'the legal spellings (near-miss-spacing: the blank of `not in` / `not equals` / `not pad_last` / `abstract struct` / `inline struct` removed, '
	'doubled, turned into a tab; respace: the same at every gap between two tokens, a blank inserted where there is none; near-miss-word: every word '
	'of the grammar capitalised, upper-cased, truncated, doubled) and the width sweep (every integer type in a type position - alias, enum base, '
	'member type, array element, sizeof, make_const, make_reserved - with both signs and every width 0..140 other than 8/16/32/64, 256, 512 and '
	'leading-zero spellings such as uint08, int016, uint0064; quick tier: the neighbours 9, 12, 15, 17, 23, 24, 33, 39, 65, 71, 72, one '
	'leading-zero spelling and four more widths per document), whose results are ill-formed exactly when the '
	'Lean language model rejects them. A case is distinct by the corrupted text; non-trivial = the real parser ran on it. '
	'Command line: the corrupted text as a file reached through imports of a valid root, in six layouts: nested directory; a name that differs '
	'only in letter case from an earlier well-formed import, from the root, in a directory component; a name equal to an earlier one only under '
	'case folding / unicode normalisation.')
TRUSTED_BASE = [
	'Lean 4.33 kernel; axioms of the property theorems: subset of {propext, Classical.choice, Quot.sound}',
	'hand-written model SymbolVerif/Model/Cats/{Lexer,Parser}.lean and the operator definitions Model/Cats/Corrupt.lean, tied to catbuffer.lark / '
	'CatsLarkParser.py by this differential run only (lark\'s LALR engine is not modelled)',
	'the C04 document generator; the yaml stand-in for the command-line runs',
]
ASSUMPTIONS = [
	'lark.exceptions.DedentError carries its position only as the column in its message; it is counted as a positioned rejection',
	'sites are those the operator definitions select (documented in Corrupt.lean); a corruption that happens to produce another well-formed '
	'document would be reported as a violation, none is known',
]


def reject_verdict(text):
	"""('rejected', class, line) | ('rejected-no-position', class, message) | ('accepted', descriptors)"""
	from lark.exceptions import LarkError, UnexpectedInput
	from lark.indenter import DedentError

	from .cats_common import lark_parser
	try:
		result = lark_parser().parse(text)
	except UnexpectedInput as ex:
		line = getattr(ex, 'line', None)
		column = getattr(ex, 'column', None)
		if isinstance(line, int) and isinstance(column, int) and line >= 1 and column >= 1:
			return ('rejected', type(ex).__name__, line)
		return ('rejected-no-position', type(ex).__name__, str(ex)[:120])
	except DedentError as ex:
		return ('rejected', 'DedentError', None) if 'column' in str(ex) else ('rejected-no-position', 'DedentError', str(ex)[:120])
	except LarkError as ex:
		return ('rejected-no-position', type(ex).__name__, str(ex)[:120])
	return ('accepted', repr(result)[:300])


def variants_of(ctx, operator, text):
	answer = ctx.driver.ask(f'variants {operator} {sx(text)}')
	if '-' == answer:
		return []
	result = []
	for part in answer.split(' '):
		encoded, verdict = part.split(':')
		result.append((bytes.fromhex(encoded).decode('utf8') if '-' != encoded else '', verdict))
	return result


class Corruptor:
	def __init__(self, ctx):
		self.ctx = ctx
		self.operators = ctx.driver.ask('ops').split(',')
		# operators that move a line end: not every result is ill-formed, the language model says which are
		self.arbitrated = [name for name in ctx.driver.ask('arbitrated-ops').split(',') if name]
		self.sweep_widths = ctx.driver.ask('sweep-widths').split(',')
		self.cli_by_operator = {}
		self.reported = {'corr': 0, 'property': 0}

	def fail(self, kind, what, case):
		self.reported[kind] += 1
		if self.reported[kind] <= (10 if 'corr' == kind else 30):
			self.ctx.fail(kind, what, case)

	def check_document(self, text, label, max_sites):
		ctx = self.ctx
		for operator in self.operators:
			variants = variants_of(ctx, operator, text)
			ctx.count(f'sites:{operator}', len(variants))
			if max_sites is not None and len(variants) > max_sites:
				picked = sorted(ctx.rng.sample(range(len(variants)), max_sites))
			else:
				picked = range(len(variants))
			if 'missing-final-newline' == operator and variants:
				picked = sorted(set(picked) | {len(variants) - 1})  # the end of the document is always among the sites
			for site in picked:
				corrupted, model_verdict = variants[site]
				case = {'operator': operator, 'site': site, 'document': text, 'corrupted': corrupted, 'label': label}
				verdict = reject_verdict(corrupted)
				ctx.case(corrupted, {'operator': operator, 'site': site, 'label': label, 'verdict': verdict[:2], 'model': model_verdict, 'corrupted': corrupted[:300]})
				ctx.count(f'applied:{operator}')
				ctx.count(f'verdict:{verdict[0]}:{verdict[1]}' if 'accepted' != verdict[0] else 'verdict:accepted')
				if 'accepted' == verdict[0]:
					self.fail('property', f'ill-formed document accepted (operator {operator}, site {site} of {label}): {first_difference(text, corrupted)}', case)
				elif 'rejected-no-position' == verdict[0]:
					self.fail('property', f'rejection carries no position ({verdict[1]}: {verdict[2]}) for operator {operator}, site {site} of {label}', case)
				if 'ok' == model_verdict:
					if 'accepted' != verdict[0]:
						self.fail('corr', f'model accepts a corrupted document the parser rejects (operator {operator}, site {site} of {label}): {first_difference(text, corrupted)}', case)
				elif 'rejected' == verdict[0] and verdict[2] is not None:
					ctx.count('error-line:' + ('same' if str(verdict[2]) == model_verdict else 'differs'))
				self.with_blank_lines(text, corrupted, operator, site, label)
				# the command-line / multi-file path gets a stratified sample: every operator is represented
				if 'accepted' != verdict[0]:
					at_end = 'missing-final-newline' == operator and site == len(variants) - 1
					bucket = self.cli_by_operator.setdefault(operator + (':end-of-document' if at_end else ''), [])
					if len(bucket) < 40 and (len(bucket) < 4 or ctx.rng.random() < 0.05):
						bucket.append(case)


	def check_arbitrated(self, text, label, thorough):
		"""join-lines / join-lines-flush / split-line: a line end removed between two lines (every pair of neighbours, sampled per class of
		the two lines) or inserted in front of a token. Ill-formed is what the language model rejects: the parser must reject exactly that."""
		ctx = self.ctx
		lines = text.split('\n')
		for operator in self.arbitrated:
			count = int(ctx.driver.ask(f'count {operator} {sx(text)}'))
			ctx.count(f'sites:{operator}', count)
			if operator.startswith('join-lines'):
				classes = {}
				for site in range(count):
					classes.setdefault(f'{line_kind(lines[site])}+{line_kind(lines[site + 1])}', []).append(site)
				picked = []
				for _, sites in sorted(classes.items()):
					picked += ctx.rng.sample(sites, min(len(sites), 3 if thorough else 1))
				if not thorough and len(picked) > 8:
					picked = ctx.rng.sample(picked, 8)
			elif 'width-sweep' == operator:
				# per site 2 signs x the width texts of the model; the neighbours of the supported widths and a leading-zero spelling always,
				# the other widths sampled (4 per document in quick, 40 in thorough: every width is met many times over the documents of a run), at a site and with a sign chosen at random
				classes = None
				widths = self.sweep_widths
				per_site = 2 * len(widths)
				site_count = count // per_site if per_site else 0
				picked = []
				if site_count:
					wanted = [widths.index(text) for text in ('9', '12', '15', '17', '23', '24', '33', '39', '65', '71', '72')]
					wanted.append(widths.index(ctx.rng.choice(['08', '016', '032', '0064', '008'])))
					others = [index for index in range(len(widths)) if index not in wanted]
					wanted += ctx.rng.sample(others, 40 if thorough else 4)  # (all of them per document made the thorough tier run for hours)
					for index in wanted:
						picked.append((ctx.rng.randrange(site_count) * 2 + ctx.rng.randrange(2)) * len(widths) + index)
					picked = sorted(set(picked))
			else:
				classes = None
				quota = {'near-miss-spacing': (12, 150), 'respace': (6, 60), 'near-miss-word': (8, 80)}.get(operator, (5, 60))
				picked = ctx.rng.sample(range(count), min(count, quota[1] if thorough else quota[0]))
			for site in sorted(picked):
				answer = ctx.driver.ask(f'variant {operator} {site} {sx(text)}')
				encoded, model_verdict = answer.split(':')
				corrupted = bytes.fromhex(encoded).decode('utf8') if '-' != encoded else ''
				verdict = reject_verdict(corrupted)
				kind = f'{line_kind(lines[site])}+{line_kind(lines[site + 1])}' if classes is not None else 'site'
				case = {'operator': operator, 'site': site, 'document': text, 'corrupted': corrupted, 'label': label, 'class': kind}
				ctx.case(corrupted, {'operator': operator, 'site': site, 'label': label, 'verdict': verdict[:2], 'model': model_verdict, 'class': kind})
				ctx.count(f'applied:{operator}')
				ctx.count(f'{operator}:{kind}:{"ill-formed" if "ok" != model_verdict else "well-formed"}')
				if 'ok' != model_verdict:
					if 'accepted' == verdict[0]:
						self.fail('property', (
							f'ill-formed document accepted (operator {operator}, site {site} of {label}, lines {kind}; the language model rejects it at '
							f'line {model_verdict}): {first_difference(text, corrupted)}'), case)
					elif 'rejected-no-position' == verdict[0]:
						self.fail('property', f'rejection carries no position ({verdict[1]}: {verdict[2]}) for operator {operator}, site {site} of {label}', case)
					else:
						bucket = self.cli_by_operator.setdefault(f'{operator}:{kind}' if classes is not None and 'comment' in kind else operator, [])
						if len(bucket) < 40 and (len(bucket) < 4 or ctx.rng.random() < 0.05):
							bucket.append(case)
				elif 'accepted' != verdict[0] and 'UnexpectedToken' == verdict[1] and c04.is_quirk_site(corrupted, verdict[2]):
					# the known lexing defect (C04:comment-before-member-keyword-prefix): the move put a comment in front of `inline X` / a keyword-like name
					ctx.count('moved-line-end:known-defect-comment-before-keyword-like-member')
				elif 'accepted' != verdict[0]:
					self.fail('corr', (
						f'model accepts a document with a moved line end that the parser rejects ({verdict[1]}; operator {operator}, site {site} of {label}, '
						f'lines {kind}): {first_difference(text, corrupted)}'), case)

	def with_blank_lines(self, text, corrupted, operator, site, label):
		"""the same corruption with whitespace-only lines next to it; the language model arbitrates what is ill-formed"""
		import json
		ctx = self.ctx
		for where, derived in blank_line_variants(text, corrupted, ctx.rng):
			answer = json.loads(ctx.driver.ask(f'parse {sx(derived)}'))
			verdict = reject_verdict(derived)
			ctx.case(derived, None)
			ctx.count(f'blank-line-next-to-corruption:{where}:{"model-rejects" if not answer["ok"] else "model-accepts"}')
			case = {'operator': operator, 'site': site, 'document': text, 'corrupted': derived, 'label': label, 'blank_line': where}
			if not answer['ok'] and 'accepted' == verdict[0]:
				self.fail('property', (
					f'ill-formed document accepted once a whitespace-only line stands {where} the corrupted line (operator {operator}, site {site} of {label}): '
					f'{first_difference(text, derived)}'), case)
			elif answer['ok'] and 'accepted' != verdict[0]:
				self.fail('corr', f'model accepts a corrupted document with a whitespace-only line {where} the corruption, the parser rejects it ({verdict[1]})', case)


def line_kind(line):
	"""what a physical line is, for the classes of the join operators"""
	stripped = line.strip()
	if not stripped:
		return 'blank'
	if stripped.startswith('#'):
		return 'comment'
	if stripped.startswith('@'):
		return 'attribute'
	if line[0] in ' \t':
		return 'member'
	for keyword, kind in (('import', 'import'), ('using', 'alias'), ('enum', 'header'), ('struct', 'header'), ('abstract', 'header'), ('inline', 'header')):
		if stripped.startswith(keyword):
			return kind
	return 'other'


def blank_line_variants(original, corrupted, rng):
	"""The corrupted text with one whitespace-only line (tabs / blanks, also two such lines) put directly before, and directly
	after, the first line the corruption touched. Blank lines are trivia: they must not turn an ill-formed text into an accepted one."""
	newline = '\r\n' if '\r\n' in original else '\n'
	before, after = original.split('\n'), corrupted.split('\n')
	index = next((i for i, (left, right) in enumerate(zip(before, after)) if left != right), min(len(before), len(after)) - 1)
	result = []
	for position in (index, index + 1):
		if not 0 < position < len(after):
			continue
		filler = rng.choice([['\t'], ['    '], ['  '], ['\t', '\t'], ['  ', '  '], [' \t '], ['\t\t']])
		lines = after[:position] + [line + ('\r' if '\r\n' == newline else '') for line in filler] + after[position:]
		result.append(('before' if position == index else 'after', '\n'.join(lines)))
	return result


def first_difference(original, corrupted):
	before, after = original.split('\n'), corrupted.split('\n')
	for index, (left, right) in enumerate(zip(before, after)):
		if left != right:
			return f'line {index + 1}: {left!r} -> {right!r}'
	return f'{len(before)} -> {len(after)} lines; tail {corrupted[-40:]!r}'


def command_line(ctx, corruptor, how_many, subprocesses):
	"""a corrupted file reached through an import: non-zero exit status, no output file."""
	impl = c17.Implementation(ctx)
	ctx.notes.append(f'yaml for the CLI runs: {impl.yaml_kind}')
	# round-robin over the operators so that each corruption class reaches the multi-file parser and the CLI
	buckets = [list(bucket) for _, bucket in sorted(corruptor.cli_by_operator.items())]
	for bucket in buckets:
		ctx.rng.shuffle(bucket)
	pool = []
	while any(buckets):
		for bucket in buckets:
			if bucket:
				pool.append(bucket.pop())
	distinct_names = c17.probe_file_system(os.path.join(ctx.tmpdir(), 'fs-probe'))
	if not distinct_names:
		ctx.notes.append('the scratch file system folds letter case: the colliding-name layouts of the command-line sample are skipped')
	layouts = list(CLI_LAYOUTS) if distinct_names else ['nested']
	for number, case in enumerate(pool[:how_many]):
		cli_case(ctx, impl, case, number, layouts[number % len(layouts)], number < subprocesses)


# where the corrupted text stands among the files of the run: (files {relative path: text, CORRUPTED marks the corrupted one}, root)
IMPORT_LINE = re.compile(r'^import "([^"\\]+)"', re.MULTILINE)
CORRUPTED = object()
CLI_LAYOUTS = {
	# reached through two imports, in a sub-directory
	'nested': ({
		'sub/child.cats': CORRUPTED, 'middle.cats': 'import "sub/child.cats"\nusing MiddleType = uint16\n',
		'root.cats': 'using RootFirst = uint8\nimport "middle.cats"\nusing RootType = uint8\n'}, 'root.cats'),
	# its name differs only in letter case from a well-formed file imported before it
	'case-after-wellformed': ({
		'types.cats': 'using TypesType = uint16\n', 'Types.cats': CORRUPTED,
		'root.cats': 'import "types.cats"\nusing RootFirst = uint8\nimport "Types.cats"\nusing RootType = uint8\n'}, 'root.cats'),
	# ... from the root file itself
	'case-of-root': ({'ALL.cats': CORRUPTED, 'all.cats': 'using RootFirst = uint8\nimport "ALL.cats"\nusing RootType = uint8\n'}, 'all.cats'),
	# ... in a directory name, met deeper in the import graph, the import spelled with `./`
	'case-of-directory': ({
		'sub/child.cats': 'using ChildType = uint16\n', 'SUB/child.cats': CORRUPTED,
		'middle.cats': 'import "./SUB/child.cats"\nusing MiddleType = uint16\n',
		'root.cats': 'import "sub/child.cats"\nimport "middle.cats"\nusing RootType = uint8\n'}, 'root.cats'),
	# its name equals the name of a well-formed file under case folding / unicode normalisation only
	'casefold-unicode': ({
		'stra\u00dfe.cats': 'using StreetType = uint16\n', 'strasse.cats': CORRUPTED,
		'caf\u00e9.cats': 'using CoffeeType = uint16\n',
		'root.cats': 'import "stra\u00dfe.cats"\nimport "caf\u00e9.cats"\nimport "zz/../strasse.cats"\nusing RootType = uint8\n'}, 'root.cats'),
	'unicode-normal-form': ({
		'caf\u00e9.cats': 'using CoffeeType = uint16\n', 'cafe\u0301.cats': CORRUPTED,
		'root.cats': 'import "caf\u00e9.cats"\nimport "cafe\u0301.cats"\nusing RootType = uint8\n'}, 'root.cats'),
}


def cli_case(ctx, impl, case, number, layout, as_subprocess):
	directory = os.path.join(ctx.tmpdir(), f'cli{number}')
	files, root = CLI_LAYOUTS[layout]
	os.makedirs(os.path.join(directory, 'inc', 'zz'), exist_ok=True)
	# what the document imports exists and is well formed: the corrupted file is the only reason for a rejection
	for index, imported in enumerate(IMPORT_LINE.findall(case.get('document', ''))):
		target = os.path.normpath(os.path.join(directory, 'inc', imported))
		if target.startswith(os.path.join(directory, 'inc') + os.sep) and os.path.relpath(target, os.path.join(directory, 'inc')) not in files:
			os.makedirs(os.path.dirname(target), exist_ok=True)
			with open(target, 'wt', encoding='utf8') as outfile:
				outfile.write(f'using ImportedStub{index} = uint8\n')
	for relative, text in files.items():
		target = os.path.join(directory, 'inc', relative)
		os.makedirs(os.path.dirname(target), exist_ok=True)
		with open(target, 'wt', encoding='utf8', newline='') as outfile:
			outfile.write(case['corrupted'] if text is CORRUPTED else text)
	output = os.path.join(directory, 'out.yaml')
	argv = ['--schema', os.path.join(directory, 'inc', root), '--include', os.path.join(directory, 'inc'), '--output', output, '--quiet']
	if as_subprocess:
		status, _, stderr = impl.subprocess_main(directory, argv)
		mode = 'subprocess'
		detail = stderr[-200:]
	else:
		status, crash, _ = impl.main(directory, argv)
		mode = 'in-process'
		detail = crash
	ctx.case(('cli', layout, case['corrupted']), {'mode': mode, 'layout': layout, 'status': status, 'operator': case['operator'], 'detail': detail})
	ctx.count(f'cli:{mode}:exit{status}')
	ctx.count(f'cli-layout:{layout}')
	# status 1 = the text was rejected; 0 and 2 (the verdict of the validator) both mean that the parser accepted the ill-formed text
	if 1 != status or os.path.exists(output):
		ctx.fail('property', (
			f'command line: a corrupted file reached through imports (layout {layout}) gave exit status {status} (1 = rejected; 0 / 2 = parsed, '
			f'then validated), output file written: {os.path.exists(output)} (operator {case["operator"]})'), dict(case, mode=mode, layout=layout))


def documents(ctx):
	"""(label, text) of the well-formed documents to corrupt"""
	rng = ctx.rng
	for path in c04.shipped_files():
		with open(path, 'rt', encoding='utf8', newline='') as infile:
			yield os.path.relpath(path, os.path.join(REPO, 'catbuffer', 'schemas')), infile.read()
	for index in range(ctx.scale(40, 1500)):
		while True:
			document = c04.gen_document(rng, False)
			if not document['quirk'] and len(document['declarations']) <= 12:
				break
		trivia = c04.Trivia(rng if index % 2 else None)
		yield f'generated-{index}', c04.render_document(document, trivia)


def run(ctx):
	if not ctx.driver:
		ctx.notes.append('model driver unavailable: the operators are defined in Lean, nothing can be applied')
		return
	corruptor = Corruptor(ctx)
	max_sites = None if ctx.thorough else 4
	for label, text in documents(ctx):
		verdict = reject_verdict(text)
		if 'accepted' != verdict[0]:
			# (the C04 check owns this failure; here the document is simply not a starting point)
			ctx.count('skipped:base-document-rejected')
			continue
		ctx.count('documents')
		corruptor.check_document(text, label, max_sites)
		corruptor.check_arbitrated(text, label, ctx.thorough)
	command_line(ctx, corruptor, ctx.scale(40, 300), ctx.scale(6, 30))


def replay(ctx, payload):
	print(payload['what'])
	recorded = payload.get('case') or {}
	corrupted = recorded.get('corrupted')
	if corrupted is None:
		run(ctx)
		return
	if recorded.get('layout'):
		cli_case(ctx, c17.Implementation(ctx), recorded, 0, recorded['layout'], 'subprocess' == recorded.get('mode'))
		for failure in ctx.failures:
			print(f'  reproduced: {failure.what[:300]}')
	verdict = reject_verdict(corrupted)
	print(f'  implementation on the corrupted document: {verdict}')
	if 'accepted' == verdict[0]:
		ctx.fail('property', f'ill-formed document accepted (operator {recorded.get("operator")}): {first_difference(recorded.get("document", ""), corrupted)}', recorded)
	if ctx.driver:
		print(f'  model: {ctx.driver.ask("parse " + sx(corrupted))[:200]}')


MANIFEST = {
	'level_text': (
		'Lean theorems over the model of the CATS parser, Properties/C11.lean: accepted_only_wellformed with accepted_widths_supported, '
		'accepted_declared_names, accepted_attributes_and_members (for every document, whatever is accepted declares only supported widths, '
		'names in their classes with two or more characters, known operators, attributes and transforms with the right arity); '
		'parse_fail_fast / accepted_lines (for every document: one line '
		'that no line parser accepts in any context rejects the whole document, nothing is returned otherwise), '
		'missing_final_newline_rejected and leading_blank_line_rejected (all documents), and per catalogue operator a rejection theorem '
		'quantified over all well-formed names / types / numbers and an arbitrary rest of the line: using_line_rejected with the alias '
		'corollaries (bad width, one-character name, wrong case, missing `=`, missing operand), bad_width_member_rejected, '
		'one_char_member_name_rejected, wrong_case_member_name_rejected, unknown_statement_keyword_rejected, unknown_member_keyword_rejected, '
		'unknown_const_keyword_rejected, unknown_if_rejected, unknown_attribute_rejected, unknown_transform_rejected, '
		'unknown_condition_operator_rejected, missing_open_bracket_rejected, missing_close_bracket_array_rejected, wrong_arity_*_rejected; second '
		'round, per remaining site: enum_name_rejected, struct_name_rejected, bad_width_enum_base_rejected, missing_operand_enum_base_rejected, '
		'unknown_struct_after_modifier_rejected (abstract xstruct), unknown_transform_later_rejected (any later comparer entry), '
		'missing_bracket_make_const_rejected, missing_bracket_binary_fixed_rejected, missing_close_bracket_reserved_sizeof_rejected, '
		'missing_close_bracket_size_rejected, missing_bracket_attribute_rejected and wrong_arity_fixed_rejected (instances), '
		'bad_width_{array_element,sizeof,make_reserved,make_const}_rejected, missing_operand_{member,constant}_rejected, '
		'missing_equals_{member,constant}_rejected, condition_operator_not_a_spelling_rejected / near_miss_condition_operator_rejected (any operator text '
		'that is not one of the four one-token spellings, e.g. notin, not  in, Equals), join_code_comment_rejected (a code line that swallowed the following comment line: plain '
		'members, enum values, enum / struct headers, integer aliases with `#...` on the same line are accepted in no context); and '
		'on printed documents empty_struct_rejected and dedented_member_rejected (with member_outside_declaration_rejected). The operators '
		'themselves are defined in Model/Cats/Corrupt.lean. Model and operators are tied to catbuffer.lark / CatsLarkParser.py by a differential '
		'run: every shipped .cats file and generated documents x 14 operators x applicable sites must be rejected by lark with a position; x 3 '
		'operators that move a line end (join-lines, join-lines-flush, split-line) and 3 near-miss operators (near-miss-spacing, respace, '
		'near-miss-word) and the width sweep (both signs x every width 0..140 but 8/16/32/64, 256, 512, leading-zero spellings, at every site '
		'kind of an integer type), where lark must reject exactly what the Lean language model rejects; and '
		'through `python -m catparser` a corrupted file reached by import must give a non-zero exit status and no output file.'),
	'level_note': (
		'Trusted: Lean kernel + {propext, Classical.choice, Quot.sound}; hand-written model and operator definitions tied by differential execution '
		'only; lark\'s LALR engine is not modelled. The theorems are about line shapes / printed documents, not about the text surgery of '
		'Corrupt.variants (tied by the run only); sites without a theorem are listed in the header of Properties/C11.lean. DedentError carries '
		'only a column in its message.'),
	'technique': 'Lean 4 theorems over a hand-written model + differential correspondence with the Python implementation',
}

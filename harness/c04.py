"""C04 - parser descriptors state exactly what a CATS document declares.

Correspondence: Model/Cats/{Lexer,Parser,Printer}.lean (through driver_c04) against create_cats_lark_parser().parse(text),
node.to_legacy_descriptor() and str(node); direct evaluation of the property on the implementation against descriptors
computed from the generated document structure by an independent oracle (`expected_descriptor`), plus print-and-reparse.
"""
import glob
import json
import os
import re

from . import cats_json
from .common import REPO, sx

RULE = (
	'grammar-directed generation from VERIF_SEED of whole documents: any mix/order of aliases (all 8 integer types, binary_fixed), enums '
	'(with/without @is_bitwise, members, comments) and structs (abstract/inline/plain, all 6 struct attribute forms, every member form: plain '
	'integer/named/array counted, sized (@is_byte_constrained), fill; const/reserved with integer or enum constant; sizeof; named and unnamed '
	'inline; conditional with each of the 4 operators and numeric/constant values; every field attribute form; __value__), imports, attached '
	'multi-line comments with empty lines, unattached comments, blank lines (also with blanks), LF/CRLF, tab/4-space indentation (also mixed), '
	'decimal/hex numerals with leading zeros, tight/loose token spacing, trailing blanks; each document structure is rendered twice (canonical '
	'and random trivia); plus every shipped .cats file individually. A case is distinct by its text; non-trivial = the real parser ran on it.')
TRUSTED_BASE = [
	'Lean 4.33 kernel; axioms of the property theorems: subset of {propext, Classical.choice, Quot.sound}',
	'hand-written model SymbolVerif/Model/Cats/{Lexer,Parser,Printer}.lean and cats-a\'s Syntax.lean, tied to catbuffer.lark / CatsLarkParser.py / '
	'ast.py by this differential run only; lark\'s LALR engine and contextual lexer are not modelled, only the language and the objects',
	'the harness generator/oracle (expected_descriptor, comment normalisation) and the printer mirror real_print',
	'wire format harness/cats_json.py <-> lean/Driver/CatsWire.lean',
]
ASSUMPTIONS = [
	'documents are Unicode text without NUL; generated comments are ASCII plus a few non-ASCII letters',
	'print-and-reparse uses the printer of DESIGN.md C04 (nodes\' own __str__, header note dropped, comments as # lines)',
	'print-and-reparse is evaluated for documents with at least one declaration whose structs have at least one member (a struct body holding only '
	'comments, or only the indentation before the end of the input, is accepted by the grammar and prints as a bare header)',
]

SIG_CRLF = 'C04:crlf-comment-keeps-carriage-return'
SIG_QUIRK = 'C04:comment-before-member-keyword-prefix'
SIG_NONE = 'C04:attribute-str-prints-None'
SIG_NOT = 'C04:attribute-str-drops-property-named-not'

INT_TYPES = [(unsigned, size) for unsigned in (True, False) for size in (1, 2, 4, 8)]


def int_name(int_type):
	return ('u' if int_type[0] else '') + f'int{8 * int_type[1]}'


# region document structures


WORDS = ['alpha', 'beta', 'gamma', 'delta', 'size', 'count', 'array', 'in', 'if', 'not', 'sizeof', 'sort_key', 'uint8', 'equals', 'key', 'value', 'id']


def gen_property_name(rng, taken):
	for _ in range(100):
		pick = rng.random()
		if pick < 0.25:
			name = rng.choice(WORDS)
		else:
			name = rng.choice('abcdefghijklmnopqrstuvwxyz') + ''.join(rng.choice('abcdefghijklmnopqrstuvwxyz0123456789_') for _ in range(rng.choice([1, 1, 2, 5, 9, 20])))
		if 'inline' == name or name in taken:
			continue
		if name.startswith('inline') or name.startswith('abstract') or name in ('import', 'struct', 'using', 'enum'):
			continue  # such names are generated on purpose only (see quirk documents)
		taken.add(name)
		return name
	raise RuntimeError('name space exhausted')


def gen_type_name(rng, taken):
	for _ in range(100):
		name = rng.choice('ABCDEFGHIJKLMNOPQRSTUVWXYZ') + rng.choice('abcdefghijklmnopqrstuvwxyz') + ''.join(
			rng.choice('abcdefghijklmnopqrstuvwxyzABCDEFGHIJKLMNOPQRSTUVWXYZ0123456789') for _ in range(rng.choice([0, 1, 3, 6, 12, 30])))
		if name not in taken:
			taken.add(name)
			return name
	raise RuntimeError('name space exhausted')


def gen_const_name(rng, taken):
	for _ in range(100):
		name = rng.choice('ABCDEFGHIJKLMNOPQRSTUVWXYZ') + ''.join(rng.choice('ABCDEFGHIJKLMNOPQRSTUVWXYZ0123456789_') for _ in range(rng.choice([1, 1, 2, 5, 12])))
		if name not in taken:
			taken.add(name)
			return name
	raise RuntimeError('name space exhausted')


def gen_number(rng):
	pick = rng.random()
	if pick < 0.3:
		return rng.choice([0, 1, 2, 8, 10, 15, 16, 255, 256, 65535, 0xFFFFFFFF, (1 << 64) - 1, 1 << 70])
	return rng.randrange(1 << rng.choice([3, 8, 16, 32, 64]))


COMMENT_WORDS = ['the', 'size', 'of', 'entity', '[key]', 'mosaic', 'id;', 'note:', 'x', 'see', '#tag', 'a-b', 'üñí', '(optional)', '0x1F', 'if', 'struct']


def gen_comment(rng, probability):
	"""list of raw comment lines (the text after the first '#'), or None"""
	if rng.random() >= probability:
		return None
	lines = []
	for _ in range(rng.choice([1, 1, 1, 2, 3, 5])):
		pick = rng.random()
		if pick < 0.15:
			lines.append(rng.choice(['', ' ', '\t', '#', ' # ']))
		else:
			text = ' '.join(rng.choice(COMMENT_WORDS) for _ in range(rng.randint(1, 6)))
			lines.append(rng.choice([' ', ' ', '', '  ', '\t', '# ']) + text + rng.choice(['', '', ' ', ' #', '\t']))
	return lines


CARRIAGE_RETURN_DEFECT = [False]  # switched on only to recognise the known finding SIG_CRLF


def normalise_comment(lines):
	"""what the documentation of a declaration is: lines stripped of '#', blanks and tabs, joined by one blank; an empty line is a line break"""
	parsed = ''
	separator = False
	for line in lines:
		text = ('#' + line + ('\r' if CARRIAGE_RETURN_DEFECT[0] else '')).strip('# \t')
		if not text:
			parsed += '\n'
			separator = False
		else:
			parsed += (' ' if separator else '') + text
			separator = True
	return parsed


def gen_condition(rng, taken):
	value = gen_number(rng) if rng.random() < 0.5 else gen_const_name(rng, set())
	return {'value': value, 'op': rng.choice(['equals', 'not equals', 'in', 'not in']), 'field': rng.choice(sorted(taken)) if taken and rng.random() < 0.7 else gen_property_name(rng, set())}


def gen_field_attributes(rng, is_array):
	if rng.random() < (0.5 if is_array else 0.15):
		attributes = []
		for _ in range(rng.choice([1, 1, 2, 3])):
			kind = rng.choice(['is_byte_constrained', 'alignment', 'sort_key', 'sizeref'])
			if 'alignment' == kind:
				attributes.append({'name': kind, 'value': gen_number(rng), 'option': rng.choice([None, 'pad_last', 'not pad_last'])})
			elif 'sort_key' == kind:
				attributes.append({'name': kind, 'property': gen_property_name(rng, set())})
			elif 'sizeref' == kind:
				attributes.append({'name': kind, 'property': gen_property_name(rng, set()), 'delta': None if rng.random() < 0.4 else gen_number(rng)})
			else:
				attributes.append({'name': kind})
		return attributes
	return None


def gen_member(rng, taken, type_names, quirk):
	kind = rng.choice(['plain', 'plain', 'plain', 'array', 'array', 'const', 'reserved', 'sizeof', 'inline_named', 'inline', 'conditional', 'value'])
	member = {'kind': kind, 'comment': gen_comment(rng, 0.3), 'attributes': None}

	def some_type():
		return ('int', rng.choice(INT_TYPES)) if rng.random() < 0.5 else ('named', rng.choice(type_names) if type_names and rng.random() < 0.7 else gen_type_name(rng, set()))

	if 'inline' == kind:
		member['type'] = rng.choice(type_names) if type_names and rng.random() < 0.7 else gen_type_name(rng, set())
		if not quirk:
			member['comment'] = None  # a commented unnamed inline is generated in quirk documents only
		return member
	if 'const' == kind:
		member['name'] = gen_const_name(rng, taken)
	elif 'value' == kind:
		if '__value__' in taken:
			kind = member['kind'] = 'plain'
			member['name'] = gen_property_name(rng, taken)
		else:
			taken.add('__value__')
			member['name'] = '__value__'
	else:
		member['name'] = gen_property_name(rng, taken)
		if quirk and rng.random() < 0.3:
			member['name'] = rng.choice(['inline_x', 'abstract', 'abstract_type', 'using', 'enum', 'struct', 'import', 'inlined'])
	if kind in ('const', 'reserved'):
		if rng.random() < 0.5:
			member['type'] = ('int', rng.choice(INT_TYPES))
			member['value'] = gen_number(rng)
		else:
			member['type'] = ('named', gen_type_name(rng, set()))
			member['value'] = gen_const_name(rng, set())
	elif 'sizeof' == kind:
		member['type'] = ('int', rng.choice(INT_TYPES))
		candidates = sorted(name for name in taken if name[0].islower())
		member['value'] = rng.choice(candidates) if candidates and rng.random() < 0.5 else gen_property_name(rng, set())
	elif 'inline_named' == kind:
		member['type'] = ('named', gen_type_name(rng, set()))
	else:
		if 'array' == kind or ('value' == kind and rng.random() < 0.3) or ('conditional' == kind and rng.random() < 0.3):
			size = rng.choice(['number', 'name', 'fill'])
			member['type'] = ('array', {
				'elem': some_type(),
				'size': gen_number(rng) if 'number' == size else '__FILL__' if 'fill' == size else gen_property_name(rng, set())})
		else:
			member['type'] = some_type()
		member['condition'] = gen_condition(rng, {name for name in taken if name[0].islower()}) if 'conditional' == kind or rng.random() < 0.1 else None
		member['attributes'] = gen_field_attributes(rng, 'array' == member['type'][0])
	return member


def gen_struct_attributes(rng):
	if rng.random() < 0.6:
		return None
	attributes = []
	for _ in range(rng.choice([1, 1, 2, 3, 5])):
		kind = rng.choice(['is_aligned', 'is_size_implicit', 'size', 'initializes', 'discriminator', 'comparer'])
		if kind in ('is_aligned', 'is_size_implicit'):
			attributes.append({'name': kind})
		elif 'size' == kind:
			attributes.append({'name': kind, 'property': gen_property_name(rng, set())})
		elif 'initializes' == kind:
			attributes.append({'name': kind, 'property': gen_property_name(rng, set()), 'constant': gen_const_name(rng, set())})
		elif 'discriminator' == kind:
			attributes.append({'name': kind, 'properties': [gen_property_name(rng, set()) for _ in range(rng.choice([1, 2, 3]))]})
		else:
			attributes.append({'name': kind, 'entries': [
				(gen_property_name(rng, set()), 'ripemd_keccak_256' if rng.random() < 0.4 else None) for _ in range(rng.choice([1, 2, 3]))]})
	return attributes


def gen_declaration(rng, type_names, quirk, max_members):
	kind = rng.choice(['alias', 'enum', 'struct', 'struct'])
	name = gen_type_name(rng, set(type_names))
	type_names.append(name)
	declaration = {'kind': kind, 'name': name, 'comment': gen_comment(rng, 0.4)}
	if 'alias' == kind:
		declaration['type'] = ('int', rng.choice(INT_TYPES)) if rng.random() < 0.6 else ('buffer', gen_number(rng))
	elif 'enum' == kind:
		declaration['base'] = rng.choice(INT_TYPES)
		declaration['bitwise'] = rng.choice([0, 0, 1, 1, 2])
		taken = set()
		declaration['values'] = [
			{'name': gen_const_name(rng, taken), 'value': gen_number(rng), 'comment': gen_comment(rng, 0.3)} for _ in range(rng.choice([0, 1, 2, 3, 6, max_members]))]
	else:
		declaration['disposition'] = rng.choice([None, None, 'abstract', 'inline'])
		declaration['attributes'] = gen_struct_attributes(rng)
		taken = set()
		declaration['members'] = [gen_member(rng, taken, type_names[:-1], quirk) for _ in range(rng.choice([1, 1, 2, 3, 5, max_members]))]
	return declaration


def gen_document(rng, thorough):
	pick = rng.random()
	if thorough and pick < 0.01:
		count = rng.choice([100, 250, 400])
	else:
		count = rng.choice([1, 1, 2, 3, 5, 8, 12])
	quirk = rng.random() < 0.04
	type_names = []
	declarations = [gen_declaration(rng, type_names, quirk, 12 if count < 50 else 4) for _ in range(count)]
	imports = [f'{rng.choice(["types", "entity", "sub/dir"])}/{rng.choice(["a", "b_c", "x1"])}.cats' for _ in range(rng.choice([0, 0, 0, 1, 2]))]
	return {'imports': imports, 'declarations': declarations, 'quirk': quirk}


# endregion

# region oracle: what the document declares


def expected_int(int_type):
	return {'size': int_type[1], 'type': 'byte', 'signedness': 'unsigned' if int_type[0] else 'signed'}


def with_comment(comment, descriptor):
	return descriptor if comment is None else {'comments': normalise_comment(comment), **descriptor}


def expected_member(member):
	# pylint: disable=too-many-branches
	kind = member['kind']
	if 'inline' == kind:
		return with_comment(member['comment'], {'type': member['type'], 'disposition': 'inline'})
	descriptor = {'name': member['name']}
	type_kind, type_value = member['type']
	if 'int' == type_kind:
		descriptor.update(expected_int(type_value))
	elif 'named' == type_kind:
		descriptor['type'] = type_value
	else:
		size = type_value['size']
		descriptor['disposition'] = 'array fill' if '__FILL__' == size else 'array'
		descriptor['size'] = 0 if '__FILL__' == size else size
		elem_kind, elem = type_value['elem']
		if 'int' == elem_kind:
			descriptor['element_disposition'] = {'size': elem[1], 'signedness': 'unsigned' if elem[0] else 'signed'}
			descriptor['type'] = 'byte'
		else:
			descriptor['type'] = elem
	if kind in ('const', 'reserved', 'sizeof'):
		descriptor['value'] = member['value']
		descriptor['disposition'] = kind
	elif 'inline_named' == kind:
		descriptor['disposition'] = 'inline'
	elif member.get('condition'):
		condition = member['condition']
		descriptor.update({'condition': condition['field'], 'condition_operation': condition['op'], 'condition_value': condition['value']})
	return with_comment(member['comment'], descriptor)


class Inapplicable(Exception):
	"""a member attribute that the type of the member does not have (apply_attributes raises AstException)"""


def expected_applied_member(member):
	"""the descriptor of a member once its attribute lines are applied (`AstPostProcessor.apply_attributes`), from the generated structure:
	integers take `@sizeref(p[, n])`; arrays take `@is_byte_constrained`, `@alignment(n[, [not] pad_last])`, `@sort_key(p)`; the kind of an array is
	`array fill` when its size is `__FILL__` (whatever its attributes), else `array sized` when `@is_byte_constrained` is among them, else `array`;
	a later attribute of the same name overrides an earlier one; any other pairing is an error."""
	descriptor = expected_member(member)
	if not member.get('attributes'):
		return descriptor
	type_kind, type_value = member['type']
	for attribute in member['attributes']:
		name = attribute['name']
		if 'int' == type_kind and 'sizeref' == name:
			descriptor['sizeref'] = {'property_name': attribute['property'], 'delta': attribute['delta'] if attribute['delta'] is not None else 0}
		elif 'array' == type_kind and 'is_byte_constrained' == name:
			if '__FILL__' != type_value['size']:
				descriptor['disposition'] = 'array sized'
		elif 'array' == type_kind and 'sort_key' == name:
			descriptor['sort_key'] = attribute['property']
		elif 'array' == type_kind and 'alignment' == name:
			descriptor['alignment'] = attribute['value']
			descriptor['is_last_element_padded'] = 'not pad_last' != attribute['option']
		else:
			raise Inapplicable(f'{name} on {type_kind}')
	return descriptor


def expected_applied_descriptors(document):
	"""descriptors after apply_attributes, or None when some member carries an attribute its type does not have"""
	result = []
	try:
		for declaration in document['declarations']:
			descriptor = expected_descriptor(declaration)
			if 'struct' == declaration['kind']:
				layout = [expected_applied_member(member) for member in declaration['members']]
				descriptor = {**descriptor, 'layout': layout}
			result.append(descriptor)
	except Inapplicable:
		return None
	return result


def attribute_matrix_documents(rng):
	"""every array kind (counted by a number, sized by a member, __FILL__) x element type (integer, named) x every combination of the member
	attributes an array takes (with every form of @alignment), in a random order, and every integer with and without @sizeref (delta or none);
	plus each pairing the grammar admits but the type does not have."""
	alignment_forms = [None, {'option': None}, {'option': 'pad_last'}, {'option': 'not pad_last'}]
	declarations = []
	taken_types = []
	for size_kind in ('number', 'name', 'fill'):
		for elem in (('int', rng.choice(INT_TYPES)), ('named', 'ElementType')):
			members = []
			taken = set()
			for constrained in (False, True):
				for alignment in alignment_forms:
					for sorted_by in (False, True):
						attributes = []
						if constrained:
							attributes.append({'name': 'is_byte_constrained'})
						if alignment:
							attributes.append({'name': 'alignment', 'value': gen_number(rng), 'option': alignment['option']})
						if sorted_by:
							attributes.append({'name': 'sort_key', 'property': gen_property_name(rng, set())})
						rng.shuffle(attributes)
						size = gen_number(rng) if 'number' == size_kind else '__FILL__' if 'fill' == size_kind else gen_property_name(rng, set())
						members.append({
							'kind': 'array', 'comment': None, 'attributes': attributes or None, 'name': gen_property_name(rng, taken), 'condition': None,
							'type': ('array', {'elem': elem, 'size': size})})
			declarations.append({
				'kind': 'struct', 'name': gen_type_name(rng, set(taken_types)), 'comment': None, 'disposition': None, 'attributes': None, 'members': members})
			taken_types.append(declarations[-1]['name'])
	members = []
	taken = set()
	for int_type in INT_TYPES:
		for delta in ('absent', None, gen_number(rng)):
			attributes = None if 'absent' == delta else [{'name': 'sizeref', 'property': gen_property_name(rng, set()), 'delta': delta}]
			members.append({'kind': 'plain', 'comment': None, 'attributes': attributes, 'name': gen_property_name(rng, taken), 'condition': None, 'type': ('int', int_type)})
	declarations.append({'kind': 'struct', 'name': gen_type_name(rng, set(taken_types)), 'comment': None, 'disposition': None, 'attributes': None, 'members': members})
	documents = [{'imports': [], 'declarations': [declaration], 'quirk': False} for declaration in declarations]
	documents.append({'imports': [], 'declarations': declarations, 'quirk': False})
	# pairings the type does not have: apply_attributes must refuse them
	for type_pair, attribute in (
			(('int', INT_TYPES[0]), {'name': 'alignment', 'value': 8, 'option': None}), (('int', INT_TYPES[1]), {'name': 'is_byte_constrained'}),
			(('int', INT_TYPES[2]), {'name': 'sort_key', 'property': 'ab'}), (('named', 'OtherType'), {'name': 'sizeref', 'property': 'ab', 'delta': None}),
			(('named', 'OtherType'), {'name': 'is_byte_constrained'}),
			(('array', {'elem': ('int', INT_TYPES[0]), 'size': 4}), {'name': 'sizeref', 'property': 'ab', 'delta': 1})):
		member = {'kind': 'plain', 'comment': None, 'attributes': [attribute], 'name': 'member_x', 'condition': None, 'type': type_pair}
		documents.append({'imports': [], 'quirk': False, 'declarations': [
			{'kind': 'struct', 'name': 'HolderType', 'comment': None, 'disposition': None, 'attributes': None, 'members': [member]}]})
	return documents


def expected_descriptor(declaration):
	kind = declaration['kind']
	if 'alias' == kind:
		type_kind, type_value = declaration['type']
		body = expected_int(type_value) if 'int' == type_kind else {'size': type_value, 'type': 'byte', 'signedness': 'unsigned'}
		return with_comment(declaration['comment'], {'name': declaration['name'], **body})
	if 'enum' == kind:
		descriptor = {
			'name': declaration['name'], 'type': 'enum', 'size': declaration['base'][1], 'signedness': 'unsigned' if declaration['base'][0] else 'signed',
			'values': [with_comment(value['comment'], {'name': value['name'], 'value': value['value']}) for value in declaration['values']]}
		if declaration['bitwise']:
			descriptor['is_bitwise'] = True
		return with_comment(declaration['comment'], descriptor)
	descriptor = {'name': declaration['name'], 'type': 'struct', 'layout': [expected_member(member) for member in declaration['members']]}
	if declaration['disposition']:
		descriptor['disposition'] = declaration['disposition']
	attributes = declaration['attributes'] or []

	def first(name):
		return next((attribute for attribute in attributes if name == attribute['name']), None)

	for flag in ('is_aligned', 'is_size_implicit'):
		if first(flag):
			descriptor[flag] = True
	if first('size'):
		descriptor['size'] = first('size')['property']
	if first('discriminator'):
		descriptor['discriminator'] = first('discriminator')['properties']
	if first('comparer'):
		descriptor['comparer'] = [{'name': name, 'transform': transform} for name, transform in first('comparer')['entries']]
	initializers = [{'target_property_name': attribute['property'], 'value': attribute['constant']} for attribute in attributes if 'initializes' == attribute['name']]
	if initializers:
		descriptor['initializers'] = initializers
	return with_comment(declaration['comment'], descriptor)


# endregion

# region rendering with trivia


class Trivia:
	"""the choices that must not matter"""

	def __init__(self, rng=None):
		self.rng = rng
		self.newline = '\n' if rng is None else rng.choice(['\n', '\n', '\r\n'])
		self.indent_style = 'tab' if rng is None else rng.choice(['tab', 'tab', 'spaces', 'mixed'])

	def chance(self, probability):
		return self.rng is not None and self.rng.random() < probability

	def indent(self):
		if 'mixed' == self.indent_style:
			return self.rng.choice(['\t', '    '])
		return '\t' if 'tab' == self.indent_style else '    '

	def number(self, value):
		if self.rng is None:
			return str(value)
		pick = self.rng.random()
		if pick < 0.4:
			return f'0x{value:X}'
		if pick < 0.5:
			return f'0x{self.rng.choice(["0", "00"])}{value:X}'
		if pick < 0.6:
			return f'{self.rng.choice(["0", "000"])}{value}'
		return str(value)

	def gap(self):
		"""between a word and punctuation, where blanks are optional"""
		if self.rng is None:
			return None
		return self.rng.choice(['', '', ' ', ' ', '  ', '\t'])

	def punct(self, symbol, canonical):
		gap = self.gap()
		if gap is None:
			return canonical
		return gap + symbol + self.gap()

	def blank_lines(self, probability=0.3):
		if self.chance(probability):
			return [self.rng.choice(['', '', ' ', '\t', '    ']) for _ in range(self.rng.choice([1, 1, 2, 3]))]
		return []

	def trailing(self):
		return self.rng.choice([' ', '  ', '\t']) if self.chance(0.1) else ''


def render_value(trivia, value):
	return trivia.number(value) if isinstance(value, int) else value


def render_type(trivia, type_pair):
	kind, value = type_pair
	if 'int' == kind:
		return int_name(value)
	if 'named' == kind:
		return value
	if 'buffer' == kind:
		return 'binary_fixed' + trivia.punct('(', '(') + trivia.number(value) + trivia.punct(')', ')').rstrip()
	return (
		'array' + trivia.punct('(', '(') + render_type(trivia, value['elem']) + trivia.punct(',', ', ') + render_value(trivia, value['size'])
		+ trivia.punct(')', ')').rstrip())


def render_attribute(trivia, attribute):
	# pylint: disable=too-many-return-statements
	name = attribute['name']
	open_paren, comma, close_paren = (lambda: trivia.punct('(', '(')), (lambda: trivia.punct(',', ', ')), (lambda: trivia.punct(')', ')').rstrip())
	at_sign = '@' + (trivia.gap() or '')
	if name in ('is_aligned', 'is_size_implicit', 'is_byte_constrained', 'is_bitwise'):
		return at_sign + name
	if name in ('size', 'sort_key'):
		return at_sign + name + open_paren() + attribute['property'] + close_paren()
	if 'initializes' == name:
		return at_sign + name + open_paren() + attribute['property'] + comma() + attribute['constant'] + close_paren()
	if 'discriminator' == name:
		return at_sign + name + open_paren() + comma().join(attribute['properties']) + close_paren()
	if 'comparer' == name:
		parts = [entry + (trivia.punct('!', '!') + transform if transform else '') for entry, transform in attribute['entries']]
		return at_sign + name + open_paren() + comma().join(parts) + close_paren()
	if 'alignment' == name:
		option = '' if attribute['option'] is None else comma() + attribute['option']
		return at_sign + name + open_paren() + trivia.number(attribute['value']) + option + close_paren()
	delta = '' if attribute['delta'] is None else comma() + trivia.number(attribute['delta'])
	return at_sign + name + open_paren() + attribute['property'] + delta + close_paren()


def render_comment(comment, indent):
	return [] if comment is None else [f'{indent}#{line}' for line in comment]


def render_member(trivia, member):
	lines = render_comment(member['comment'], '')
	kind = member['kind']
	equals = lambda: trivia.punct('=', ' = ')  # noqa: E731 pylint: disable=unnecessary-lambda-assignment
	if 'inline' == kind:
		return lines + ['inline ' + member['type']]
	for attribute in member.get('attributes') or []:
		lines.append(render_attribute(trivia, attribute))
	if kind in ('const', 'reserved'):
		body = (
			f'make_{kind}' + trivia.punct('(', '(') + render_type(trivia, member['type']) + trivia.punct(',', ', ') + render_value(trivia, member['value'])
			+ trivia.punct(')', ')').rstrip())
	elif 'sizeof' == kind:
		body = 'sizeof' + trivia.punct('(', '(') + render_type(trivia, member['type']) + trivia.punct(',', ', ') + member['value'] + trivia.punct(')', ')').rstrip()
	elif 'inline_named' == kind:
		body = 'inline ' + member['type'][1]
	else:
		body = render_type(trivia, member['type'])
		condition = member.get('condition')
		if condition:
			body += f' if {render_value(trivia, condition["value"])} {condition["op"]} {condition["field"]}'
	return lines + [member['name'] + equals() + body]


def render_document(document, trivia):
	"""text of the document; unattached comments and blank lines are added by the trivia"""
	# pylint: disable=too-many-branches
	lines = []
	first = True

	def free_comment(indent):
		# a comment that attaches to nothing: it is followed by an empty line and another comment, or by an import, or ends a block
		return [f'{indent}# free comment {trivia.rng.randrange(100)}']

	for path in document['imports']:
		if trivia.chance(0.3) and not first:
			lines += trivia.blank_lines(1.0)
		if trivia.chance(0.2):
			lines += free_comment('')
		lines.append('import' + (trivia.gap() if trivia.rng and trivia.chance(0.3) else ' ') + f'"{path}"')
		first = False
	for declaration in document['declarations']:
		if not first:
			lines += trivia.blank_lines(0.6) if trivia.rng else ['']
		first = False
		if declaration['comment'] is not None and lines and lines[-1].lstrip().startswith('#'):
			lines.append('')  # a comment that directly follows a comment line would be one comment with it
		if declaration['comment'] is not None and trivia.chance(0.15):
			lines += free_comment('') + ['']
		lines += render_comment(declaration['comment'], '')
		if declaration['comment'] is not None and trivia.chance(0.1):
			lines += trivia.blank_lines(1.0)  # an empty line between a comment and its declaration does not detach it
		kind = declaration['kind']
		if 'alias' == kind:
			lines.append('using ' + declaration['name'] + trivia.punct('=', ' = ') + render_type(trivia, declaration['type']))
			continue
		if 'enum' == kind:
			lines += ['@' + (trivia.gap() or '') + 'is_bitwise'] * declaration['bitwise']
			lines.append('enum ' + declaration['name'] + trivia.punct(':', ' : ') + int_name(declaration['base']))
			children = [
				render_comment(value['comment'], '') + [value['name'] + trivia.punct('=', ' = ') + trivia.number(value['value'])] for value in declaration['values']]
		else:
			for attribute in declaration['attributes'] or []:
				lines.append(render_attribute(trivia, attribute))
			lines.append((declaration['disposition'] + ' ' if declaration['disposition'] else '') + 'struct ' + declaration['name'])
			children = [render_member(trivia, member) for member in declaration['members']]
		for index, child in enumerate(children):
			if index and trivia.rng:
				lines += trivia.blank_lines(0.15)
			if '#' == child[0][:1] and trivia.chance(0.2):
				# one to four unattached comment blocks (separated by empty lines) in front of a documented member
				for _ in range(trivia.rng.choice([1, 1, 2, 3, 4])):
					lines += [trivia.indent() + free_comment('')[0] for _ in range(trivia.rng.choice([1, 1, 2]))] + ['']
			lines += [trivia.indent() + line for line in child]
		if children and trivia.chance(0.25):
			# one to four unattached comment blocks at the end of the body (e.g. commented-out members kept as separate blocks)
			lines += trivia.blank_lines(0.5)
			for block in range(trivia.rng.choice([1, 2, 2, 3, 4])):
				lines += ([''] if block else []) + [trivia.indent() + free_comment('')[0] for _ in range(trivia.rng.choice([1, 1, 2]))]
	if trivia.chance(0.1):
		lines += trivia.blank_lines(0.5) + free_comment('')
	text = ''.join(line + (trivia.trailing() if trivia.rng and not line.lstrip().startswith('#') else '') + trivia.newline for line in lines)
	if trivia.chance(0.1):
		text += trivia.rng.choice([trivia.newline, trivia.newline * 2, trivia.newline + ' ' + trivia.newline])
	return text


# endregion

# region the implementation and the printer mirror


def real_parse(text):
	"""('ok', nodes, imports) | ('err', class name, line)"""
	from catparser.ast import Statement
	from lark import Tree
	from lark.exceptions import LarkError

	from .cats_common import lark_parser
	try:
		result = lark_parser().parse(text)
	except LarkError as ex:
		return ('err', type(ex).__name__, getattr(ex, 'line', None))
	if isinstance(result, Statement):
		return ('ok', [result], [])
	if isinstance(result, Tree) and 'import' == result.data:
		return ('ok', [], [str(result.children[0])])
	children = result.children if isinstance(result, Tree) else [result]
	return (
		'ok', [child for child in children if isinstance(child, Statement)],
		[str(child.children[0]) for child in children if isinstance(child, Tree) and 'import' == child.data])


def comment_lines(comment):
	"""mirror of Printer.commentLinesOf"""
	if comment is None:
		return []
	lines = []
	for index, segment in enumerate(comment.parsed.split('\n')):
		if index:
			lines.append('#')
		if segment:
			lines.append('# ' + segment)
	return lines


NOTE_RE = re.compile(r'  # \d+ (value|field)\(s\)$')


def real_print(nodes):
	"""the printer of DESIGN.md C04 on real nodes: every piece of text comes from the nodes' own __str__"""
	from catparser.ast import Enum, Struct
	lines = []
	for index, node in enumerate(nodes):
		if index:
			lines.append('')
		lines += comment_lines(node.comment)
		own = str(node).split('\n')
		own[-1] = NOTE_RE.sub('', own[-1])
		lines += own
		children = node.values if isinstance(node, Enum) else node.fields if isinstance(node, Struct) else []
		for child in children:
			lines += ['\t' + line for line in comment_lines(child.comment) + str(child).split('\n')]
	return ''.join(line + '\n' for line in lines)


def print_attribute_fixed(attribute):
	"""mirror of Printer.printAttribute: None placeholders are not printed, `not` is a qualifier only inside @alignment"""
	if 'comparer' == attribute.name:
		parts = []
		for index in range(0, len(attribute.values) // 2):
			parts.append(attribute.values[2 * index] + (f'!{attribute.values[2 * index + 1]}' if attribute.values[2 * index + 1] else ''))
		return f'@{attribute.name}({", ".join(parts)})'
	if attribute.is_flag:
		return f'@{attribute.name}'
	values = []
	qualifier = ''
	for value in attribute.values:
		if 'not' == value and 'alignment' == attribute.name:
			qualifier = 'not '
		elif value is not None:
			values.append(f'{qualifier}{value}')
			qualifier = ''
	return f'@{attribute.name}({", ".join(values)})'


def fixed_print(nodes):
	"""real_print with the attribute lines printed by print_attribute_fixed (used to recognise the known printing defects)"""
	from catparser import ast
	original = ast.Attribute.__str__
	ast.Attribute.__str__ = print_attribute_fixed
	try:
		return real_print(nodes)
	finally:
		ast.Attribute.__str__ = original


def strip_cr(value):
	if isinstance(value, dict):
		return {key: (item.replace('\r', '') if 'comments' == key and isinstance(item, str) else strip_cr(item)) for key, item in value.items()}
	if isinstance(value, list):
		return [strip_cr(item) for item in value]
	return value


def render_tree(node):
	from catparser.ast import Enum, Struct
	children = node.values if isinstance(node, Enum) else node.fields if isinstance(node, Struct) else []
	return {'decl': str(node), 'children': [str(child) for child in children]}


QUIRK_WORD = re.compile(r'^(abstract|inline)|^(import|struct|using|enum)\b')


def is_quirk_site(text, line_number):
	"""the line is an indented member whose first word starts like a top-level keyword, directly after a comment line"""
	lines = text.replace('\r\n', '\n').split('\n')
	if not line_number or line_number > len(lines):
		return False
	line = lines[line_number - 1]
	if line == line.lstrip() or not QUIRK_WORD.match(line.strip()):
		return False
	previous = [candidate for candidate in lines[:line_number - 1] if candidate.strip()]
	return bool(previous) and previous[-1].lstrip().startswith('#')


# endregion


class Checker:
	def __init__(self, ctx):
		self.ctx = ctx
		self.known = {}

	def fail(self, kind, what, case):
		"""the failure list of a run is bounded: correspondence failures must not crowd out failing inputs of the property"""
		self.ctx.count(f'failures:{kind}')
		if self.ctx.counters[f'failures:{kind}'] <= (10 if 'corr' == kind else 30):
			self.ctx.fail(kind, what, case)

	def known_finding(self, signature, what, case):
		self.ctx.count(f'known-defect:{signature}')
		if signature not in self.known:
			self.known[signature] = True
			self.ctx.fail('property', what, case, signature)

	def model(self, text):
		if not self.ctx.driver:
			return None
		return json.loads(self.ctx.driver.ask('parse ' + sx(text)))

	def check_text(self, text, expected, label, document=None):
		"""one document text: real parser vs oracle (when there is one) vs model; print-and-reparse on both sides."""
		# pylint: disable=too-many-locals,too-many-branches,too-many-statements,too-many-return-statements
		ctx = self.ctx
		case = {'text': text, 'label': label}
		real = real_parse(text)
		model = self.model(text)
		ctx.case(text, {'label': label, 'text': text[:400], 'real': real[0], 'model': None if model is None else model['ok']})
		ctx.count('real:' + real[0])
		if 'err' == real[0]:
			if expected is not None:
				if 'UnexpectedToken' == real[1] and is_quirk_site(text, real[2]):
					self.known_finding(SIG_QUIRK, (
						f'well-formed document rejected (known defect {SIG_QUIRK}): a struct member that follows a comment and starts with '
						f'`inline`/`abstract` (or is named import/struct/using/enum) is lexed with the top-level keyword set; line {real[2]}: '
						f'{text.splitlines()[real[2] - 1].strip()!r}'), case)
					if model is not None and not model['ok']:
						self.fail('corr', f'model rejects a document the grammar admits: {model}', case)
					return
				self.fail('property', f'well-formed document rejected by the parser ({real[1]} at line {real[2]}): {text[:300]!r}', case)
			elif model is not None and model['ok']:
				self.fail('corr', f'model accepts what the parser rejects ({real[1]} at line {real[2]}): {text[:300]!r}', case)
			elif model is not None and real[2] is not None and model['line'] != real[2]:
				ctx.count('error-line-differs')
			return
		nodes, imports = real[1], real[2]
		descriptors = [cats_json.canon(node.to_legacy_descriptor()) for node in nodes]
		crlf_finding = False
		if expected is not None:
			wanted = [cats_json.canon(item) for item in expected['descriptors']]
			if descriptors != wanted:
				CARRIAGE_RETURN_DEFECT[0] = True
				try:
					with_defect = [cats_json.canon(expected_descriptor(declaration)) for declaration in document['declarations']] if document else None
				finally:
					CARRIAGE_RETURN_DEFECT[0] = False
				if descriptors == with_defect and '\r' in text:
					crlf_finding = True
					self.known_finding(SIG_CRLF, (
						f'documentation differs between LF and CRLF (known defect {SIG_CRLF}): with CRLF line ends the comment text keeps a '
						f'carriage return per line, e.g. {next((d for d in descriptors if d != strip_cr(d)), None)!r}'), case)
				else:
					from .cats_common import diff_paths
					differences = diff_paths(wanted, descriptors)[:5] if len(wanted) == len(descriptors) else [('count', len(wanted), len(descriptors))]
					self.fail('property', f'descriptors are not what the document declares: {differences} in {text[:300]!r}', dict(case, differences=differences))
					return
			if imports != expected['imports']:
				self.fail('property', f'imports differ: {imports} vs {expected["imports"]}', case)
		if model is not None:
			if not model['ok']:
				self.fail('corr', f'model rejects what the parser accepts (line {model["line"]}: {model["msg"]}): {text[:300]!r}', case)
				return
			real_legacy = [cats_json.canon(item) for item in expected['descriptors']] if crlf_finding else descriptors
			if [cats_json.canon(item) for item in model['legacy']] != real_legacy:
				self.fail('corr', f'model and parser descriptors differ on {text[:300]!r}', dict(case, model=model['legacy'], real=descriptors))
				return
			if not crlf_finding:
				if model['wire'] != cats_json.schema_to_wire(nodes):
					self.fail('corr', f'model and parser objects differ on {text[:300]!r}', dict(case, model=model['wire'], real=cats_json.schema_to_wire(nodes)))
					return
				if model['render'] != [render_tree(node) for node in nodes]:
					self.fail('corr', f'model render and str(node) differ on {text[:300]!r}', dict(case, model=model['render'], real=[render_tree(node) for node in nodes]))
			model_imports = [item[len('import:'):] for item in model['items'] if item.startswith('import:')]
			if model_imports != imports:
				self.fail('corr', f'model and parser imports differ: {model_imports} vs {imports}', case)

		if not crlf_finding:
			self.check_applied(text, document, model, case)

		# print the parsed declarations back and parse again (WFDecls: at least one declaration, at least one member per struct)
		from catparser.ast import Struct
		if not nodes or any(isinstance(node, Struct) and not node.fields for node in nodes):
			ctx.count('print-reparse:skipped-degenerate')
			return
		printed = real_print(nodes)
		reparsed = real_parse(printed)
		again = [cats_json.canon(node.to_legacy_descriptor()) for node in reparsed[1]] if 'ok' == reparsed[0] else None
		if again != descriptors:
			fixed = fixed_print(nodes)
			repaired = real_parse(fixed)
			changed = [(old, new) for old, new in zip(printed.split('\n'), fixed.split('\n')) if old != new]
			if changed and 'ok' == repaired[0] and [cats_json.canon(node.to_legacy_descriptor()) for node in repaired[1]] == descriptors:
				for old, new in changed:
					if ', None' in old or 'None, ' in old:
						self.known_finding(SIG_NONE, (
							f'printing the parsed declarations back and parsing again fails (known defect {SIG_NONE}): Attribute.__str__ prints '
							f'lark\'s None placeholders, {old.strip()!r} instead of {new.strip()!r}'), dict(case, printed=printed))
					else:
						self.known_finding(SIG_NOT, (
							f'printing the parsed declarations back and parsing again fails (known defect {SIG_NOT}): Attribute.__str__ treats a '
							f'property called `not` as the negation qualifier, {old.strip()!r} instead of {new.strip()!r}'), dict(case, printed=printed))
				printed = fixed
			elif 'err' == reparsed[0] and 'UnexpectedToken' == reparsed[1] and is_quirk_site(printed, reparsed[2]):
				self.known_finding(SIG_QUIRK, f'printed declarations are rejected (known defect {SIG_QUIRK}) at line {reparsed[2]}', dict(case, printed=printed))
			else:
				self.fail('property', f'print-and-reparse changes the descriptors ({reparsed[0]} {reparsed[1] if "err" == reparsed[0] else ""}): {printed[:400]!r}', dict(
					case, printed=printed))
				return
		ctx.count('print-reparse')
		if model is not None and not crlf_finding:
			printed = fixed_print(nodes)  # the model printer is the repaired printer (None placeholders, `not` as a name)
			if model['print'] != printed:
				self.fail('corr', f'model printer and the printer on real nodes differ: {model["print"][:300]!r} vs {printed[:300]!r}', dict(case, printed=printed))
				return
			second = self.model(model['print'])
			if not second['ok'] or second['wire'] != model['wire']:
				self.fail('corr', f'model: parse (print ds) differs from ds for {text[:300]!r}', dict(case, printed=model['print'], second=second))


def real_applied(text):
	"""('ok', nodes with their member attributes applied) | ('err', message): what catparser.__main__ describes and emits"""
	from catparser.ast import AstException
	from catparser.AstPostProcessor import AstPostProcessor
	parsed = real_parse(text)
	if 'ok' != parsed[0]:
		return ('err', 'does not parse')
	try:
		AstPostProcessor(parsed[1]).apply_attributes()
	except AstException as ex:
		return ('err', str(ex))
	return ('ok', parsed[1])


def check_applied(self, text, document, model, case):
	"""the same comparisons on the attribute-applied declarations: descriptors against what the document declares, against the model
	(`toLegacy` after `applyAttributes`), and print / parse / apply again."""
	# pylint: disable=too-many-locals,too-many-branches
	ctx = self.ctx
	from catparser.ast import Struct
	applied = real_applied(text)
	names = [node.name for node in real_parse(text)[1]]
	if len(names) != len(set(names)):
		ctx.count('applied:skipped-duplicate-names')  # (apply_attributes works on a name -> declaration map)
		return
	ctx.count('applied:' + applied[0])
	descriptors = [cats_json.canon(node.to_legacy_descriptor()) for node in applied[1]] if 'ok' == applied[0] else None
	if document is not None:
		wanted = expected_applied_descriptors(document)
		wanted = None if wanted is None else [cats_json.canon(item) for item in wanted]
		if (wanted is None) != (descriptors is None):
			self.fail('property', (
				f'apply_attributes {"refuses" if descriptors is None else "accepts"} member attributes that the member types '
				f'{"have" if descriptors is None else "do not have"} ({applied[1] if descriptors is None else ""}): {text[:300]!r}'), dict(case, stage='attributes applied'))
			return
		if wanted != descriptors:
			from .cats_common import diff_paths
			differences = diff_paths(wanted, descriptors)[:5] if len(wanted) == len(descriptors) else [('count', len(wanted), len(descriptors))]
			self.fail('property', (
				f'descriptors after apply_attributes are not what the document declares: {differences} in {text[:300]!r}'), dict(
					case, differences=differences, stage='attributes applied'))
			return
	if model is not None and model['ok']:
		model_applied = model['applied']
		if model_applied['ok'] != (descriptors is not None):
			self.fail('corr', f'model and apply_attributes differ on whether the member attributes apply: {model_applied.get("msg")} vs {applied[1] if descriptors is None else "ok"}', case)
			return
		if descriptors is not None:
			if [cats_json.canon(item) for item in model_applied['legacy']] != descriptors:
				self.fail('corr', f'model and parser descriptors after apply_attributes differ on {text[:300]!r}', dict(case, model=model_applied['legacy'], real=descriptors))
				return
			if model_applied['wire'] != cats_json.schema_to_wire(applied[1]):
				self.fail('corr', f'model and parser objects after apply_attributes differ on {text[:300]!r}', dict(case, model=model_applied['wire']))
				return
			if model_applied['render'] != [render_tree(node) for node in applied[1]]:
				self.fail('corr', f'model render and str(node) after apply_attributes differ on {text[:300]!r}', dict(
					case, model=model_applied['render'], real=[render_tree(node) for node in applied[1]]))
				return
	if descriptors is None or not applied[1] or any(isinstance(node, Struct) and not node.fields for node in applied[1]):
		return
	# print the attribute-applied declarations back, parse, apply again: the same descriptors
	for printer in (real_print, fixed_print):
		printed = printer(applied[1])
		again = real_applied(printed)
		if 'ok' == again[0] and [cats_json.canon(node.to_legacy_descriptor()) for node in again[1]] == descriptors:
			ctx.count('print-reparse-applied' if printer is real_print else 'print-reparse-applied:with-the-repaired-attribute-printer')
			return
	if 'UnexpectedToken' == real_parse(printed)[1] and is_quirk_site(printed, real_parse(printed)[2]):
		return  # (the known lexing defect after a comment, reported by the first stage)
	self.fail('property', f'print-and-reparse of the attribute-applied declarations changes the descriptors ({again[0]}): {printed[:400]!r}', dict(
		case, printed=printed, stage='attributes applied'))


Checker.check_applied = check_applied


def shipped_files():
	return sorted(glob.glob(os.path.join(REPO, 'catbuffer', 'schemas', '**', '*.cats'), recursive=True))


MALFORMED = [
	'', '\n', '   ', 'using Foo = uint8', '\nusing Foo = uint8\n', 'using Foo = uint24\n', 'using F = uint8\n', 'using FOo = uint8\n',
	'struct Foo\n', 'struct Foo\n\ta = uint8\n', 'struct Foo\n\tinline = uint8\n', 'enum Foo : uint8\n\tA = 1\n', 'using Foo = binary_fixed(0x1f)\n',
	'struct Foo\n\tab = uint8\n  cd = uint8\n', 'struct Foo\n\tab = uint8\n\t\tcd = uint8\n', 'using Foo = uint8 # trailing\n', 'using Foo = uint8\rusing Bar = uint8\n',
	'@is_bitwise\nstruct Foo\n\tab = uint8\n', '@is_aligned\n# c\nstruct Foo\n\tab = uint8\n', 'struct Foo\n\t@sizeref(ab)\n\t# c\n\tcd = uint8\n',
	'struct Foo\n\tab = uint8 if 3 not  equals xy\n', 'struct Foo\n\t@sort_key(ab)\n\tinline Bar\n', 'ab = uint8\n', 'struct Foo\n\tab = make_const(uint8, 1)\n',
]
ACCEPTED_ODDITIES = [
	'structFoo\n\tbar=uint8\n', 'usingFoo=uint8\n', 'struct Foo\n\tbar = uint8 if 3 inner\n', 'struct Foo\n\t@is_byte_constrained\n\tinline = array(uint8, 4)\n',
	'struct Foo\n\t@alignment(8,notpad_last)\n\tbar = array(uint8, 4)\n', 'struct Foo\n\tbar = inlineBar\n', 'struct Foo\n\t# only\n', 'struct Foo\n\t',
	'enum Foo : uint8\n', 'enum Foo : uint8\n\t', '\tstruct Foo\n\t\tx1 = uint8\n', 'struct Foo\n\tab = uint8\n    ', 'struct Foo\n    ab = uint8\n\tcd = uint8\n',
	'struct Foo\n\t# a\n# b\n\tab = uint8\n', '#a\n   #b\nusing Foo = uint8\n', 'import "a\\"b.cats"\nusing Foo = uint8\n', 'using Foo = binary_fixed(007)\n',
	'struct Foo\n\tsize = uint8\n\tarray = uint8\n\tin = uint8\n\tif = uint8\n\tnot = uint8\n\tsizeof = uint8\n\tsort_key = uint8\n\tuint8 = uint8\n\tequals = uint8\n',
	'struct Foo\n\tab = array(Foo,__FILL__)\n', '# only\n', '# a\n\n# b\n', 'import "x"\n', '#\nusing Foo = uint8\n', '# a\n#\n#\n# b\nusing Foo = uint8\n',
]


def run(ctx):
	rng = ctx.rng
	checker = Checker(ctx)
	# the facts probed while designing the model (DESIGN.md section 6) and the malformed stream
	for text in MALFORMED + ACCEPTED_ODDITIES:
		checker.check_text(text, None, 'probe')
		ctx.count('probe')
	for text in MALFORMED:
		ctx.expect('err' == real_parse(text)[0], 'property', f'ill-formed text accepted: {text!r}', {'text': text})
	for text in ACCEPTED_ODDITIES:
		ctx.expect('ok' == real_parse(text)[0], 'corr', f'a probed fact no longer holds, the parser rejects {text!r}', {'text': text})

	# every shipped schema file on its own
	for path in shipped_files():
		with open(path, 'rt', encoding='utf8', newline='') as infile:
			text = infile.read()
		checker.check_text(text, None, os.path.relpath(path, REPO))
		if 'ok' != real_parse(text)[0]:
			ctx.fail('property', f'shipped schema file does not parse: {path}', {'path': path})
		ctx.count('shipped-file')

	# every array kind x every member attribute combination (and integers x @sizeref), attributes applied
	for document in attribute_matrix_documents(rng):
		expected = {'descriptors': [expected_descriptor(declaration) for declaration in document['declarations']], 'imports': []}
		ctx.count('attribute-matrix-documents')
		for trivia in (Trivia(None), Trivia(rng)):
			checker.check_text(render_document(document, trivia), expected, 'attribute-matrix', document)

	# generated documents
	for _ in range(ctx.scale(1500, 10000)):
		document = gen_document(rng, ctx.thorough)
		expected = {'descriptors': [expected_descriptor(declaration) for declaration in document['declarations']], 'imports': document['imports']}
		ctx.count('documents')
		ctx.count('declarations', len(document['declarations']))
		if document['quirk']:
			ctx.count('quirk-documents')
		for declaration in document['declarations']:
			ctx.count('kind:' + declaration['kind'])
			for member in declaration.get('members', []):
				ctx.count('member:' + member['kind'])
		for trivia in (Trivia(None), Trivia(rng)):
			text = render_document(document, trivia)
			ctx.count('newline:' + ('crlf' if '\r\n' == trivia.newline else 'lf'))
			ctx.count('indent:' + trivia.indent_style)
			checker.check_text(text, expected, 'generated' + ('' if trivia.rng is None else '+trivia'), document)


def replay(ctx, payload):
	print(payload['what'])
	recorded = payload.get('case') or {}
	text = recorded.get('text')
	if text is None:
		run(ctx)
		return
	Checker(ctx).check_text(text, None, 'replay')
	real = real_parse(text)
	print(f'  implementation: {real[0]} {real[1] if "err" == real[0] else [node.to_legacy_descriptor() for node in real[1]]}')
	for failure in ctx.failures:
		print(f'  reproduced: {failure.what[:400]}')


MANIFEST = {
	'level_text': (
		'Lean theorems over the model of the CATS parser (Model/Cats/Lexer.lean, Parser.lean, Printer.lean on cats-a\'s Syntax.lean), '
		'Properties/C04.lean: parse_render (for every non-empty list of well-formed declarations - aliases, enums, structs with '
		'every member form, every attribute form on enums, structs and members, and a documentation comment in normal form on any declaration, '
		'enum value and member, any mix and order - parse (print ds) = ok ds, at character '
		'level through line splitting, merging of # lines into comment tokens, the Indenter, blocks, statement loops with their pending comment, '
		'Comment.__init__ and all line parsers), its special cases and line-level parts (alias line, enum '
		'header and value, struct header, every member form, every struct and member attribute), legacy_of_parse, '
		'parse_output_wf (for every document the declarations of a successful parse are well-formed, comments in normal form), '
		'print_parse_fixpoint (for every document that parses to at least one declaration and no member-less struct, '
		'parse (print (parse doc)) = parse doc, comments included, well-formedness derived not assumed), '
		'parsed_comment_normal (every comment Comment.__init__ builds is in normal form), normal_comment_iff, comment_roundtrip / '
		'comment_roundtrip_indented, comment_lines_one_token, the numeral theorems hex_numeral_value (0x + leading zeros + upper-case digits of n '
		'reads n, all n), decimal_leading_zeros, hex_dec_same_value, hex_lowercase_not_numeral, decimal_numeral_roundtrip, and the trivia '
		'array_descriptor_after_attributes (kind / size / printed form of an array member after apply_attributes, for every attribute list), '
		'the trivia theorems parse_crlf (all documents without carriage returns), parse_blank_lines, '
		'tab_is_four_spaces / tab_or_four_spaces_same_line. The model is tied to catbuffer.lark / CatsLarkParser.py '
		'/ ast.py by a differential run on grammar-directed generated documents (every declaration, member and attribute form, comments, blank '
		'lines, LF/CRLF, tab/4-space, decimal/hex) and on every shipped .cats file, comparing objects, to_legacy_descriptor(), str(node) and '
		'print-and-reparse, both on the parsed declarations and on the attribute-applied ones (AstPostProcessor.apply_attributes, as catparser.__main__ '
		'does before emitting; model: Expand.applyAttributes), with a sweep over every array kind x element type x every combination of member '
		'attributes (and integers x @sizeref, and the pairings apply_attributes must refuse); the property is also evaluated directly on the real '
		'parser against descriptors computed from the generated structure, before and after the attributes are applied.'),
	'level_note': (
		'Trusted: Lean kernel + {propext, Classical.choice, Quot.sound}; hand-written model tied by differential execution only; lark\'s LALR engine '
		'and contextual lexer are not modelled (the language and the objects are). print_parse_fixpoint keeps the hypotheses "at least one '
		'declaration" and "no member-less struct" (both necessary). Not proved: dropping of free comments at document level (modelled and run only; '
		'printed documents have none); blank lines inside declarations and tab-vs-blank at document level. Known findings still '
		'open on the tree: Attribute.__str__ treats a property called `not` as a qualifier; a comment before an `inline X` member (or a member '
		'whose name starts like a top-level keyword) makes the parser reject a well-formed struct - the model accepts it (parse_render covers it), '
		'the deviation of lark is the finding.'),
	'technique': 'Lean 4 theorems over a hand-written model + differential correspondence with the Python implementation',
}

"""C14 - both parties derive one shared key; messages round-trip and resist tampering.

Correspondence: Model/Sdk/{SharedKey,Message}.lean through driver_c14 (curve = Lean translation of external/ed25519.py,
SHA-512/Keccak/HKDF native Lean; AES is not modelled: the harness hands the model the cipher's answers for exactly the
(key, iv, data) the model must ask about) against SharedKey / MessageEncoder of both networks. Direct evaluation: symmetry and
an independent HKDF/X25519-style oracle for the shared key, round trips for every format, every single-byte corruption and
wrong-recipient decode on Symbol must come back as (False, original).
"""
import hashlib
import hmac
import json
import os

from .common import hx

RULE = (
	'from VERIF_SEED: key pairs (random + boundary secrets) x peers; public keys that are non-canonical (y >= p), off the curve, on the curve '
	'but outside the prime-order subgroup, the identity; every plaintext length 0..160 and 255, 256, 1000, 1023, 1024 (counted per '
	'length class mod 16) for every encoder/decoder pair (recipient and sender, roles swapped from one length to the next) and format of '
	'both networks incl. the delegation layout; delegation requests whose ephemeral public key begins with each of the 8 marker byte '
	'values and 24 other values (all 256 in the thorough tier), frames whose tag, nonce and ciphertext (salt, iv, ciphertext) all begin '
	'with the marker byte / with the same byte; encode-encode(-encode)-decode orders for every encoder of both networks (distinct result '
	'objects, earlier results unchanged by later calls, each decodes to its own plaintext); plaintexts of 0, 1, 15, 16, 17, 1024 bytes with corruptions x formats (Symbol '
	'current / deprecated hex / delegation; NEM current / deprecated CBC) x both networks; for Symbol every single-byte corruption of '
	'marker, tag, nonce and ciphertext of short messages (sampled positions for long ones, all in the thorough tier), wrong-recipient and '
	'wrong-peer decodes; truncated and malformed messages; PKCS7 and hex helpers on boundary inputs; shipped derive/cipher vectors. A case '
	'is distinct by its (operation, hex arguments) tuple; each is evaluated on the implementation, the oracle and the model.')
TRUSTED_BASE = [
	'Lean 4.33 kernel; axioms of the property theorems: subset of {propext, Classical.choice, Quot.sound}',
	'hand-written models Model/Sdk/SharedKey.lean and Model/Sdk/Message.lean, tied to the code by this differential run and by '
	'Generated/C14Consts.lean (sizes, markers, labels, salt read from the sources on every run; theorem source_constants_tied)',
	'curve arithmetic, SHA-512/Keccak-512/Keccak-256, HKDF-SHA256 are parameters of every theorem (group laws and acceptance of honest '
	'keys are hypotheses); the driver instantiates them with Lean translations (Ed25519Exec, Hash/*), compared with the SDK on every case',
	'AES-GCM / AES-CBC are parameters (hypotheses AeadCorrect / BlockCorrect); AES is not modelled at all: the driver is handed the real '
	'cipher\'s answers for exactly the (key, iv, data) it must present, so the model checks key choice, slicing and control flow',
	'/verif/shims stand-ins for cryptography (AES, GCM, CBC, PKCS7, HKDF), sha3, nacl, ripemd (the real packages are absent here)',
]
ASSUMPTIONS = [
	'authenticity of AES-GCM is not a theorem: tamper_clean says the framing returns (False, original) exactly when the cipher rejects and '
	'(True, m) only for what the cipher authenticated under the pair\'s shared key; that the cipher rejects every altered byte is '
	'observed on the implementation for the generated corruptions only',
	'library error conventions (ValueError for short tags / IV sizes, message texts of padding errors) are the stand-ins\' reading of '
	'cryptography 4x; Python exceptions escaping try_decode are modelled as `none`',
	'NEM: no tamper resistance is claimed (the deprecated CBC fallback is unauthenticated; nem_decode_outcomes states this)',
]


_OBSERVE = r"""
import json, secrets, sys, warnings
warnings.simplefilter('ignore')
record = {'hkdf': [], 'gcm': [], 'cbc': [], 'random': []}
phase = ['-']

from cryptography.hazmat.primitives.ciphers import modes
from cryptography.hazmat.primitives.kdf import hkdf

_hkdf_init, _hkdf_derive = hkdf.HKDF.__init__, hkdf.HKDF.derive
_gcm_init, _cbc_init, _token_bytes = modes.GCM.__init__, modes.CBC.__init__, secrets.token_bytes


def as_hex(value):
	return None if value is None else bytes(value).hex()


def hkdf_init(self, algorithm, length, salt, info, *args, **kwargs):
	self._observed = {'algorithm': getattr(algorithm, 'name', repr(algorithm)), 'length': length, 'salt': as_hex(salt), 'info': as_hex(info)}
	_hkdf_init(self, algorithm, length, salt, info, *args, **kwargs)


def hkdf_derive(self, key_material):
	record['hkdf'].append(dict(self._observed, phase=phase[0], ikm_size=len(key_material)))
	return _hkdf_derive(self, key_material)


def gcm_init(self, initialization_vector, tag=None, *args, **kwargs):
	record['gcm'].append({'phase': phase[0], 'iv': len(initialization_vector), 'tag': None if tag is None else len(tag)})
	_gcm_init(self, initialization_vector, tag, *args, **kwargs)


def cbc_init(self, initialization_vector, *args, **kwargs):
	record['cbc'].append({'phase': phase[0], 'iv': len(initialization_vector)})
	_cbc_init(self, initialization_vector, *args, **kwargs)


def token_bytes(count=None):
	record['random'].append({'phase': phase[0], 'size': count})
	return _token_bytes(count)


hkdf.HKDF.__init__, hkdf.HKDF.derive = hkdf_init, hkdf_derive
modes.GCM.__init__, modes.CBC.__init__, secrets.token_bytes = gcm_init, cbc_init, token_bytes

from symbolchain.CryptoTypes import PrivateKey
from symbolchain.facade.NemFacade import NemFacade
from symbolchain.facade.SymbolFacade import SymbolFacade

clear = bytes(range(1, 6))
out = {'clear_size': len(clear)}
for name, facade_class in (('symbol', SymbolFacade), ('nem', NemFacade)):
	facade = facade_class('testnet')
	alice = facade.create_account(PrivateKey(bytes(range(32))))
	bob = facade.create_account(PrivateKey(bytes(range(32, 64))))
	phase[0] = name + ':derive'
	one = facade.SharedKey.derive_shared_key(alice.key_pair, bob.public_key)
	other = facade.SharedKey.derive_shared_key(bob.key_pair, alice.public_key)
	out[name + ':key_size'] = len(one.bytes)
	out[name + ':symmetric'] = one.bytes == other.bytes
	out[name + ':public_key_size'] = len(alice.public_key.bytes)
	phase[0] = name + ':encode'
	encoded = alice.message_encoder().encode(bob.public_key, clear)
	phase[0] = name + ':decode'
	flag, decoded = bob.message_encoder().try_decode(alice.public_key, encoded)
	out[name + ':roundtrip'] = bool(flag) and bytes(decoded) == clear
	if 'symbol' == name:
		out['symbol:encoded'] = bytes(encoded).hex()
		phase[0] = 'symbol:delegation'
		remote = facade.create_account(PrivateKey(bytes(range(64, 96))))
		vrf = facade.create_account(PrivateKey(bytes(range(96, 128))))
		request = type(alice.message_encoder()).encode_persistent_harvesting_delegation(bob.public_key, remote.key_pair, vrf.key_pair)
		out['symbol:delegation'] = bytes(request).hex()
		out['symbol:delegation_clear_size'] = len(remote.key_pair.private_key.bytes) + len(vrf.key_pair.private_key.bytes)
		phase[0] = 'symbol:delegation-decode'
		flag, decoded = bob.message_encoder().try_decode(alice.public_key, request)
		out['symbol:delegation_roundtrip'] = bool(flag) and bytes(decoded) == remote.key_pair.private_key.bytes + vrf.key_pair.private_key.bytes
	else:
		out['nem:encoded'] = bytes(encoded.message).hex()
		out['nem:message_type'] = encoded.message_type.value
		phase[0] = 'nem:encode-deprecated'
		deprecated = alice.message_encoder().encode_deprecated(bob.public_key, clear)
		out['nem:encoded_deprecated'] = bytes(deprecated.message).hex()
		out['nem:message_type_deprecated'] = deprecated.message_type.value
		phase[0] = 'nem:decode-deprecated'
		flag, decoded = bob.message_encoder().try_decode(alice.public_key, deprecated)
		out['nem:roundtrip_deprecated'] = bool(flag) and bytes(decoded) == clear
out['record'] = record
print(json.dumps(out))
"""


def _observe(repo):
	"""Runs both networks' SharedKey / MessageEncoder once in a fresh interpreter with the `cryptography` stand-in's HKDF, GCM
	and CBC constructors and `secrets.token_bytes` wrapped, and returns what crossed that library boundary plus the outputs."""
	import subprocess

	from .common import ROOT
	env = dict(os.environ)
	env.update({
		'PYTHONPATH': os.pathsep.join([os.path.join(repo, 'sdk/python'), os.path.join(ROOT, 'shims')]), 'PYTHONDONTWRITEBYTECODE': '1',
		'PYTHONHASHSEED': '0'})
	proc = subprocess.run(['/venv/bin/python', '-c', _OBSERVE], env=env, capture_output=True, text=True, timeout=300, check=False)
	if 0 != proc.returncode:
		raise ValueError(f'observation run failed: {proc.stderr.strip()[-500:]}')
	return json.loads(proc.stdout.strip().split('\n')[-1])


def _single(values, what):
	distinct = sorted({json.dumps(value) for value in values})
	if 1 != len(distinct):
		raise ValueError(f'{what}: expected one value, observed {distinct[:4]}')
	return json.loads(distinct[0])


def _constants(repo):
	"""The C14 constants, none of them read off the shape of the source text.

	What is not a public name (HKDF hash/length/salt/label per network, IV, tag and salt sizes actually used) is observed at the
	boundary of the `cryptography` stand-in and on the outputs of the public encoders; public names (DELEGATION_MARKER,
	AesGcmCipher.TAG_SIZE, the upper-case constants of CipherHelpers, MessageType.ENCRYPTED, PublicKey.SIZE) are evaluated by
	importing the modules from the working tree and must agree with the observation where both exist."""
	from translate import pyruntime
	failures = []
	seen = _observe(repo)
	record = seen['record']
	for key in ('symbol:symmetric', 'symbol:roundtrip', 'symbol:delegation_roundtrip', 'nem:symmetric', 'nem:roundtrip', 'nem:roundtrip_deprecated'):
		if not seen.get(key):
			failures.append(f'observation run: {key} is false')

	result = {}
	derives = {network: [entry for entry in record['hkdf'] if entry['phase'] == f'{network}:derive'] for network in ('symbol', 'nem')}
	for network, entries in derives.items():
		if not entries:
			raise ValueError(f'{network}: derive_shared_key did not go through HKDF')
		if 'sha256' != _single([entry['algorithm'] for entry in entries], f'{network} HKDF algorithm'):
			failures.append(f'{network}: HKDF algorithm is {entries[0]["algorithm"]}, not SHA-256')
		result[f'label_{network}'] = bytes.fromhex(_single([entry['info'] for entry in entries], f'{network} HKDF info') or '')
	every = derives['symbol'] + derives['nem']
	salt = _single([entry['salt'] for entry in every], 'HKDF salt')
	if salt is None:
		raise ValueError('HKDF is called without a salt')
	result['salt'] = bytes.fromhex(salt)
	result['length'] = _single([entry['length'] for entry in every], 'HKDF length')
	if result['length'] != _single([seen['symbol:key_size'], seen['nem:key_size']], 'shared key size'):
		failures.append('HKDF length differs from the size of the returned shared key')
	# every message key of the current formats must come out of the same HKDF parameters
	for entry in record['hkdf']:
		network = entry['phase'].split(':')[0]
		if (entry['salt'], entry['length'], entry['info']) != (salt, result['length'], result[f'label_{network}'].hex()):
			failures.append(f'{entry["phase"]}: HKDF parameters differ from those of derive_shared_key')

	result['gcm_iv'] = _single([entry['iv'] for entry in record['gcm']], 'GCM IV size')
	result['tag'] = _single([entry['tag'] for entry in record['gcm'] if entry['tag'] is not None], 'GCM tag size on decryption')
	result['cbc_iv'] = _single([entry['iv'] for entry in record['cbc']], 'CBC IV size')
	clear_size = seen['clear_size']
	symbol_size = len(seen['symbol:encoded']) // 2
	if symbol_size != 1 + result['tag'] + result['gcm_iv'] + clear_size:
		failures.append(f'Symbol message of {clear_size} bytes is {symbol_size} bytes, not 1 + tag + iv + ciphertext')
	if len(seen['nem:encoded']) // 2 != result['tag'] + result['gcm_iv'] + clear_size:
		failures.append('NEM message is not tag + iv + ciphertext')
	block = 16  # AES block: the padded ciphertext of a message shorter than one block
	result['salt_size'] = len(seen['nem:encoded_deprecated']) // 2 - result['cbc_iv'] - block * (clear_size // block + 1)
	sizes = sorted(entry['size'] for entry in record['random'] if 'nem:encode-deprecated' == entry['phase'])
	if sizes != sorted([result['salt_size'], result['cbc_iv']]):
		failures.append(f'deprecated NEM encoding draws random values of sizes {sizes}, layout gives salt {result["salt_size"]} + iv {result["cbc_iv"]}')
	result['encrypted_type'] = _single([seen['nem:message_type'], seen['nem:message_type_deprecated']], 'NEM message type')
	result['public_key_size'] = _single([seen['symbol:public_key_size'], seen['nem:public_key_size']], 'public key size')

	delegation = bytes.fromhex(seen['symbol:delegation'])
	marker_size = len(delegation) - result['public_key_size'] - result['tag'] - result['gcm_iv'] - seen['symbol:delegation_clear_size']
	observed_marker = delegation[:max(0, marker_size)]

	# public names, where they (still) exist
	def named(module, expression):
		try:
			return pyruntime.values(repo, module, [expression])[expression]
		except ValueError:
			return None

	marker = named('symbolchain.symbol.MessageEncoder', 'DELEGATION_MARKER')
	result['marker'] = observed_marker
	if marker is not None and bytes.fromhex(marker['hex']) != observed_marker:
		failures.append(f'DELEGATION_MARKER is {marker["hex"]} but delegation requests start with {observed_marker.hex()}')
	tag_name = named('symbolchain.Cipher', 'AesGcmCipher.TAG_SIZE')
	if tag_name is not None and tag_name != result['tag']:
		failures.append(f'AesGcmCipher.TAG_SIZE is {tag_name} but tags of {result["tag"]} bytes are used')
	helpers = named('symbolchain.impl.CipherHelpers', '{k: v for k, v in vars(module).items() if k.isupper() and isinstance(v, int)}') or {}
	for name, key in (('GCM_IV_SIZE', 'gcm_iv'), ('CBC_IV_SIZE', 'cbc_iv'), ('SALT_SIZE', 'salt_size')):
		if name in helpers and helpers[name] != result[key]:
			failures.append(f'CipherHelpers.{name} is {helpers[name]} but {result[key]} bytes are used')
	for module, expression, key in (
			('symbolchain.nc', 'MessageType.ENCRYPTED.value', 'encrypted_type'), ('symbolchain.CryptoTypes', 'PublicKey.SIZE', 'public_key_size')):
		value = named(module, expression)
		if value is not None and value != result[key]:
			failures.append(f'{expression} is {value} but {result[key]} is used')
	return result, failures


def translate(_ctx):
	"""Generated/C14Consts.lean: framing constants, labels and HKDF parameters as the working tree uses them on this run."""
	from translate import pyconst

	from .common import LEAN, REPO, write_if_changed
	try:
		found, failures = _constants(REPO)
	except Exception as ex:  # pylint: disable=broad-except
		return [f'C14 constants could not be obtained from the working tree: {type(ex).__name__}: {str(ex)[:600]}']

	text = (
		'/- generated by harness/c14.py: values observed on sdk/python/symbolchain (SharedKey, MessageEncoder of both networks run\n'
		'   once against the recording cryptography stand-in; public constants imported from the working tree); do not edit -/\n'
		'namespace SymbolVerif.Generated.C14\n'
		f'def TAG_SIZE : Nat := {found["tag"]}\n'
		f'def GCM_IV_SIZE : Nat := {found["gcm_iv"]}\n'
		f'def CBC_IV_SIZE : Nat := {found["cbc_iv"]}\n'
		f'def SALT_SIZE : Nat := {found["salt_size"]}\n'
		f'def delegationMarker : List Nat := {pyconst.lean_nat_list(list(found["marker"]))}\n'
		f'def labelSymbol : List Nat := {pyconst.lean_nat_list(list(found["label_symbol"]))}\n'
		f'def labelNem : List Nat := {pyconst.lean_nat_list(list(found["label_nem"]))}\n'
		f'def hkdfSalt : List Nat := {pyconst.lean_nat_list(list(found["salt"]))}\n'
		f'def hkdfLength : Nat := {found["length"]}\n'
		f'def nemEncryptedType : Nat := {found["encrypted_type"]}\n'
		f'def publicKeySize : Nat := {found["public_key_size"]}\n'
		'end SymbolVerif.Generated.C14\n')
	write_if_changed(os.path.join(LEAN, 'SymbolVerif', 'Generated', 'C14Consts.lean'), text)
	return failures


# region independent oracle

def _oracle_decode(public_key):
	"""('ok', point) | ('err', kind) following the three documented checks, with own arithmetic."""
	from .c07 import _D, _L, _P, _ref_mul
	value = int.from_bytes(public_key, 'little')
	y = value & ((1 << 255) - 1)
	sign = value >> 255
	if y >= _P:
		return 'err', 'notCanonical'
	xx = (y * y - 1) * pow(_D * y * y + 1, _P - 2, _P) % _P
	x = pow(xx, (_P + 3) // 8, _P)
	if (x * x - xx) % _P:
		x = x * pow(2, (_P - 1) // 4, _P) % _P
	if (x * x - xx) % _P:
		return 'err', 'notOnCurve'
	if (x & 1) != sign:
		x = (_P - x) % _P
	point = (x, y, 1, x * y % _P)
	multiple = _ref_mul(_L, point)
	if 0 != multiple[0] % _P or 0 != (multiple[1] - multiple[2]) % _P:
		return 'err', 'notInMainSubgroup'
	return 'ok', point


_SECRET_CACHE = {}


def oracle_shared_secret(network, secret, public_key):
	key = (network, bytes(secret), bytes(public_key))
	if key not in _SECRET_CACHE:
		if len(_SECRET_CACHE) > 4096:
			_SECRET_CACHE.clear()
		_SECRET_CACHE[key] = _oracle_shared_secret(network, secret, public_key)
	return _SECRET_CACHE[key]


def _oracle_shared_secret(network, secret, public_key):
	from .c07 import _ref_encode, _ref_expand, _ref_mul
	status, point = _oracle_decode(public_key)
	if 'ok' != status:
		return status, point
	scalar, _ = _ref_expand(network, secret)
	return 'ok', _ref_encode(_ref_mul(scalar, point))


def _hkdf_sha256(salt, ikm, info, length):
	prk = hmac.new(salt, ikm, hashlib.sha256).digest()
	out, block, counter = b'', b'', 1
	while len(out) < length:
		block = hmac.new(prk, block + info + bytes([counter]), hashlib.sha256).digest()
		out += block
		counter += 1
	return out[:length]


LABELS = {'symbol': b'catapult', 'nem': b'nem-nis1'}


def oracle_shared_key(network, secret, public_key):
	status, value = oracle_shared_secret(network, secret, public_key)
	if 'ok' != status:
		return f'err {value}'
	return 'ok ' + hx(_hkdf_sha256(bytes(32), value, LABELS[network], 32))


def oracle_shared_key_deprecated(secret, public_key, salt):
	import sha3
	status, value = oracle_shared_secret('nem', secret, public_key)
	if 'ok' != status:
		return f'err {value}'
	if len(salt) < 32:
		return 'ok none'
	return 'ok ' + hx(sha3.keccak_256(bytes(a ^ b for a, b in zip(value, salt[:32]))).digest())


def raw_gcm_encrypt(key, iv, clear):
	from cryptography.hazmat.primitives.ciphers import Cipher, algorithms, modes
	encryptor = Cipher(algorithms.AES(key), modes.GCM(iv)).encryptor()
	cipher_text = encryptor.update(clear) + encryptor.finalize()
	return cipher_text, encryptor.tag


def raw_gcm_decrypt(key, iv, tag, cipher_text):
	"""ok:<hex> | invalidTag | refused (the library rejects its arguments)"""
	import cryptography.exceptions
	from cryptography.hazmat.primitives.ciphers import Cipher, algorithms, modes
	try:
		decryptor = Cipher(algorithms.AES(key), modes.GCM(iv, tag)).decryptor()
		return 'ok:' + hx(decryptor.update(cipher_text) + decryptor.finalize())
	except cryptography.exceptions.InvalidTag:
		return 'invalidTag'
	except ValueError:
		return 'refused'


def raw_cbc(key, iv, data, encrypt):
	from cryptography.hazmat.primitives.ciphers import Cipher, algorithms, modes
	cipher = Cipher(algorithms.AES(key), modes.CBC(iv))
	worker = cipher.encryptor() if encrypt else cipher.decryptor()
	return worker.update(data) + worker.finalize()


def oracle_pad(clear):
	count = 16 - len(clear) % 16
	return clear + bytes([count]) * count


def oracle_unpad(padded):
	if not padded or len(padded) % 16:
		return None
	count = padded[-1]
	if not 1 <= count <= 16 or padded[-count:] != bytes([count]) * count:
		return None
	return padded[:-count]

# endregion


def _key_bytes(answer):
	return bytes.fromhex(answer[3:]) if answer.startswith('ok ') and 'ok none' != answer else None


class Checker:
	def __init__(self, ctx):
		import warnings

		from symbolchain.CryptoTypes import PrivateKey, PublicKey
		from symbolchain.facade.NemFacade import NemFacade
		from symbolchain.facade.SymbolFacade import SymbolFacade
		from symbolchain.nem.MessageEncoder import MessageEncoder as NemMessageEncoder
		from symbolchain.symbol.MessageEncoder import MessageEncoder as SymbolMessageEncoder
		warnings.simplefilter('ignore', DeprecationWarning)
		self.ctx = ctx
		self.private_key, self.public_key_class = PrivateKey, PublicKey
		self.facades = {'symbol': SymbolFacade, 'nem': NemFacade}
		self.encoders = {'symbol': SymbolMessageEncoder, 'nem': NemMessageEncoder}
		self.ops = []

	def key_pair(self, network, secret):
		return self.facades[network].KeyPair(self.private_key(secret))

	def add(self, name, args, impl_answer, required, model_line, what, informative=False):
		self.ops.append((name, args, impl_answer, required, model_line, what, informative))

	def settle(self):
		ctx = self.ctx
		answers = ctx.driver.ask_many([op[4] for op in self.ops]) if ctx.driver else [None] * len(self.ops)
		for (name, args, impl_answer, required, line, what, informative), model_answer in zip(self.ops, answers):
			sample = {'op': name, 'args': args, 'implementation': impl_answer, 'required': required, 'model': model_answer, 'line': line}
			ctx.case((name, line), {'request': line[:300], 'implementation': impl_answer[:200], 'model': (model_answer or '')[:200]})
			ctx.count(f'op:{name}')
			if required is not None and impl_answer != required and not informative:
				ctx.fail('property', f'{what}: {name} -> implementation {impl_answer[:140]}, required {required[:140]}', sample)
			elif model_answer is not None and model_answer != impl_answer:
				ctx.fail('corr', f'model and implementation differ on {name}: model {model_answer[:140]}, implementation {impl_answer[:140]}', sample)
		self.ops = []

	# --- shared keys

	def shared_key(self, network, secret, public_key, what='shared key != HKDF-SHA256(0^32, label)(encode(clamp(H(secret)) * A))'):
		try:
			answer = 'ok ' + hx(self.facades[network].SharedKey.derive_shared_key(self.key_pair(network, secret), self.public_key_class(public_key)).bytes)
		except ValueError as ex:
			answer = 'err ' + {
				'point is not canonical': 'notCanonical', 'decoding point that is not on curve': 'notOnCurve',
				'point is not in main subgroup': 'notInMainSubgroup'}.get(str(ex), f'other:{ex}')
		required = oracle_shared_key(network, secret, public_key)
		self.add('shared_key', {'network': network, 'secret': secret, 'public_key': public_key}, answer, required,
			f'shared_key {network} {hx(secret)} {hx(public_key)}', what)
		return answer

	def shared_key_deprecated(self, secret, public_key, salt):
		try:
			answer = 'ok ' + hx(self.facades['nem'].SharedKey.derive_shared_key_deprecated(
				self.key_pair('nem', secret), self.public_key_class(public_key), salt).bytes)
		except IndexError:
			answer = 'ok none'
		except ValueError as ex:
			answer = 'err ' + {
				'point is not canonical': 'notCanonical', 'decoding point that is not on curve': 'notOnCurve',
				'point is not in main subgroup': 'notInMainSubgroup'}.get(str(ex), f'other:{ex}')
		self.add('shared_key_deprecated', {'secret': secret, 'public_key': public_key, 'salt': salt}, answer,
			oracle_shared_key_deprecated(secret, public_key, salt), f'shared_key_deprecated {hx(secret)} {hx(public_key)} {hx(salt)}',
			'deprecated shared key != Keccak-256(shared secret XOR salt)')
		return answer

	# --- messages: tables for the model = the real cipher's answers at the slices the framing prescribes

	def _gcm_table(self, network, secret, peer_public_key, body):
		"""(key, iv, tag, ct, answer) for decode_aes_gcm over `body` = tag | iv | ct."""
		key = _key_bytes(oracle_shared_key(network, secret, peer_public_key)) if 32 == len(peer_public_key) else None
		tag, iv, cipher_text = body[:16], body[16:28], body[28:]
		if key is None:
			return '- - - - refused'
		answer = raw_gcm_decrypt(key, iv, tag, cipher_text)
		return f'{hx(key)} {hx(iv)} {hx(tag)} {hx(cipher_text)} {answer}'

	def try_decode_symbol(self, variant, secret, peer_public_key, message, required, what, informative=False):
		"""MessageEncoder(key_pair).try_decode[_deprecated](peer, message) -> 'ok <flag> <hex>' | 'none:<exception>'"""
		encoder = self.encoders['symbol'](self.key_pair('symbol', secret))
		function = encoder.try_decode if 'current' == variant else encoder.try_decode_deprecated
		try:
			flag, out = function(self.public_key_class(peer_public_key), message)
			answer = f'ok {1 if flag else 0} {hx(bytes(out))}'
		except Exception as ex:  # pylint: disable=broad-except
			answer = 'none'
			self.ctx.count(f'decode-exception:{type(ex).__name__}')
		# what the model has to ask the cipher: follow the documented framing
		effective = message
		if 'deprecated' == variant and message and 1 == message[0]:
			try:
				text = message[1:].decode('utf8')
				effective = b'\x01' + bytes.fromhex(text) if text.isascii() and not any(ch.isspace() for ch in text) else message
			except (UnicodeDecodeError, ValueError):
				effective = message
		if effective and 1 == effective[0]:
			table = self._gcm_table('symbol', secret, peer_public_key, effective[1:])
		elif effective[:8] == bytes.fromhex('FE2A8061577301E2'):
			table = self._gcm_table('symbol', secret, effective[8:40], effective[40:])
		else:
			table = '- - - - refused'
		self.add(
			'try_decode', {'variant': variant, 'secret': secret, 'peer': peer_public_key, 'message': message}, answer, required,
			f'try_decode {variant} {hx(secret)} {hx(peer_public_key)} {hx(message)} {table}', what, informative)
		return answer

	def try_decode_nem(self, secret, peer_public_key, message_type, message, required, what, informative=False):
		from symbolchain import nc
		encoder = self.encoders['nem'](self.key_pair('nem', secret))
		wrapped = nc.Message()
		wrapped.message_type = nc.MessageType(message_type)
		wrapped.message = message
		try:
			flag, out = encoder.try_decode(self.public_key_class(peer_public_key), wrapped)
			answer = f'ok {1 if flag else 0} {hx(bytes(out if flag else out.message))}'
		except Exception as ex:  # pylint: disable=broad-except
			answer = 'none'
			self.ctx.count(f'decode-exception:{type(ex).__name__}')
		table = self._gcm_table('nem', secret, peer_public_key, message)
		salt, iv, cipher_text = message[:32], message[32:48], message[48:]
		cbc_key = _key_bytes(oracle_shared_key_deprecated(secret, peer_public_key, salt))
		if cbc_key is None or 16 != len(iv) or 0 != len(cipher_text) % 16:
			cbc = '- - - -'
		else:
			cbc = f'{hx(cbc_key)} {hx(iv)} {hx(cipher_text)} {hx(raw_cbc(cbc_key, iv, cipher_text, False))}'
		self.add(
			'try_decode_nem', {'secret': secret, 'peer': peer_public_key, 'type': message_type, 'message': message}, answer, required,
			f'try_decode_nem {hx(secret)} {hx(peer_public_key)} {message_type} {hx(message)} {table} {cbc}', what, informative)
		return answer


def _encode_order(checker, network, method, secret, peer_secret, clears):
	"""Several encode calls in a row on one encoder before anything is decoded: the results are distinct objects, an earlier
	result is not changed by a later call, and each decodes (recipient and sender) to its own plaintext."""
	from .c07 import ref_public_key
	ctx = checker.ctx
	public, peer_public = ref_public_key(network, secret), ref_public_key(network, peer_secret)
	encoder = checker.encoders[network](checker.key_pair(network, secret))
	args = {'network': network, 'method': method, 'secret': secret, 'peer_secret': peer_secret, 'clears': list(clears)}

	def snapshot(result):
		if 'nem' == network:
			return (result.message_type.value, bytes(result.message))
		return (None, bytes(result))

	results, snapshots = [], []
	for clear in clears:
		if 'delegation' == method:
			result = type(encoder).encode_persistent_harvesting_delegation(
				checker.public_key_class(peer_public), checker.key_pair('symbol', clear[:32]), checker.key_pair('symbol', clear[32:]))
		else:
			result = getattr(encoder, method)(checker.public_key_class(peer_public), clear)
		results.append(result)
		snapshots.append(snapshot(result))
		for index, (earlier, taken) in enumerate(zip(results[:-1], snapshots[:-1])):
			if 'nem' == network and earlier is result:
				ctx.fail('property', f'{network} {method}: call #{len(results)} returned the very object call #{index + 1} returned', {
					'op': 'encode_order', 'args': args})
			if snapshot(earlier) != taken:
				ctx.fail('property', f'{network} {method}: the message returned by call #{index + 1} changed when call #{len(results)} was made', {
					'op': 'encode_order', 'args': args, 'implementation': hx(snapshot(earlier)[1]), 'required': hx(taken[1])})
	# decode in encoding order and then the first once more, using the objects as they are now
	for index in list(range(len(clears))) + [0]:
		kind, current = snapshot(results[index])
		decoded = f'ok 1 {hx(clears[index])}'
		what = f'{network} {method}: message #{index + 1} of {len(clears)} encoded in a row does not decode to its own plaintext'
		if 'nem' == network:
			checker.try_decode_nem(peer_secret, public, kind, current, decoded, what + ' (recipient)')
			checker.try_decode_nem(secret, peer_public, kind, current, decoded, what + ' (sender)')
		elif 'delegation' == method:
			checker.try_decode_symbol('current', peer_secret, public, current, decoded, what + ' (node)')
		else:
			variant = 'deprecated' if 'encode_deprecated' == method else 'current'
			checker.try_decode_symbol(variant, peer_secret, public, current, decoded, what + ' (recipient)')
			checker.try_decode_symbol(variant, secret, peer_public, current, decoded, what + ' (sender)')
	ctx.count(f'order:{network}:{method}:{len(clears)}-in-a-row')


def _twin_round(checker, rng):
	"""A public key and its sign twin (bit 255 flipped: the point -A, canonical and of prime order whenever A is) in one process, in
	both orders: each shared key is the definition computed for ITS OWN key, the two keys differ, and a message from sender A is not
	decoded when the twin is named as the sender."""
	from .c07 import ref_public_key
	ctx = checker.ctx
	for network in ('symbol', 'nem'):
		for twin_first in (False, True):
			secret, peer_secret = rng.bytes_(32), rng.bytes_(32)
			public = ref_public_key(network, peer_secret)
			twin = public[:31] + bytes([public[31] ^ 0x80])
			order = [twin, public] if twin_first else [public, twin]
			answers = [checker.shared_key(network, secret, key, 'shared key for a public key / its sign twin used one after the other != definition for that very key') for key in order]
			if answers[0] == answers[1] and answers[0].startswith('ok '):
				ctx.fail('property', f'{network}: a public key and its sign twin give the same shared key {answers[0][3:19]}..', {
					'op': 'twin', 'args': {'network': network, 'secret': secret, 'public_key': order[0], 'twin': order[1]}})
			if 'nem' == network:
				salt = rng.bytes_(32)
				for key in order:
					checker.shared_key_deprecated(secret, key, salt)
			ctx.count(f'twin:{network}:' + ('twin-first' if twin_first else 'key-first'))
			# a message from `peer` decoded by `secret`: naming the twin as the sender must not decode it
			clear = rng.bytes_(rng.choice([1, 20, 40]))
			encoder = checker.encoders[network](checker.key_pair(network, peer_secret))
			encoded = encoder.encode(checker.public_key_class(ref_public_key(network, secret)), clear)
			for key in order:
				decoded = key == public
				if 'symbol' == network:
					checker.try_decode_symbol(
						'current', secret, key, encoded, f'ok 1 {hx(clear)}' if decoded else f'ok 0 {hx(encoded)}',
						'message decoded against the sender key / its sign twin one after the other: wrong outcome for that very key')
				else:
					checker.try_decode_nem(
						secret, key, 2, bytes(encoded.message), f'ok 1 {hx(clear)}' if decoded else None,
						'NEM message decoded against the sender key / its sign twin', informative=not decoded)
		checker.settle()


def _order_round(checker, rng):
	for network, methods in (('symbol', ('encode', 'encode_deprecated', 'delegation')), ('nem', ('encode', 'encode_deprecated'))):
		for method in methods:
			for count in (2, 3):
				sizes = [64] * count if 'delegation' == method else [rng.choice([0, 1, 16, 36, 100]) for _ in range(count)]
				_encode_order(checker, network, method, rng.bytes_(32), rng.bytes_(32), [rng.bytes_(size) for size in sizes])
			checker.settle()


def _with_random(values):
	"""Context manager: `secrets.token_bytes` returns the given byte strings in order (lengths are checked)."""
	from unittest import mock
	supply = iter(values)

	def token_bytes(count):
		value = next(supply)
		if len(value) != count:
			raise AssertionError(f'token_bytes({count}) asked, {len(value)} prepared')
		return value
	return mock.patch('secrets.token_bytes', side_effect=token_bytes)


def gen_secret(rng):
	if rng.random() < 0.08:
		return rng.choice([bytes(31) + b'\x01', b'\xff' * 32, b'\x01' + bytes(31), bytes(32), bytes(range(32))])
	return rng.bytes_(32)


def _corrupt(rng, data, position):
	out = bytearray(data)
	out[position] ^= rng.randrange(1, 256)
	return bytes(out)


def _positions(rng, length, everything, regions, budget):
	if everything or length <= budget:
		return list(range(length))
	picks = set(rng.sample(range(length), budget - 2 * len(regions)))
	for first, last in regions:
		picks.add(first)
		picks.add(min(length, last) - 1)
	return sorted(position for position in picks if 0 <= position < length)


def _shared_key_round(checker, rng):
	from .c07 import _P, ref_public_key
	ctx = checker.ctx
	for network in ('symbol', 'nem'):
		secret_a, secret_b = gen_secret(rng), gen_secret(rng)
		public_a, public_b = ref_public_key(network, secret_a), ref_public_key(network, secret_b)
		one = checker.shared_key(network, secret_a, public_b)
		other = checker.shared_key(network, secret_b, public_a)
		if one != other or not one.startswith('ok '):
			ctx.fail('property', f'shared key is not symmetric on {network}: {one} vs {other}', {
				'op': 'symmetry', 'args': {'network': network, 'secret_a': secret_a, 'secret_b': secret_b}})
		ctx.count(f'shared:{network}:symmetric-pair')
		# refused public keys
		kind = rng.randrange(4)
		if 0 == kind:
			y = _P + rng.randrange(19)
			bad = (y | (rng.randrange(2) << 255)).to_bytes(32, 'little')
			ctx.count(f'shared:{network}:non-canonical')
		elif 1 == kind:
			bad = rng.bytes_(32)
			ctx.count(f'shared:{network}:random-bytes')
		elif 2 == kind:
			bad = rng.choice([(1).to_bytes(32, 'little'), (_P - 1).to_bytes(32, 'little'), bytes(32), (1 | (1 << 255)).to_bytes(32, 'little')])
			ctx.count(f'shared:{network}:small-order')
		else:
			bad = bytearray(public_b)
			bad[rng.randrange(32)] ^= 1 << rng.randrange(8)
			bad = bytes(bad)
			ctx.count(f'shared:{network}:bit-flipped-key')
		answer = checker.shared_key(network, secret_a, bad, 'public key check: refusal/acceptance differs from canonical + on-curve + prime-order-subgroup')
		ctx.count(f'shared:{network}:answer:{answer.split(" ")[1] if answer.startswith("err") else "ok"}')
	if rng.random() < 0.5:
		secret_a, secret_b = gen_secret(rng), gen_secret(rng)
		salt = rng.bytes_(rng.choice([32, 32, 32, 31, 0, 40]))
		one = checker.shared_key_deprecated(secret_a, ref_public_key('nem', secret_b), salt)
		other = checker.shared_key_deprecated(secret_b, ref_public_key('nem', secret_a), salt)
		if one != other:
			ctx.fail('property', f'deprecated shared key is not symmetric: {one} vs {other}', {'op': 'symmetry-deprecated', 'args': {
				'secret_a': secret_a, 'secret_b': secret_b, 'salt': salt}})


def _symbol_message_round(checker, rng, size, everything):
	from .c07 import ref_public_key
	ctx = checker.ctx
	secret_a, secret_b, secret_c = gen_secret(rng), gen_secret(rng), rng.bytes_(32)
	public_a, public_b, public_c = (ref_public_key('symbol', secret) for secret in (secret_a, secret_b, secret_c))
	clear = rng.bytes_(size)
	iv = rng.bytes_(12)
	key = _key_bytes(oracle_shared_key('symbol', secret_a, public_b))
	cipher_text, tag = raw_gcm_encrypt(key, iv, clear)
	encoder = checker.encoders['symbol'](checker.key_pair('symbol', secret_a))
	for variant in ('current', 'deprecated'):
		with _with_random([iv]):
			encoded = (encoder.encode if 'current' == variant else encoder.encode_deprecated)(checker.public_key_class(public_b), clear)
		frame = tag + iv + cipher_text
		required = b'\x01' + (frame if 'current' == variant else frame.hex().encode('utf8'))
		checker.add(
			'encode', {'network': 'symbol', 'variant': variant, 'secret': secret_a, 'peer': public_b, 'iv': iv, 'clear': clear},
			'ok ' + hx(encoded), 'ok ' + hx(required),
			f'encode symbol {variant} {hx(secret_a)} {hx(public_b)} {hx(iv)} {hx(clear)} {hx(key)} {hx(cipher_text)} {hx(tag)}',
			'encoded message != 0x01 | tag | iv | ciphertext under the shared key' + (' (hex)' if 'deprecated' == variant else ''))
		ctx.count(f'message:symbol:{variant}:size{size if size in (0, 1, 15, 16, 17, 1024) else "-other"}')
		decoded = f'ok 1 {hx(clear)}'
		checker.try_decode_symbol(variant, secret_b, public_a, encoded, decoded, 'recipient does not decode the original plaintext')
		checker.try_decode_symbol(variant, secret_a, public_b, encoded, decoded, 'sender does not decode the original plaintext')
		if 'current' == variant:
			checker.try_decode_symbol('deprecated', secret_b, public_a, encoded, None, 'try_decode_deprecated on a binary message', informative=True)
		# decoding with any other key / against any other peer: clean not-decoded
		untouched = f'ok 0 {hx(encoded if "current" == variant else required[:1] + frame)}'
		checker.try_decode_symbol(variant, secret_c, public_a, encoded, untouched, 'decoding with another private key is not a clean (False, message)')
		checker.try_decode_symbol(variant, secret_b, public_c, encoded, untouched, 'decoding against another public key is not a clean (False, message)')
		# every single-byte corruption
		if 'current' == variant:
			regions = [(0, 1), (1, 17), (17, 29), (29, len(encoded))]
		else:
			regions = [(0, 1), (1, 33), (33, 57), (57, len(encoded))]
		for position in _positions(rng, len(encoded), everything, regions, 28):
			corrupted = _corrupt(rng, encoded, position)
			if 'current' == variant:
				expected = f'ok 0 {hx(corrupted)}'
			else:
				# hex text: a changed digit changes the bytes (clean failure with the un-hexed message, as the code returns it);
				# a change of letter case leaves tag/nonce/ciphertext as they were and still decodes; anything else is not hex
				try:
					text = corrupted[1:].decode('utf8')
					unhexed = bytes.fromhex(text) if 1 == corrupted[0] and text.isascii() and not any(ch.isspace() for ch in text) else None
				except (UnicodeDecodeError, ValueError):
					unhexed = None
				if unhexed is None:
					expected = f'ok 0 {hx(corrupted)}'
				elif unhexed == frame:
					expected = decoded
					ctx.count('corrupt:hex-case-only')
				else:
					expected = f'ok 0 {hx(b"\x01" + unhexed)}'
			region = ['marker', 'tag', 'nonce', 'ciphertext'][[first <= position < last for first, last in regions].index(True)]
			ctx.count(f'corrupt:symbol:{variant}:{region}')
			checker.try_decode_symbol(
				variant, secret_b, public_a, corrupted, expected,
				f'corrupting byte {position} ({region}) of a {variant} message does not give a clean (False, message)')
	# truncations and junk: the model must agree on which of them raise (no property claim for malformed lengths)
	for cut in rng.sample(range(len(encoded)), min(3, len(encoded))):
		checker.try_decode_symbol('current', secret_b, public_a, (b'\x01' + frame)[:cut], None, 'truncated message', informative=True)
		ctx.count('malformed:truncated')
	checker.try_decode_symbol('current', secret_b, public_a, bytes([rng.choice([0, 2, 0xFD, 0xFF])]) + frame, None, 'other marker', informative=True)


def _delegation_round(checker, rng, everything, ephemeral=None, corruptions=True):
	from .c07 import ref_public_key
	ctx = checker.ctx
	chosen = ephemeral
	ephemeral, node, remote, vrf, any_secret = (rng.bytes_(32) for _ in range(5))
	if chosen is not None:
		ephemeral = chosen
	public_node, public_ephemeral = ref_public_key('symbol', node), ref_public_key('symbol', ephemeral)
	iv = rng.bytes_(12)
	key = _key_bytes(oracle_shared_key('symbol', ephemeral, public_node))
	clear = remote + vrf
	cipher_text, tag = raw_gcm_encrypt(key, iv, clear)
	encoder_class = checker.encoders['symbol']
	with _with_random([ephemeral, iv]):
		encoded = encoder_class.encode_persistent_harvesting_delegation(
			checker.public_key_class(public_node), checker.key_pair('symbol', remote), checker.key_pair('symbol', vrf))
	required = bytes.fromhex('FE2A8061577301E2') + public_ephemeral + tag + iv + cipher_text
	checker.add(
		'encode_delegation', {'ephemeral': ephemeral, 'node': public_node, 'iv': iv, 'remote': remote, 'vrf': vrf}, 'ok ' + hx(encoded),
		'ok ' + hx(required),
		f'encode_delegation {hx(ephemeral)} {hx(public_node)} {hx(iv)} {hx(remote)} {hx(vrf)} {hx(key)} {hx(cipher_text)} {hx(tag)}',
		'delegation request != marker | ephemeral public key | tag | iv | ciphertext of (remote secret | vrf secret)')
	ctx.count('message:symbol:delegation')
	checker.try_decode_symbol(
		'current', node, ref_public_key('symbol', any_secret), encoded, f'ok 1 {hx(clear)}', 'the node does not decode the delegation request')
	checker.try_decode_symbol('current', any_secret, public_node, encoded, f'ok 0 {hx(encoded)}', 'another key decodes the delegation request')
	if not corruptions:
		return
	regions = [(0, 8), (8, 40), (40, 56), (56, 68), (68, len(encoded))]
	for position in _positions(rng, len(encoded), everything, regions, 40):
		corrupted = _corrupt(rng, encoded, position)
		region = ['marker', 'ephemeral-key', 'tag', 'nonce', 'ciphertext'][[first <= position < last for first, last in regions].index(True)]
		ctx.count(f'corrupt:symbol:delegation:{region}')
		# the property speaks about marker/tag/nonce/ciphertext; a corrupted ephemeral key may fail the key checks, of which only
		# 'not in main subgroup' is swallowed by the code: recorded, compared with the model, not required to be clean
		informative = 'ephemeral-key' == region
		answer = checker.try_decode_symbol(
			'current', node, public_node, corrupted, f'ok 0 {hx(corrupted)}',
			f'corrupting byte {position} ({region}) of a delegation request does not give a clean (False, message)', informative)
		if informative:
			ctx.count('delegation:corrupted-ephemeral-key:' + ('clean' if answer.startswith('ok 0') else 'raises' if 'none' == answer else 'decoded'))


def _nem_message_round(checker, rng, size):
	from .c07 import ref_public_key
	ctx = checker.ctx
	secret_a, secret_b, secret_c = gen_secret(rng), gen_secret(rng), rng.bytes_(32)
	public_a, public_b = ref_public_key('nem', secret_a), ref_public_key('nem', secret_b)
	clear = rng.bytes_(size)
	encoder = checker.encoders['nem'](checker.key_pair('nem', secret_a))
	label = size if size in (0, 1, 15, 16, 17, 1024) else '-other'
	# current format
	iv = rng.bytes_(12)
	key = _key_bytes(oracle_shared_key('nem', secret_a, public_b))
	cipher_text, tag = raw_gcm_encrypt(key, iv, clear)
	with _with_random([iv]):
		message = encoder.encode(checker.public_key_class(public_b), clear)
	encoded = bytes(message.message)
	checker.add(
		'encode', {'network': 'nem', 'variant': 'current', 'secret': secret_a, 'peer': public_b, 'iv': iv, 'clear': clear},
		f'ok {message.message_type.value} {hx(encoded)}', f'ok 2 {hx(tag + iv + cipher_text)}',
		f'encode nem current {hx(secret_a)} {hx(public_b)} {hx(iv)} {hx(clear)} {hx(key)} {hx(cipher_text)} {hx(tag)}',
		'encoded NEM message != ENCRYPTED, tag | iv | ciphertext under the shared key')
	checker.ops[-1] = checker.ops[-1][:2] + (f'ok {hx(encoded)}', f'ok {hx(tag + iv + cipher_text)}') + checker.ops[-1][4:]
	if 2 != message.message_type.value:
		ctx.fail('property', 'encoded NEM message is not of type ENCRYPTED', {'op': 'encode', 'args': {'secret': secret_a, 'peer': public_b}})
	ctx.count(f'message:nem:current:size{label}')
	decoded = f'ok 1 {hx(clear)}'
	checker.try_decode_nem(secret_b, public_a, 2, encoded, decoded, 'recipient does not decode the original plaintext')
	checker.try_decode_nem(secret_a, public_b, 2, encoded, decoded, 'sender does not decode the original plaintext')
	# deprecated format
	salt, iv16 = rng.bytes_(32), rng.bytes_(16)
	cbc_key = _key_bytes(oracle_shared_key_deprecated(secret_a, public_b, salt))
	cbc_text = raw_cbc(cbc_key, iv16, oracle_pad(clear), True)
	with _with_random([salt, iv16]):
		message = encoder.encode_deprecated(checker.public_key_class(public_b), clear)
	encoded_deprecated = bytes(message.message)
	checker.add(
		'encode_nem_deprecated', {'secret': secret_a, 'peer': public_b, 'salt': salt, 'iv': iv16, 'clear': clear}, f'ok {hx(encoded_deprecated)}',
		f'ok {hx(salt + iv16 + cbc_text)}',
		f'encode_nem_deprecated {hx(secret_a)} {hx(public_b)} {hx(salt)} {hx(iv16)} {hx(clear)} {hx(cbc_key)} {hx(cbc_text)}',
		'deprecated NEM message != salt | iv | AES-CBC(PKCS7(clear)) under Keccak-256(secret XOR salt)')
	ctx.count(f'message:nem:deprecated:size{label}')
	checker.try_decode_nem(secret_b, public_a, 2, encoded_deprecated, decoded, 'recipient does not decode the deprecated message')
	checker.try_decode_nem(secret_a, public_b, 2, encoded_deprecated, decoded, 'sender does not decode the deprecated message')
	# no tamper resistance is claimed on NEM: the following are compared with the model only
	checker.try_decode_nem(secret_c, public_a, 2, encoded, None, 'wrong recipient (NEM)', informative=True)
	for source in (encoded, encoded_deprecated):
		for position in rng.sample(range(len(source)), min(4, len(source))):
			checker.try_decode_nem(secret_b, public_a, 2, _corrupt(rng, source, position), None, 'corrupted NEM message', informative=True)
			ctx.count('corrupt:nem:model-only')
	checker.try_decode_nem(secret_b, public_a, 1, encoded, 'none', 'a PLAIN message is not refused by try_decode')
	for cut in (0, rng.randrange(1, 32), rng.randrange(32, 48)):
		checker.try_decode_nem(secret_b, public_a, 2, encoded_deprecated[:cut], None, 'truncated NEM message', informative=True)
		ctx.count('malformed:nem-truncated')


DELEGATION_MARKER_BYTES = bytes.fromhex('FE2A8061577301E2')


def _delegation_first_bytes(checker, rng, all_values):
	"""Delegation requests whose ephemeral public key begins with each byte value of the marker (always) and a spread of other values
	(all 256 when `all_values`): a field that follows a marker has to be tried with values that begin like the marker. The ephemeral
	secret is what `PrivateKey.random` would have drawn; secrets are searched for by the first byte of their public key."""
	from .c07 import ref_public_key
	ctx = checker.ctx
	wanted = set(range(256)) if all_values else set(DELEGATION_MARKER_BYTES)
	spread = 256 if all_values else 24
	found, others = {}, {}
	for _ in range(12000 if all_values else 6000):
		secret = rng.bytes_(32)
		first = ref_public_key('symbol', secret)[0]
		if first in wanted:
			found.setdefault(first, secret)
		elif len(others) < spread:
			others.setdefault(first, secret)
		if len(found) == len(wanted) and (all_values or len(others) >= spread):
			break
	missing = sorted(wanted - set(found))
	if missing:
		ctx.notes.append(f'delegation: no ephemeral secret found for public key first bytes {missing}')
		ctx.count('delegation:first-byte:not-found', len(missing))
	for first, secret in sorted({**others, **found}.items()):
		_delegation_round(checker, rng, False, ephemeral=secret, corruptions=False)
		ctx.count('delegation:ephemeral-key-first-byte:' + ('in-marker' if first in DELEGATION_MARKER_BYTES else 'other'))
		if 0 == len(checker.ops) % 64:
			checker.settle()
	ctx.count('delegation:distinct-first-bytes', len({**others, **found}))
	checker.settle()


def _search_gcm(rng, key, size, head, limit=6000):
	"""(iv, clear, ciphertext, tag) with iv[0] == ciphertext[0] == tag[0] (== head when given): the first byte after every
	fixed-size prefix of the frame repeats the first byte of the prefix (and of the marker)."""
	for _ in range(limit):
		iv = rng.bytes_(12)
		if head is not None:
			iv = bytes([head]) + iv[1:]
		clear = bytearray(rng.bytes_(size))
		if size:
			stream = raw_gcm_encrypt(key, iv, bytes(clear))[0][0] ^ clear[0]
			clear[0] = stream ^ iv[0]
		cipher_text, tag = raw_gcm_encrypt(key, iv, bytes(clear))
		if tag[0] == iv[0] and (not size or cipher_text[0] == iv[0]):
			return iv, bytes(clear), cipher_text, tag
	return None


def _boundary_round(checker, rng):
	"""Frames in which every field begins like the field (or marker) before it, produced by the real encoders with the IV / salt
	they would have drawn, decoded by recipient and sender."""
	from .c07 import ref_public_key
	ctx = checker.ctx
	for network in ('symbol', 'nem'):
		secret_a, secret_b = rng.bytes_(32), rng.bytes_(32)
		public_a, public_b = ref_public_key(network, secret_a), ref_public_key(network, secret_b)
		key = _key_bytes(oracle_shared_key(network, secret_a, public_b))
		encoder = checker.encoders[network](checker.key_pair(network, secret_a))
		heads = [1, None, DELEGATION_MARKER_BYTES[0]] if 'symbol' == network else [None, 2]
		for head in heads:
			size = rng.choice([1, 16, 20, 33])
			hit = _search_gcm(rng, key, size, head)
			label = 'any' if head is None else f'{head:02X}'
			if hit is None:
				ctx.count(f'boundary:{network}:heads-{label}:not-found')
				continue
			iv, clear, cipher_text, tag = hit
			frame = tag + iv + cipher_text
			decoded = f'ok 1 {hx(clear)}'
			ctx.count(f'boundary:{network}:tag-iv-ciphertext-begin-with-{label}')
			if 'symbol' == network:
				for variant in ('current', 'deprecated'):
					with _with_random([iv]):
						encoded = (encoder.encode if 'current' == variant else encoder.encode_deprecated)(checker.public_key_class(public_b), clear)
					required = b'\x01' + (frame if 'current' == variant else frame.hex().encode('utf8'))
					checker.add(
						'encode', {'network': 'symbol', 'variant': variant, 'secret': secret_a, 'peer': public_b, 'iv': iv, 'clear': clear},
						'ok ' + hx(encoded), 'ok ' + hx(required),
						f'encode symbol {variant} {hx(secret_a)} {hx(public_b)} {hx(iv)} {hx(clear)} {hx(key)} {hx(cipher_text)} {hx(tag)}',
						'encoded message != 0x01 | tag | iv | ciphertext under the shared key (fields beginning alike)')
					checker.try_decode_symbol(variant, secret_b, public_a, encoded, decoded, 'recipient does not decode a message whose fields begin alike')
					checker.try_decode_symbol(variant, secret_a, public_b, encoded, decoded, 'sender does not decode a message whose fields begin alike')
				# the same frame behind the delegation marker and a key: marker | key | tag | iv | ct
			else:
				with _with_random([iv]):
					message = encoder.encode(checker.public_key_class(public_b), clear)
				encoded = bytes(message.message)
				checker.add(
					'encode', {'network': 'nem', 'variant': 'current', 'secret': secret_a, 'peer': public_b, 'iv': iv, 'clear': clear},
					f'ok {hx(encoded)}', f'ok {hx(frame)}',
					f'encode nem current {hx(secret_a)} {hx(public_b)} {hx(iv)} {hx(clear)} {hx(key)} {hx(cipher_text)} {hx(tag)}',
					'encoded NEM message != tag | iv | ciphertext under the shared key (fields beginning alike)')
				checker.try_decode_nem(secret_b, public_a, 2, encoded, decoded, 'recipient does not decode a NEM message whose fields begin alike')
				checker.try_decode_nem(secret_a, public_b, 2, encoded, decoded, 'sender does not decode a NEM message whose fields begin alike')
		if 'nem' == network:
			# deprecated: salt | iv | ciphertext with the iv repeating the head of the salt and the ciphertext beginning like both
			for _ in range(2):
				salt = rng.bytes_(32)
				iv16 = salt[:16]
				cbc_key = _key_bytes(oracle_shared_key_deprecated(secret_a, public_b, salt))
				size = rng.choice([1, 15, 16, 31])
				hit = None
				for _ in range(4000):
					clear = rng.bytes_(size)
					cbc_text = raw_cbc(cbc_key, iv16, oracle_pad(clear), True)
					if cbc_text[0] == salt[0]:
						hit = clear, cbc_text
						break
				if hit is None:
					ctx.count('boundary:nem:deprecated:not-found')
					continue
				clear, cbc_text = hit
				with _with_random([salt, iv16]):
					message = encoder.encode_deprecated(checker.public_key_class(public_b), clear)
				encoded = bytes(message.message)
				checker.add(
					'encode_nem_deprecated', {'secret': secret_a, 'peer': public_b, 'salt': salt, 'iv': iv16, 'clear': clear}, f'ok {hx(encoded)}',
					f'ok {hx(salt + iv16 + cbc_text)}',
					f'encode_nem_deprecated {hx(secret_a)} {hx(public_b)} {hx(salt)} {hx(iv16)} {hx(clear)} {hx(cbc_key)} {hx(cbc_text)}',
					'deprecated NEM message != salt | iv | ciphertext (fields beginning alike)')
				decoded = f'ok 1 {hx(clear)}'
				checker.try_decode_nem(secret_b, public_a, 2, encoded, decoded, 'recipient does not decode a deprecated NEM message whose fields begin alike')
				checker.try_decode_nem(secret_a, public_b, 2, encoded, decoded, 'sender does not decode a deprecated NEM message whose fields begin alike')
				ctx.count('boundary:nem:deprecated:salt-iv-ciphertext-begin-alike')
		checker.settle()


SWEEP_LENGTHS = list(range(0, 161)) + [255, 256, 1000, 1023, 1024]


def _length_sweep(checker, rng, lengths):
	"""Every plaintext length for every encoder/decoder pair and format of both networks: what one party encodes, the recipient and
	the sender decode to the original plaintext, the frame has the documented size and is decryptable under the reference key."""
	from .c07 import ref_public_key
	ctx = checker.ctx
	marker = bytes.fromhex('FE2A8061577301E2')
	secrets_ = {network: (rng.bytes_(32), rng.bytes_(32)) for network in ('symbol', 'nem')}
	publics = {network: tuple(ref_public_key(network, secret) for secret in pair) for network, pair in secrets_.items()}
	node, any_public = rng.bytes_(32), ref_public_key('symbol', rng.bytes_(32))
	node_public = ref_public_key('symbol', node)
	for size in lengths:
		clear = rng.bytes_(size)
		decoded = f'ok 1 {hx(clear)}'
		turn = size % 2  # the two parties swap roles from one length to the next
		residue = f'mod16={size % 16:02d}'
		# Symbol, current and deprecated
		sender, recipient = secrets_['symbol'][turn], secrets_['symbol'][1 - turn]
		sender_public, recipient_public = publics['symbol'][turn], publics['symbol'][1 - turn]
		encoder = checker.encoders['symbol'](checker.key_pair('symbol', sender))
		for variant in ('current', 'deprecated'):
			encoded = (encoder.encode if 'current' == variant else encoder.encode_deprecated)(checker.public_key_class(recipient_public), clear)
			expected_size = 1 + (16 + 12 + size) * (1 if 'current' == variant else 2)
			if len(encoded) != expected_size or 1 != encoded[0]:
				ctx.fail('property', f'Symbol {variant} message for {size} plaintext bytes has {len(encoded)} bytes / marker {encoded[:1].hex()}, not 0x01 + {expected_size - 1}', {
					'op': 'length', 'args': {'network': 'symbol', 'variant': variant, 'secret': sender, 'peer': recipient_public, 'clear': clear}})
			checker.try_decode_symbol(variant, recipient, sender_public, encoded, decoded, f'recipient does not decode a {variant} message of {size} plaintext bytes')
			checker.try_decode_symbol(variant, sender, recipient_public, encoded, decoded, f'sender does not decode its own {variant} message of {size} plaintext bytes')
			ctx.count(f'length-class:symbol:{variant}:{residue}')
		# Symbol delegation layout with a body of every length (the public encoder only produces 64 bytes): marker | key | tag | iv | ct
		ephemeral = secrets_['symbol'][turn]
		key = _key_bytes(oracle_shared_key('symbol', ephemeral, node_public))
		iv = rng.bytes_(12)
		cipher_text, tag = raw_gcm_encrypt(key, iv, clear)
		request = marker + publics['symbol'][turn] + tag + iv + cipher_text
		checker.try_decode_symbol('current', node, any_public, request, decoded, f'the node does not decode a delegation-format message of {size} plaintext bytes')
		ctx.count(f'length-class:symbol:delegation-layout:{residue}')
		# NEM, current and deprecated
		sender, recipient = secrets_['nem'][turn], secrets_['nem'][1 - turn]
		sender_public, recipient_public = publics['nem'][turn], publics['nem'][1 - turn]
		encoder = checker.encoders['nem'](checker.key_pair('nem', sender))
		for variant in ('current', 'deprecated'):
			message = (encoder.encode if 'current' == variant else encoder.encode_deprecated)(checker.public_key_class(recipient_public), clear)
			encoded = bytes(message.message)
			expected_size = 16 + 12 + size if 'current' == variant else 32 + 16 + 16 * (size // 16 + 1)
			if len(encoded) != expected_size or 2 != message.message_type.value:
				ctx.fail('property', f'NEM {variant} message for {size} plaintext bytes has {len(encoded)} bytes (type {message.message_type.value}), not {expected_size} (type 2)', {
					'op': 'length', 'args': {'network': 'nem', 'variant': variant, 'secret': sender, 'peer': recipient_public, 'clear': clear}})
			checker.try_decode_nem(recipient, sender_public, 2, encoded, decoded, f'recipient does not decode a NEM {variant} message of {size} plaintext bytes')
			checker.try_decode_nem(sender, recipient_public, 2, encoded, decoded, f'sender does not decode its own NEM {variant} message of {size} plaintext bytes')
			ctx.count(f'length-class:nem:{variant}:{residue}')
		if 0 == size % 8:
			checker.settle()
	checker.settle()


def _helper_round(checker, rng):
	"""PKCS7 and hex helpers of the model against the real padder/unpadder and binascii."""
	import binascii

	from cryptography.hazmat.primitives import padding
	ctx = checker.ctx
	for _ in range(ctx.scale(40, 800)):
		clear = rng.bytes_(rng.choice([0, 1, 15, 16, 17, 31, 32, 33]))
		padder = padding.PKCS7(128).padder()
		padded = padder.update(clear) + padder.finalize()
		checker.add('pkcs7_pad', {'clear': clear}, hx(padded), hx(oracle_pad(clear)), f'pkcs7_pad {hx(clear)}', 'PKCS7 padding')
		candidate = padded if rng.random() < 0.4 else _corrupt(rng, padded, len(padded) - 1 - rng.choice([0, 0, 1, 5])) if rng.random() < 0.7 else rng.bytes_(rng.choice([0, 15, 16, 32]))
		unpadder = padding.PKCS7(128).unpadder()
		try:
			answer = 'ok ' + hx(unpadder.update(candidate) + unpadder.finalize())
		except ValueError:
			answer = 'none'
		expected = oracle_unpad(candidate)
		checker.add('pkcs7_unpad', {'padded': candidate}, answer, 'none' if expected is None else 'ok ' + hx(expected), f'pkcs7_unpad {hx(candidate)}', 'PKCS7 unpadding')
		data = rng.bytes_(rng.choice([0, 1, 2, 7, 30]))
		checker.add('hexlify', {'data': data}, hx(binascii.hexlify(data)), hx(data.hex().encode('utf8')), f'hexlify {hx(data)}', 'hexlify')
		text = binascii.hexlify(data) if rng.random() < 0.5 else bytes(rng.choice(b'0123456789abcdefABCDEFg \xc3\xa9\x80\xff') for _ in range(rng.choice([1, 2, 3, 4, 6])))
		if rng.random() < 0.3 and text:
			text = _corrupt(rng, text, rng.randrange(len(text)))
		try:
			answer = 'ok ' + hx(binascii.unhexlify(text.decode('utf8')))
		except (UnicodeDecodeError, binascii.Error):
			answer = 'caught'
		except ValueError:
			answer = 'escapes'
		checker.add('unhexlify_utf8', {'text': text}, answer, None, f'unhexlify_utf8 {hx(text)}', 'unhexlify(data.decode(utf8))', informative=True)


def _vectors(checker, rng):
	from .common import REPO
	ctx = checker.ctx
	count = ctx.scale(12, 150)
	for network in ('symbol', 'nem'):
		path = os.path.join(REPO, 'tests/vectors', network, 'crypto/3.test-derive-hkdf.json')
		if os.path.exists(path) and os.path.getsize(path):
			with open(path, 'rt', encoding='utf8') as infile:
				vectors = json.load(infile)
			for vector in rng.sample(vectors, min(count, len(vectors))):
				secret, public_key = bytes.fromhex(vector['privateKey']), bytes.fromhex(vector['otherPublicKey'])
				answer = checker.shared_key(network, secret, public_key)
				status, scalar_mul = oracle_shared_secret(network, secret, public_key)
				if answer != 'ok ' + vector['sharedKey'].upper() or 'ok' != status or hx(scalar_mul) != vector['scalarMulResult'].upper():
					ctx.fail('property', f'shared key != shipped vector ({network})', {'op': 'shared_key', 'args': {
						'network': network, 'secret': secret, 'public_key': public_key}, 'implementation': answer, 'required': 'ok ' + vector['sharedKey'].upper()})
				ctx.count(f'vector:derive-hkdf:{network}')
		path = os.path.join(REPO, 'tests/vectors', network, 'crypto/4.test-cipher.json')
		if os.path.exists(path) and os.path.getsize(path):
			with open(path, 'rt', encoding='utf8') as infile:
				vectors = json.load(infile)
			for vector in rng.sample(vectors, min(count, len(vectors))):
				secret, public_key = bytes.fromhex(vector['privateKey']), bytes.fromhex(vector['otherPublicKey'])
				frame = bytes.fromhex(vector['tag']) + bytes.fromhex(vector['iv']) + bytes.fromhex(vector['cipherText'])
				decoded = f'ok 1 {hx(bytes.fromhex(vector["clearText"]))}'
				if 'symbol' == network:
					checker.try_decode_symbol('current', secret, public_key, b'\x01' + frame, decoded, 'shipped cipher vector does not decode')
				else:
					checker.try_decode_nem(secret, public_key, 2, frame, decoded, 'shipped cipher vector does not decode')
				ctx.count(f'vector:cipher:{network}')
	for name, field in (('3.test-derive-deprecated.json', 'sharedKey'), ('4.test-cipher-deprecated.json', 'clearText')):
		path = os.path.join(REPO, 'tests/vectors/nem/crypto', name)
		if not (os.path.exists(path) and os.path.getsize(path)):
			continue
		with open(path, 'rt', encoding='utf8') as infile:
			vectors = json.load(infile)
		for vector in rng.sample(vectors, min(count, len(vectors))):
			secret, public_key, salt = (bytes.fromhex(vector[key]) for key in ('privateKey', 'otherPublicKey', 'salt'))
			if 'sharedKey' == field:
				answer = checker.shared_key_deprecated(secret, public_key, salt)
				if answer != 'ok ' + vector['sharedKey'].upper():
					ctx.fail('property', 'deprecated shared key != shipped vector', {'op': 'shared_key_deprecated', 'args': {
						'secret': secret, 'public_key': public_key, 'salt': salt}, 'implementation': answer})
			else:
				message = salt + bytes.fromhex(vector['iv']) + bytes.fromhex(vector['cipherText'])
				checker.try_decode_nem(secret, public_key, 2, message, f'ok 1 {hx(bytes.fromhex(vector["clearText"]))}', 'shipped deprecated cipher vector does not decode')
			ctx.count(f'vector:{name.split(".")[1]}')


SIZES = [0, 1, 15, 16, 17, 1024]


def run(ctx):
	rng = ctx.rng
	checker = Checker(ctx)
	_vectors(checker, rng)
	_helper_round(checker, rng)
	checker.settle()
	for _ in range(ctx.scale(30, 300)):
		_shared_key_round(checker, rng)
	checker.settle()
	_length_sweep(checker, rng, SWEEP_LENGTHS)
	if ctx.thorough:
		_length_sweep(checker, rng, list(range(161, 420)) + [2048, 4095, 4096])
	everything = 'thorough' == ctx.tier
	for repeat in range(ctx.scale(2, 10)):
		for size in SIZES + ([rng.randrange(2, 300)] if repeat else []):
			_symbol_message_round(checker, rng, size, everything and (size < 1024 or repeat < 1))
			checker.settle()
			_nem_message_round(checker, rng, size)
			checker.settle()
	for _ in range(ctx.scale(4, 25)):
		_delegation_round(checker, rng, everything)
		checker.settle()
	for _ in range(ctx.scale(3, 30)):
		_twin_round(checker, rng)
	for _ in range(ctx.scale(1, 6)):
		_order_round(checker, rng)
	_delegation_first_bytes(checker, rng, 'thorough' == ctx.tier)
	for _ in range(ctx.scale(1, 8)):
		_boundary_round(checker, rng)


def _unhex(value):
	if isinstance(value, dict) and 'hex' in value:
		return bytes.fromhex(value['hex'])
	if isinstance(value, list):
		return [_unhex(item) for item in value]
	return value


def replay(ctx, payload):
	"""Re-evaluates the recorded operation on the implementation, the oracle and the model."""
	print(payload['what'])
	case = payload.get('case') or {}
	name = case.get('op')
	args = {key: _unhex(value) for key, value in (case.get('args') or {}).items()}
	checker = Checker(ctx)
	required = case.get('required')
	if 'shared_key' == name:
		checker.shared_key(args['network'], args['secret'], args['public_key'])
	elif 'shared_key_deprecated' == name:
		checker.shared_key_deprecated(args['secret'], args['public_key'], args['salt'])
	elif 'twin' == name:
		for key in (args['public_key'], args['twin']):
			checker.shared_key(args['network'], args['secret'], key)
	elif 'encode_order' == name:
		_encode_order(checker, args['network'], args['method'], args['secret'], args['peer_secret'], args['clears'])
	elif 'try_decode' == name:
		checker.try_decode_symbol(args['variant'], args['secret'], args['peer'], args['message'], required, payload['what'])
	elif 'try_decode_nem' == name:
		checker.try_decode_nem(args['secret'], args['peer'], args['type'], args['message'], required, payload['what'])
	elif 'encode' == name and 'symbol' == args.get('network'):
		encoder = checker.encoders['symbol'](checker.key_pair('symbol', args['secret']))
		with _with_random([args['iv']]):
			function = encoder.encode if 'current' == args['variant'] else encoder.encode_deprecated
			encoded = function(checker.public_key_class(args['peer']), args['clear'])
		checker.add('encode', args, 'ok ' + hx(encoded), required, case.get('line', 'ping'), payload['what'])
	else:
		run(ctx)
		return
	checker.settle()
	for failure in ctx.failures:
		print(f'  reproduced: {failure.what[:300]}')
	if not ctx.failures:
		print('  not reproduced on this tree')


MANIFEST = {
	'level_text': (
		'Lean theorems over the models, for all keys, plaintexts, IVs and any abelian group, hash, HKDF and cipher: the shared key is '
		'HKDF(0^32, label)(encode(clamp(H(secret)) * A)) (shared_key_def, shared_key_instances) and is the same in both directions '
		'(shared_key_symmetric, also for the deprecated NEM derivation); non-canonical, off-curve and off-subgroup keys are refused and '
		'only those (noncanonical_refused, off_curve_refused, off_subgroup_refused, shared_key_ok_iff); messages are 0x01|tag|iv|ct, '
		'marker|ephemeral key|tag|iv|ct, tag|iv|ct (encode_layout, encode_layout_nem, decode_encode_delegation) and decode to the original '
		'plaintext for recipient and sender in current, deprecated-hex, delegation and both NEM formats under AES correctness '
		'(decode_encode_recipient, decode_encode_sender, decode_encode_deprecated, decode_encode_nem, decode_encode_nem_deprecated, '
		'gcm_wrapper_roundtrip, cbc_wrapper_roundtrip); try_decode has no third outcome (tamper_clean, tamper_rejected). Constants are '
		're-read from the sources each run (source_constants_tied); the models are tied to the SDK by differential execution (Lean curve, '
		'hashes and HKDF; real cipher answers passed through), and symmetry, an independent HKDF oracle, round trips, every single-byte '
		'corruption and wrong-key decodes are evaluated directly on the implementation.'),
	'level_note': (
		'partial: group laws, acceptance of honest keys, AES-GCM/CBC correctness are hypotheses; AES and its authenticity are not modelled '
		'(that a corrupted byte makes the cipher reject is observed on generated corruptions only); the cryptography/sha3 packages are '
		'/verif/shims stand-ins here; no tamper resistance is claimed or checked for NEM.'),
	'technique': 'Lean 4 theorems over hand-written models + differential correspondence and direct property evaluation on the Python SDK',
}

"""C17 - multi-file schemas resolve every import once, in dependency order.

Correspondence: Model/Cats/MultiFile.lean (through driver_c17) against catparser.__main__.LarkMultiFileParser and main()
on generated import graphs written to a scratch directory, for several working directories and include-path spellings;
direct evaluation of the property on the implementation against an independent depth-first traversal (`spec_dfs`).
"""
import contextlib
import io
import json
import os
import subprocess
import sys
from concurrent.futures import ThreadPoolExecutor

from .common import REPO, ROOT

RULE = (
	'import graphs from VERIF_SEED: chains, diamonds, repeated imports, cycles (through the root, self-imports, elsewhere), random DAGs and '
	'digraphs over 1-9 files, islands (unreachable files, also broken ones), missing and unparsable targets, files holding a single statement '
	'(one import / one declaration / one comment), imports interleaved with declarations, nested directories, distinct files whose names differ '
	'only in letter case / unicode normal form / under case folding, one file imported under several spellings (./x, zz/../x, x//y, d/./x, '
	'd/../d/x), structs that carry a validation error of either stage (8 PRE_EXPANSION kinds, among them 4 member attributes the member type '
	'does not have; 4 POST_EXPANSION kinds) as plain / abstract / inline struct, used as named inline / unnamed inline / member type / not at all, '
	'in the same or in an imported file, and valid sets in which @sizeref / @size / @discriminator / @comparer / @initializes name a member that '
	'exists only once an inline struct (named or unnamed, also from an imported file) has been expanded; each graph is written to a '
	'scratch directory and parsed from 2-3 (working directory x relative/absolute include path x root spelling) configurations through '
	'LarkMultiFileParser().parse, through main() in-process (exit status, output file, generator) and through `python -m catparser` '
	'subprocesses. A case is distinct by (graph, configuration, mode); non-trivial = the implementation was executed on it.')
TRUSTED_BASE = [
	'Lean 4.33 kernel; axioms of the property theorems: subset of {propext, Classical.choice, Quot.sound}',
	'hand-written model SymbolVerif/Model/Cats/MultiFile.lean (files abstracted to import list + declaration names), tied to __main__.py by '
	'this differential run only',
	'the harness oracle spec_dfs (independent 10-line depth-first traversal) and the file writer that turns a graph into .cats text',
	'yaml stand-in (shims/yaml or the harness stub) for the CLI runs; validation and generation stages are parameters of the exit-status '
	'theorems (their own correctness is C06/C15)',
]
ASSUMPTIONS = [
	'a file is identified by the file-system object its import string resolves to (the model abstracts import strings to file identities); '
	'spellings with `.`, `..`, doubled separators and absolute paths (of files inside and outside the include directory, with and without a decoy '
	'at <include>/<absolute path without its leading slash>) are generated, symlinks are not; the file system is case sensitive '
	'(checked at start, the case-collision graphs are skipped otherwise)',
	'a file is identified by its path; the model abstracts a parsed file to (imports in order, declaration names in order)',
	'exceptions that escape main() give interpreter exit status 1 (checked on real subprocesses for a sample of cases)',
]

SIG_ROOT_CYCLE = 'C17:root-cycle:root-declarations-repeated'
SIG_ROOT_CYCLE_MIXED = 'C17:root-cycle:root-declarations-repeated:mixed-root-spelling'
SIG_SINGLE_IMPORT = 'C17:single-import-file:import-dropped'
SIG_SINGLE_COMMENT = 'C17:single-comment-file:crash'


# region graphs -> files


def relpath_of(index, nested):
	return f'sub{index % 3}/f{index}.cats' if nested and index % 2 else f'f{index}.cats'


def decl_text(kind, name, doc):
	text = '# documentation of ' + name + '\n' if doc else ''
	if 'alias' == kind:
		return text + f'using {name} = uint32\n'
	if 'enum' == kind:
		return text + f'enum {name} : uint8\n\tFIRST = 1\n\tSECOND = 0x2\n'
	if 'struct' == kind:
		return text + f'struct {name}\n\tfield_a = uint8\n\tfield_b = uint16\n'
	if 'invalid' == kind:  # parses, fails PRE_EXPANSION validation
		return text + f'struct {name}\n\tfield_a = Missing{name}\n'
	if 'invalid_post' == kind:  # parses, fails POST_EXPANSION validation only
		return text + f'@size(absent)\nstruct {name}\n\tfield_a = uint8\n'
	if kind.startswith('carrier:'):  # carrier:<error kind or ok>:<plain|abstract|inline>
		_, error, disposition = kind.split(':')
		attribute, body = CARRIER_ERRORS[error]
		return text + f'{attribute}{"" if "plain" == disposition else disposition + " "}struct {name}\n{body}'
	if kind.startswith('refhost:'):  # refhost:<what refers>-<named|unnamed>:<name of an `ok-part` inline struct>
		_, variant, carrier = kind.split(':')
		what, usage = variant.rsplit('-', 1)
		prefix = 'body_' if 'named' == usage else ''
		inline = f'\tbody = inline {carrier}\n' if 'named' == usage else f'\tinline {carrier}\n'
		attribute, members = {
			'sizeref': ('', f'{inline}\t@sizeref({prefix}payload_size, 2)\n\ttotal = uint32\n'),
			'size': (f'@size({prefix}payload_size)\n', f'{inline}\tother = uint8\n'),
			'discriminator': (f'@discriminator({prefix}kind)\n', f'{inline}\tother = uint8\n'),
			'comparer': (f'@comparer({prefix}kind!ripemd_keccak_256)\n', f'{inline}\tother = uint8\n'),
			'initializes': (f'@initializes({prefix}kind, HOST_KIND)\n', f'\tHOST_KIND = make_const(uint8, 3)\n{inline}'),
		}[what]
		return text + f'{attribute}struct {name}\n{members}'
	if kind.startswith('host:'):  # host:<named|unnamed|fieldtype>:<carrier name>
		_, usage, carrier = kind.split(':')
		member = {'named': f'body = inline {carrier}', 'unnamed': f'inline {carrier}', 'fieldtype': f'body = {carrier}'}[usage]
		return text + f'struct {name}\n\tbefore = uint8\n\t{member}\n'
	raise ValueError(kind)


# validation errors by stage: (attribute lines, body) of the struct that carries the error. `pre-*` are reported by the PRE_EXPANSION
# pass, `post-*` only by the POST_EXPANSION pass (struct-level attributes that name an unknown member); `ok` carries none.
CARRIER_ERRORS = {
	'pre-unknown-type': ('', '\tfield_a = MissingThing\n'),
	'pre-duplicate-field': ('', '\tfield_a = uint8\n\tfield_a = uint16\n'),
	'pre-unknown-condition': ('', '\tfield_a = uint8 if 3 equals absent\n'),
	'pre-unknown-size': ('', '\tfield_a = array(uint8, absent)\n'),
	'post-size': ('@size(absent)\n', '\tfield_a = uint8\n'),
	'post-discriminator': ('@discriminator(absent)\n', '\tfield_a = uint8\n'),
	'post-initializes': ('@initializes(absent, FOO_BAR)\n', '\tfield_a = uint8\n'),
	'post-comparer': ('@comparer(absent)\n', '\tfield_a = uint8\n'),
	# a member attribute that the type of the member does not have: reported by the PRE_EXPANSION pass (`inapplicable attribute`), which runs
	# before apply_attributes would raise on it
	'pre-inapplicable-sort-key': ('', '\t@sort_key(key)\n\tfield_a = uint8\n'),
	'pre-inapplicable-sizeref': ('', '\tcount = uint8\n\t@sizeref(count)\n\tfield_a = array(uint8, 3)\n'),
	'pre-inapplicable-alignment': ('', '\t@alignment(8)\n\tfield_a = uint16\n'),
	'pre-inapplicable-byte-constrained': ('', '\t@is_byte_constrained\n\tfield_a = uint32\n'),
	'ok': ('', '\tfield_a = uint8\n'),
	# members that attributes of a host refer to once the struct has been expanded into the host (`refhost:` kinds)
	'ok-part': ('', '\tpayload_size = uint32\n\tkind = uint8\n'),
}
# attributes of a host that name a member which exists only after the expansion of an inline struct: a valid set (checked POST_EXPANSION)
REFERENCES = ['sizeref', 'size', 'discriminator', 'comparer', 'initializes']


UNPARSABLE_TEXTS = ['using lower = uint8\n', 'struct\n', '', 'using Foo = uint24\n', 'import foo\n', 'struct Foo\nfield = uint8\n', 'using Foo = uint8']


def spell(path, style, absolute=None):
	"""another spelling of the include-relative path of a file (the directory `zz` exists in every include directory); `absolute` is the
	absolute path of the file, used by the style of that name (pathlib: `include / "/abs/x.cats"` is `/abs/x.cats`)"""
	if 'absolute' == style:
		return absolute if absolute else path
	if 'dot' == style:
		return './' + path
	if 'dotdot' == style:
		return 'zz/../' + path
	if 'slashes' == style:
		return path.replace('/', '//') if '/' in path else './/' + path
	if 'inner-dot' == style:
		head, tail = os.path.split(path)
		return f'{head}/./{tail}' if head else './././' + path
	if 'dir-dotdot' == style and '/' in path:
		head, tail = path.split('/', 1)
		return f'{head}/../{head}/{tail}'
	return path


SPELLINGS = ['plain', 'dot', 'dotdot', 'slashes', 'inner-dot', 'dir-dotdot']


def file_text(spec, paths, locations=None):
	if 'unparsable' == spec['kind']:
		return UNPARSABLE_TEXTS[spec['variant'] % len(UNPARSABLE_TEXTS)]
	parts = []
	styles = list(spec.get('spellings') or [])
	for item in spec['items']:
		if 'import' == item[0]:
			parts.append(f'import "{spell(paths[item[1]], styles.pop(0) if styles else "plain", (locations or {}).get(item[1]))}"\n')
		elif 'decl' == item[0]:
			parts.append(decl_text(item[1], item[2], item[3]))
		else:
			parts.append('# a free comment\n')
		if item[-1] == 'blank':
			parts.append('\n')
	return ''.join(parts)


def gen_items(rng, index, imports, single=None, decl_kinds=('alias', 'enum', 'struct')):
	"""items of one file: ['import', id] | ['decl', kind, name, doc] | ['comment'] (a trailing 'blank' adds an empty line)."""
	if 'import' == single:
		return [['import', imports[0]]]
	if 'decl' == single:
		return [['decl', rng.choice(decl_kinds), f'Ty{index}x0', rng.random() < 0.5]]
	if 'comment' == single:
		return [['comment']]
	decls = [['decl', rng.choice(decl_kinds), f'Ty{index}x{k}', rng.random() < 0.3] for k in range(rng.choice([0, 1, 1, 2, 3]))]
	items = [['import', target] for target in imports]
	if rng.random() < 0.3 and items and decls:
		# imports interleaved with declarations, both in their own order (the implementation still resolves all imports first)
		total = len(items) + len(decls)
		import_positions = set(rng.sample(range(total), len(items)))
		import_iter, decl_iter = iter(items), iter(decls)
		items = [next(import_iter) if position in import_positions else next(decl_iter) for position in range(total)]
	else:
		items = items + decls
	# free comments only where they stay separate statements: before an import or at the very end
	result = []
	for item in items:
		if 'import' == item[0] and rng.random() < 0.15 and (not result or 'comment' != result[-1][0]):
			result.append(['comment'])
		result.append(item)
	if rng.random() < 0.15 and result and 'comment' != result[-1][0]:
		result.append(['comment'])
	filler = 7
	while len(result) < 2:  # single-statement files are generated on purpose only
		result.insert(0, ['decl', 'alias', f'Ty{index}x{filler}', False])
		filler += 1
	for item in result:
		if rng.random() < 0.2:
			item.append('blank')
	return result


DISTINCT_NAMES = [True]  # the scratch file system keeps names that differ in case / unicode normal form apart


def probe_file_system(directory):
	os.makedirs(directory, exist_ok=True)
	names = ['probe.cats', 'PROBE.cats', 'caf\u00e9.cats', 'cafe\u0301.cats']
	for name in names:
		with open(os.path.join(directory, name), 'wt', encoding='utf8') as outfile:
			outfile.write(name)
	DISTINCT_NAMES[0] = len(set(os.listdir(directory))) == len(names)
	return DISTINCT_NAMES[0]


def gen_graph(rng, thorough):
	"""returns dict(files={id: spec}, root=id, shape=str). ids are 'f<n>'; an import may name an id without a file (missing)."""
	# pylint: disable=too-many-branches,too-many-statements,too-many-locals
	shape = rng.choice([
		'chain', 'diamond', 'repeated', 'cycle', 'root-cycle', 'root-self', 'dag', 'digraph', 'digraph', 'missing', 'unparsable', 'single-import',
		'single-decl', 'single-comment', 'invalid', 'invalid-post', 'island', 'case-collision', 'case-collision', 'unicode-names', 'spellings',
		'carriers', 'carriers', 'absolute-imports', 'absolute-imports'])
	if shape in ('case-collision', 'unicode-names') and not DISTINCT_NAMES[0]:
		shape = 'dag'
	count = rng.randint(2, 12 if thorough else 7)
	edges = {index: [] for index in range(count)}
	kinds = {}
	singles = {}
	missing = []
	if 'chain' == shape:
		for index in range(count - 1):
			edges[index] = [index + 1]
	elif 'diamond' == shape:
		count = max(count, 4)
		edges = {index: [] for index in range(count)}
		edges[0] = [1, 2]
		edges[1] = [3]
		edges[2] = [3]
		for index in range(4, count):
			edges[rng.randrange(index)].append(index)
	elif 'repeated' == shape:
		for index in range(1, count):
			edges[0].append(index)
		edges[0] += [rng.randrange(1, count) for _ in range(rng.randint(1, 3))]
		rng.shuffle(edges[0])
	elif 'cycle' == shape:
		count = max(count, 3)
		edges = {index: [] for index in range(count)}
		edges[0] = [1]
		for index in range(1, count - 1):
			edges[index] = [index + 1]
		edges[count - 1] = [1]
	elif 'root-cycle' == shape:
		for index in range(count - 1):
			edges[index] = [index + 1]
		edges[count - 1] = [0]
		if rng.random() < 0.4:
			edges[rng.randrange(count)].append(0)
	elif 'root-self' == shape:
		edges[0] = [0] + list(range(1, count))
	else:
		density = rng.choice([0.15, 0.3, 0.5])
		for source in range(count):
			for target in range(count):
				if 'digraph' == shape or target > source:
					if rng.random() < density and (target != 0 or rng.random() < 0.3):
						edges[source].append(target)
			rng.shuffle(edges[source])
		if rng.random() < 0.3 and count > 1:
			edges[0].append(rng.randrange(1, count))  # possibly repeated
	if 'missing' == shape:
		missing = [count + 5]
		edges[rng.randrange(count)].append(count + 5)
	if 'unparsable' == shape:
		kinds[rng.randrange(count)] = 'unparsable'
	if shape in ('single-import', 'single-decl', 'single-comment'):
		which = rng.randrange(count)
		if 'single-import' == shape:
			if not edges[which]:
				edges[which] = [(which + 1) % count]
			edges[which] = edges[which][:1]
			singles[which] = 'import'
			if which != 0 and not any(which in targets for targets in edges.values()):
				edges[0].append(which)
		elif 'single-decl' == shape:
			edges[which] = []
			singles[which] = 'decl'
		else:
			edges[which] = []
			singles[which] = 'comment'
			if which != 0 and not any(which in targets for targets in edges.values()):
				edges[0].insert(rng.randrange(len(edges[0]) + 1), which)
	if 'island' == shape:
		island = count
		count += 1
		edges[island] = [0] if rng.random() < 0.5 else []
		if rng.random() < 0.5:
			kinds[island] = 'unparsable'
	nested = rng.random() < 0.4
	carriers = {}
	if 'carriers' == shape:
		# a struct that carries a validation error of one stage (or none), plain / abstract / inline, used as a named inline, an unnamed inline,
		# a member type, or not at all, by a struct of the same file or of a file that imports the carrier's file
		for number in range(rng.choice([1, 1, 2])):
			error = rng.choice(list(CARRIER_ERRORS))
			disposition = rng.choice(['plain', 'abstract', 'inline', 'inline'])
			usage = rng.choice(['none', 'named', 'unnamed', 'fieldtype'])
			if 'named' == usage and 'inline' != disposition:
				usage = 'unnamed'  # (a named inline of a struct that is not inline is an error of the host, not of the carrier)
			carrier_file, host_file = rng.randrange(count), rng.randrange(count)
			if host_file != carrier_file and carrier_file not in edges[host_file]:
				edges[host_file].append(carrier_file)
			for member in (host_file, carrier_file):
				if 0 != member and rng.random() < 0.8 and not any(member in targets for source, targets in edges.items() if source != member):
					edges[0].append(member)
			if rng.random() < 0.3:
				# a valid pair: attributes of the host name members that the inline struct brings in
				carriers.setdefault(carrier_file, []).append(['decl', 'carrier:ok-part:inline', f'Car{number}x{carrier_file}', False])
				carriers.setdefault(host_file, []).append([
					'decl', f'refhost:{rng.choice(REFERENCES)}-{rng.choice(["named", "unnamed"])}:Car{number}x{carrier_file}', f'Host{number}x{host_file}', False])
				continue
			if 'ok-part' == error:
				error = 'ok'
			carriers.setdefault(carrier_file, []).append(['decl', f'carrier:{error}:{disposition}', f'Car{number}x{carrier_file}', rng.random() < 0.2])
			if 'none' != usage:
				carriers.setdefault(host_file, []).append(['decl', f'host:{usage}:Car{number}x{carrier_file}', f'Host{number}x{host_file}', False])
	if 'spellings' == shape and count > 1:
		# the same file imported twice from one place, so that two spellings of one file meet
		for _ in range(rng.randint(1, 2)):
			source = rng.randrange(count)
			edges[source].append(rng.choice(edges[source]) if edges[source] and rng.random() < 0.7 else rng.randrange(count))
	custom_paths = {}
	if shape in ('case-collision', 'unicode-names') and count > 1:
		# distinct files whose names differ only in letter case / in the unicode normal form / under case folding
		for number in range(rng.choice([1, 1, 2])):
			first, second = rng.sample(range(count), 2)
			if first in custom_paths or second in custom_paths:
				continue
			base = relpath_of(first, nested)
			if 'case-collision' == shape:
				head, tail = os.path.split(base)
				variant = rng.choice(['stem', 'extension', 'directory', 'all'])
				if 'directory' == variant and not head:
					variant = 'stem'
				custom_paths[first] = base
				custom_paths[second] = {
					'stem': os.path.join(head, tail.replace('f', 'F')), 'extension': os.path.join(head, tail.replace('.cats', '.CATS')),
					'directory': os.path.join(head.upper(), tail), 'all': base.upper()}[variant]
			else:
				pair = rng.choice([('caf\u00e9', 'cafe\u0301'), ('stra\u00dfe', 'strasse'), ('\u01c6x', '\u01c5x'), ('\ufb01le', 'file')])
				directory = os.path.dirname(base)
				custom_paths[first] = os.path.join(directory, f'{pair[0]}{number}.cats')
				custom_paths[second] = os.path.join(directory, f'{pair[1]}{number}.cats')
			for member in (first, second):
				if 0 != member and not any(member in targets for source, targets in edges.items() if source != member):
					edges[rng.choice([0, 0, first if first != member else 0])].append(member)
	files = {}
	for index in range(count):
		ident = f'f{index}'
		if 'unparsable' == kinds.get(index):
			files[ident] = {'path': relpath_of(index, nested), 'kind': 'unparsable', 'variant': rng.randrange(100), 'items': []}
			continue
		decl_kinds = ('alias', 'enum', 'struct')
		if 'invalid' == shape and (0 == index or rng.random() < 0.3):
			decl_kinds = ('invalid',)
		if 'invalid-post' == shape and (0 == index or rng.random() < 0.3):
			decl_kinds = ('invalid_post',)
		items = gen_items(rng, index, [f'f{target}' for target in edges[index]], singles.get(index), decl_kinds)
		items += carriers.get(index, [])
		files[ident] = {'path': custom_paths.get(index, relpath_of(index, nested)), 'kind': 'parsed', 'items': items}
		if 'spellings' == shape or (shape in ('case-collision', 'unicode-names') and rng.random() < 0.3):
			files[ident]['spellings'] = [rng.choice(SPELLINGS) for _ in imports_of(files[ident])]
	outside = []
	if 'absolute-imports' == shape:
		# import strings that are absolute paths, of files inside the include directory and of files outside it (those only so)
		outside = [f'f{index}' for index in range(1, count) if rng.random() < 0.3]
		for ident, spec in files.items():
			if 'parsed' == spec['kind']:
				spec['spellings'] = ['absolute' if target in outside or rng.random() < 0.6 else rng.choice(SPELLINGS) for target in imports_of(spec)]
	for index in range(count):
		if 'unparsable' == kinds.get(index) and index in custom_paths:
			files[f'f{index}']['path'] = custom_paths[index]
	return {
		'files': files, 'root': 'f0', 'shape': shape, 'missing': [f'f{index}' for index in missing], 'nested': nested, 'outside': outside,
		'rerooted_decoys': 'absolute-imports' == shape and rng.random() < 0.5}


def imports_of(spec):
	return [item[1] for item in spec['items'] if 'import' == item[0]]


def decls_of(spec):
	return [item[2] for item in spec['items'] if 'decl' == item[0]]


def write_graph(graph, directory):
	paths = {ident: spec['path'] for ident, spec in graph['files'].items()}
	for ident in graph['missing']:
		paths[ident] = f'{ident}-absent.cats'
	os.makedirs(os.path.join(directory, 'zz'), exist_ok=True)
	locations = file_locations(graph, directory)
	for ident, spec in graph['files'].items():
		target = locations[ident]
		os.makedirs(os.path.dirname(target), exist_ok=True)
		with open(target, 'wt', encoding='utf8', newline='') as outfile:
			outfile.write(file_text(spec, paths, locations))
		if graph.get('rerooted_decoys') and 'absolute' in [style for other in graph['files'].values() for style in other.get('spellings') or []]:
			# a decoy where the absolute import string would land if it were taken relative to the include directory
			decoy = os.path.join(directory, target.lstrip(os.sep))
			os.makedirs(os.path.dirname(decoy), exist_ok=True)
			with open(decoy, 'wt', encoding='utf8') as outfile:
				outfile.write(f'using RerootedDecoy{ident.upper()}x = uint8\n')
	return paths


def file_locations(graph, directory):
	"""absolute path of every file of the graph: under the include directory, or (files marked `outside`) next to it"""
	outside = os.path.join(os.path.dirname(os.path.abspath(directory)), 'outside')
	return {
		ident: os.path.join(outside if ident in (graph.get('outside') or []) else os.path.abspath(directory), spec['path'])
		for ident, spec in graph['files'].items()}


# endregion

# region oracles


def spec_dfs(graph):
	"""The property, executable: depth first, import order, each file once. ('ok', names, processed) | ('err', kind, file)."""
	names, processed = [], []

	def visit(ident):
		if ident in processed:
			return
		processed.append(ident)
		spec = graph['files'].get(ident)
		if spec is None or 'unparsable' == spec['kind']:
			raise LookupError('missing' if spec is None else 'unparsable', ident)
		for target in imports_of(spec):
			visit(target)
		names.extend(decls_of(spec))

	try:
		visit(graph['root'])
	except LookupError as ex:
		return ('err', ex.args[0], ex.args[1])
	return ('ok', names, processed)


def simulate_defects(graph, flags):
	"""spec_dfs with the known defects of the unchanged tree switched on (used only to recognise a known finding):
	'root': the root is remembered as str, imports as Path, so an import of the root re-enters it once;
	'single-import': a file that is exactly one import statement returns nothing and its import is not followed;
	'single-comment': a file that is exactly one comment makes parse() raise AttributeError."""
	names, processed = [], []

	def visit(ident, token):
		if token in processed:
			return
		processed.append(token)
		spec = graph['files'].get(ident)
		if spec is None or 'unparsable' == spec['kind']:
			raise LookupError('missing' if spec is None else 'unparsable', ident)
		if 1 == len(spec['items']):
			if 'single-import' in flags and 'import' == spec['items'][0][0]:
				return
			if 'single-comment' in flags and 'comment' == spec['items'][0][0]:
				raise LookupError('crash', ident)
		for target in imports_of(spec):
			visit(target, target)
		names.extend(decls_of(spec))

	try:
		visit(graph['root'], ('root-as-str',) if 'root' in flags else graph['root'])
	except LookupError as ex:
		return ('err', ex.args[0], ex.args[1])
	return ('ok', names, [graph['root'] if isinstance(token, tuple) else token for token in processed])


def validity(graph, names):
	"""(pre-expansion valid, post-expansion valid) of the contributed declarations."""
	kinds = {item[2]: item[1] for spec in graph['files'].values() for item in spec['items'] if 'decl' == item[0]}
	pre = all('invalid' != kinds[name] and not kinds[name].startswith('carrier:pre-') for name in names)
	post = all('invalid_post' != kinds[name] and not kinds[name].startswith('carrier:post-') for name in names)
	return pre, post


def emitted(graph, names):
	"""the declarations handed to the generator: the contributed ones without the inline structs (expanded into their hosts)"""
	kinds = {item[2]: item[1] for spec in graph['files'].values() for item in spec['items'] if 'decl' == item[0]}
	return [name for name in names if not (kinds[name].startswith('carrier:') and kinds[name].endswith(':inline'))]


def expected_exit(graph, outcome, generation_ok=True):
	if 'err' == outcome[0]:
		return 1
	pre, post = validity(graph, outcome[1])
	if not pre or not post:
		return 2
	return 0 if generation_ok else 1


def explain(graph, observed, project):
	"""smallest set of known defects whose simulation reproduces `observed` (through `project`), or None."""
	flag_names = ['root', 'single-import', 'single-comment']
	subsets = [[]]
	for name in flag_names:
		subsets += [subset + [name] for subset in subsets]
	for subset in sorted(subsets[1:], key=len):
		if project(simulate_defects(graph, set(subset))) == observed:
			return subset
	return None


def signatures_for(flags, config):
	result = []
	for flag in flags:
		if 'root' == flag:
			result.append(SIG_ROOT_CYCLE if 'consistent' == config['root_spelling'] else SIG_ROOT_CYCLE_MIXED)
		elif 'single-import' == flag:
			result.append(SIG_SINGLE_IMPORT)
		else:
			result.append(SIG_SINGLE_COMMENT)
	return result


# endregion

# region running the implementation


def gen_configs(rng, how_many):
	configs = []
	for _ in range(how_many):
		configs.append({
			'cwd': rng.choice(['include', 'parent', 'elsewhere']),
			'include_spelling': rng.choice(['absolute', 'relative']),
			'root_spelling': rng.choice(['consistent', 'consistent', 'mixed']),
		})
	return configs


def resolve_config(config, case_dir):
	include_abs = os.path.join(case_dir, 'inc')
	cwd = {'include': include_abs, 'parent': case_dir, 'elsewhere': os.path.join(case_dir, 'other', 'deeper')}[config['cwd']]
	os.makedirs(cwd, exist_ok=True)
	include = include_abs if 'absolute' == config['include_spelling'] else os.path.relpath(include_abs, cwd)
	return cwd, include, include_abs


def root_argument(config, include, include_abs, root_rel):
	if 'consistent' == config['root_spelling']:
		return os.path.join(include, root_rel)  # as scripts/ci/test_vectors.sh spells it
	# mixed: absolute root with a relative include path and vice versa
	if os.path.isabs(include):
		return None  # filled in by the caller relative to cwd
	return os.path.join(include_abs, root_rel)


@contextlib.contextmanager
def working_directory(path):
	previous = os.getcwd()
	os.chdir(path)
	try:
		yield
	finally:
		os.chdir(previous)


class Implementation:
	"""The real catparser.__main__ from VERIF_REPO's working tree."""

	def __init__(self, ctx):
		import importlib

		self.stub_dir = os.path.join(ctx.tmpdir(), 'stubs')
		os.makedirs(os.path.join(self.stub_dir, 'verifgen'), exist_ok=True)
		self.extra_paths = [self.stub_dir]
		self.yaml_kind = 'shims/yaml'
		self.stub_first = False
		try:
			yaml_module = importlib.import_module('yaml')
			usable = hasattr(yaml_module, 'SafeDumper') and hasattr(yaml_module, 'dump')
		except Exception:  # pylint: disable=broad-except
			usable = False
		if not usable:
			# shims/yaml is absent or incomplete: a minimal stand-in so that main() can be executed at all
			self.yaml_kind = 'harness stub (no usable yaml module on the path)'
			self.stub_first = True
			for name in [name for name in sys.modules if 'yaml' == name or name.startswith('yaml.')]:
				del sys.modules[name]
			with open(os.path.join(self.stub_dir, 'yaml.py'), 'wt', encoding='utf8') as outfile:
				outfile.write(
					'import json\n\n\nclass SafeDumper:\n\tdef ignore_aliases(self, data):\n\t\treturn True\n\n\n'
					'def dump(data, stream=None, Dumper=None, **kwargs):\n\ttext = json.dumps(data, indent=1, default=str) + "\\n"\n'
					'\tif stream is None:\n\t\treturn text\n\tstream.write(text)\n\treturn None\n')
		with open(os.path.join(self.stub_dir, 'verifgen', '__init__.py'), 'wt', encoding='utf8') as outfile:
			outfile.write('')
		with open(os.path.join(self.stub_dir, 'verifgen', 'NamesGenerator.py'), 'wt', encoding='utf8') as outfile:
			outfile.write(
				'class NamesGenerator:\n\t@staticmethod\n\tdef generate(type_descriptors, output):\n'
				'\t\twith open(output, "wt", encoding="utf8") as outfile:\n'
				'\t\t\toutfile.write("".join(f"{model.name}\\n" for model in type_descriptors))\n')
		with open(os.path.join(self.stub_dir, 'verifgen', 'FailingGenerator.py'), 'wt', encoding='utf8') as outfile:
			outfile.write(
				'class FailingGenerator:\n\t@staticmethod\n\tdef generate(type_descriptors, output):\n\t\traise RuntimeError("generation failed")\n')
		if self.stub_dir not in sys.path:
			if self.stub_first:
				sys.path.insert(0, self.stub_dir)
			else:
				sys.path.append(self.stub_dir)
		self.module = importlib.import_module('catparser.__main__')
		# one grammar compilation for the bulk of the cases (a fresh compilation is used for every 10th case)
		self.real_factory = self.module.create_cats_lark_parser
		self.shared_parser = None

	def _factory(self):
		if self.shared_parser is None:
			self.shared_parser = self.real_factory()
		return self.shared_parser

	@contextlib.contextmanager
	def shared(self, enabled):
		if enabled:
			self.module.create_cats_lark_parser = self._factory
		try:
			yield
		finally:
			self.module.create_cats_lark_parser = self.real_factory

	def parse(self, cwd, include, root, share=True):
		"""('ok', names, processed paths) | ('err', exception class name, message)."""
		with working_directory(cwd), self.shared(share), contextlib.redirect_stdout(io.StringIO()) as captured:
			parser = self.module.LarkMultiFileParser()
			parser.set_include_path(include)
			try:
				descriptors = parser.parse(root)
			except Exception as ex:  # pylint: disable=broad-except
				return ('err', type(ex).__name__, str(ex)[:200], [str(path) for path in parser.processed_filepaths], captured.getvalue())
			processed = [os.path.realpath(str(path)) for path in parser.processed_filepaths]
			return ('ok', [descriptor.name for descriptor in descriptors], processed, captured.getvalue())

	def validate_parsed_set(self, cwd, include, root):
		"""(errors PRE_EXPANSION, errors POST_EXPANSION | None) of the validator run over EVERY declaration parse(root) returns, with the
		post-processing main() performs in between; None when parsing or post-processing raises."""
		with working_directory(cwd), self.shared(True), contextlib.redirect_stdout(io.StringIO()):
			parser = self.module.LarkMultiFileParser()
			parser.set_include_path(include)
			try:
				raw = parser.parse(root)
				validator_class = self.module.AstValidator

				def errors(mode):
					validator = validator_class(raw)
					validator.set_validation_mode(mode)
					validator.validate()
					return len(validator.errors)

				pre = errors(validator_class.Mode.PRE_EXPANSION)
				if pre:
					return (pre, None)
				processor = self.module.AstPostProcessor(raw)
				processor.apply_attributes()
				processor.expand_named_inlines()
				processor.expand_unnamed_inlines()
				return (0, errors(validator_class.Mode.POST_EXPANSION))
			except Exception:  # pylint: disable=broad-except
				return None

	def main(self, cwd, argv, share=True):
		"""exit status of main() run in-process (an escaping exception is the interpreter's status 1)."""
		saved = sys.argv
		sys.argv = ['catparser'] + argv
		crash = None
		try:
			with working_directory(cwd), self.shared(share), contextlib.redirect_stdout(io.StringIO()) as captured:
				try:
					self.module.main()
					status = 0
				except SystemExit as ex:
					status = ex.code if isinstance(ex.code, int) else (0 if ex.code is None else 1)
				except Exception as ex:  # pylint: disable=broad-except
					status = 1
					crash = type(ex).__name__
		finally:
			sys.argv = saved
		return status, crash, captured.getvalue()

	def subprocess_main(self, cwd, argv):
		environment = dict(os.environ)
		search = [os.path.join(REPO, 'catbuffer/parser'), os.path.join(ROOT, 'shims')]
		environment['PYTHONPATH'] = os.pathsep.join(self.extra_paths + search if self.stub_first else search + self.extra_paths)
		environment['PYTHONDONTWRITEBYTECODE'] = '1'
		proc = subprocess.run(
			[sys.executable, '-m', 'catparser'] + argv, cwd=cwd, env=environment, capture_output=True, text=True, timeout=120, check=False)
		return proc.returncode, proc.stdout, proc.stderr


# endregion

# region model requests


def fs_request(graph):
	entries = []
	for ident, spec in graph['files'].items():
		if 'unparsable' == spec['kind']:
			entries.append(f'{ident}=U')
		else:
			entries.append(f'{ident}=P:{",".join(imports_of(spec)) or "-"}:{",".join(decls_of(spec)) or "-"}')
	return f'parse {graph["root"]} {";".join(entries) or "-"}'


def model_outcome(answer):
	parts = answer.split(' ')
	if 'ok' == parts[0]:
		return ('ok', [] if '-' == parts[1] else parts[1].split(','), [] if '-' == parts[2] else parts[2].split(','))
	return ('err', parts[1], parts[2] if len(parts) > 2 else '')


# endregion


def corr_fail(ctx, what, case):
	"""the failure list of a run is bounded: correspondence failures must not crowd out failing inputs of the property"""
	ctx.count('failures:corr')
	if not hasattr(ctx, 'counters') or ctx.counters['failures:corr'] <= 10:
		ctx.fail('corr', what, case)


def run_case(ctx, impl, case, number):
	"""One graph in one configuration and mode. case: dict(graph, config, mode, options)."""
	# pylint: disable=too-many-locals,too-many-branches,too-many-statements
	graph, config, mode = case['graph'], case['config'], case['mode']
	case_dir = os.path.join(ctx.tmpdir(), f'case{number}')
	include_abs = os.path.join(case_dir, 'inc')
	os.makedirs(include_abs, exist_ok=True)
	paths = write_graph(graph, include_abs)
	cwd, include, _ = resolve_config(config, case_dir)
	if os.path.realpath(cwd) != os.path.realpath(include_abs):
		# decoys: the working directory holds files with the very names the schema imports (also the missing ones); imports are
		# relative to the include path only, so none of these may ever be read
		for index, relative in enumerate(sorted(set(paths.values()))):
			target = os.path.join(cwd, relative)
			os.makedirs(os.path.dirname(target), exist_ok=True)
			with open(target, 'wt', encoding='utf8', newline='') as outfile:
				outfile.write(f'using DecoyType{chr(65 + index % 26)}{chr(97 + index // 26 % 26)} = uint8\n')
		ctx.count('decoy-files-in-cwd', len(set(paths.values())))
	root_rel = paths[graph['root']]
	root = root_argument(config, include, include_abs, root_rel)
	if root is None:
		root = os.path.relpath(os.path.join(include_abs, root_rel), cwd)
	ident_of = {os.path.realpath(os.path.join(include_abs, path)): ident for ident, path in paths.items()}
	ident_of.update({os.path.realpath(location): ident for ident, location in file_locations(graph, include_abs).items()})

	spec = spec_dfs(graph)
	model = None
	if ctx.driver:
		model = model_outcome(ctx.driver.ask(fs_request(graph)))
		if ('ok' == spec[0] and model != spec) or ('err' == spec[0] and model[:3] != spec):
			corr_fail(ctx, f'model and harness oracle differ on {fs_request(graph)}: model {model}, oracle {spec}', case)
	share = 0 != number % 10
	sample = {'shape': graph['shape'], 'request': fs_request(graph), 'config': config, 'mode': mode, 'spec': spec}
	ctx.count(f'shape:{graph["shape"]}')
	ctx.count(f'mode:{mode}')
	ctx.count(f'config:{config["cwd"]}/{config["include_spelling"]}/{config["root_spelling"]}')
	ctx.count('outcome:' + ('ok' if 'ok' == spec[0] else spec[1]))

	def report(observed, expected, project, what):
		"""observed != expected: a known finding if exactly the known defects explain it, otherwise a violation."""
		flags = explain(graph, observed, project)
		detail = dict(sample, observed=observed, expected=expected, files={ident: file_text(s, paths) for ident, s in graph['files'].items()}, case=case)
		if flags is None:
			ctx.fail('property', f'{what}: expected {expected}, implementation gave {observed} [{fs_request(graph)} {config}]', detail)
		else:
			for signature in signatures_for(flags, config):
				ctx.count(f'known-defect:{signature}')
				if 1 == ctx.counters[f'known-defect:{signature}'] if hasattr(ctx, 'counters') else True:
					# one representative per signature: the list of failures is bounded and must keep room for anything else
					ctx.fail('property', f'{what} (known defect {signature}): expected {expected}, implementation gave {observed}', detail, signature)

	if 'api' == mode:
		result = impl.parse(cwd, include, root, share)
		if 'ok' == result[0]:
			processed = [ident_of.get(path, path) for path in result[2]]
			observed = ('ok', result[1], processed)
		else:
			observed = ('err', result[1])
		ctx.case((fs_request(graph), sorted(config.items()), mode), dict(sample, implementation=observed))
		expected = spec if 'ok' == spec[0] else ('err', 'FileNotFoundError' if 'missing' == spec[1] else 'lark')

		def project(outcome):
			if 'ok' == outcome[0]:
				return outcome
			return ('err', {'missing': 'FileNotFoundError', 'unparsable': 'lark', 'crash': 'AttributeError'}[outcome[1]])

		if 'err' == observed[0] and observed[1] not in ('FileNotFoundError', 'AttributeError'):
			import lark
			if isinstance(getattr(lark.exceptions, observed[1], None), type) and issubclass(
					getattr(lark.exceptions, observed[1]), lark.exceptions.LarkError):
				observed = ('err', 'lark')
		if observed != expected:
			report(observed, expected, project, 'parse(root) is not the depth-first import-order traversal with each file once')
		elif model is not None and 'ok' == spec[0] and model != observed:
			corr_fail(ctx, f'model and implementation differ on {fs_request(graph)}: model {model}, implementation {observed}', case)
		# the "processing ..." lines are the processed files in order
		if 'ok' == result[0]:
			ctx.expect(result[3].count('processing') == len(result[2]), 'corr', 'one "processing" line per processed file expected', case)
		return

	# CLI modes
	options = case['options']
	output = os.path.join(case_dir, 'out', 'result.txt')
	os.makedirs(os.path.dirname(output), exist_ok=True)
	if os.path.exists(output):
		os.remove(output)
	argv = ['--schema', root, '--include', include]
	if options.get('quiet'):
		argv.append('--quiet')
	generation_ok = True
	if options.get('output'):
		argv += ['--output', output if 'bad-dir' != options.get('output') else os.path.join(case_dir, 'no', 'such', 'dir', 'o.txt')]
		generation_ok = 'bad-dir' != options.get('output')
		if options.get('generator'):
			argv += ['--generator', options['generator']]
			generation_ok = generation_ok and 'verifgen.NamesGenerator' == options['generator']
	if 'cli' == mode:
		status, crash, _ = impl.main(cwd, argv, share)
	else:
		status, _, stderr = impl.subprocess_main(cwd, argv)
		crash = 'traceback' if 'Traceback' in stderr else None
	written = None
	if os.path.exists(output):
		with open(output, 'rt', encoding='utf8') as infile:
			written = infile.read()
	observed = (status, written is not None)
	want_status = expected_exit(graph, spec, generation_ok)
	want_output = bool(options.get('output')) and 'bad-dir' != options.get('output') and 0 == want_status and options.get('generator') != 'verifgen.FailingGenerator'
	if 'verifgen.NamesGenerator' == options.get('generator') and written is not None:
		observed = (status, True, written.split('\n')[:-1])
		expected = (want_status, want_output, emitted(graph, spec[1]) if want_output else None)
	else:
		expected = (want_status, want_output)
	ctx.case((fs_request(graph), sorted(config.items()), mode, sorted(options.items())), dict(sample, implementation=observed, crash=crash, argv=argv))
	ctx.count(f'exit:{status}')

	def project_cli(outcome):
		code = expected_exit(graph, outcome, generation_ok)
		has_output = bool(options.get('output')) and 'bad-dir' != options.get('output') and 0 == code and options.get('generator') != 'verifgen.FailingGenerator'
		if 'verifgen.NamesGenerator' == options.get('generator') and has_output:
			return (code, True, emitted(graph, outcome[1]))
		return (code, has_output)

	if 'verifgen.NamesGenerator' == options.get('generator') and written is not None and not want_output:
		expected = (want_status, want_output)
	if observed != expected:
		report(observed, expected, project_cli, 'exit status / output of the command line differ from the property (0 parses+validates+generates, 2 validation only, 1 missing/unparsable)')
	if 'cli' == mode and 'ok' == spec[0] and (graph['shape'] in ('carriers', 'invalid', 'invalid-post') or 0 == number % 7):
		# the stage at which the contributed declarations fail, as the generator intends it, against the validator run over the whole parsed set
		pre, post = validity(graph, spec[1])
		whole_set = impl.validate_parsed_set(cwd, include, root)
		ctx.count(f'validator-over-whole-set:{"pre-errors" if not pre else "post-errors" if not post else "clean"}')
		intended = ('pre',) if not pre else ('post',) if not post else ('clean',)
		found = None if whole_set is None else ('pre',) if whole_set[0] else ('post',) if whole_set[1] else ('clean',)
		if found is not None and found != intended:
			corr_fail(ctx, f'the generated declarations were meant to fail validation at {intended[0]}, the validator over the whole parsed set says {found[0]} {whole_set}', case)
		for name in spec[1]:
			kind = next(item[1] for s in graph['files'].values() for item in s['items'] if 'decl' == item[0] and name == item[2])
			if kind.startswith(('carrier:', 'host:', 'refhost:')):
				ctx.count('validation-carrier:' + (kind if kind.startswith('carrier:') else kind.rsplit(':', 1)[0]))
	if ctx.driver:
		pre, post = validity(graph, spec[1]) if 'ok' == spec[0] else (True, True)
		answer = ctx.driver.ask(f'exit {int("ok" == spec[0])} {int(pre)} 1 {int(post)} {int(generation_ok)}')
		if answer.split(' ')[0] != str(want_status):
			corr_fail(ctx, f'model exit status {answer} differs from the oracle {want_status}', case)
		elif observed == expected and answer.split(' ')[0] != str(status):
			corr_fail(ctx, f'model exit status {answer} differs from the implementation {status}', case)
	case['_written'] = written


def cross_configuration(ctx, group):
	"""what is written does not depend on the directory the tool is started from."""
	outputs = {}
	for case in group:
		if 'cli' == case['mode'] and '_written' in case:
			outputs.setdefault(json.dumps(case['options'], sort_keys=True), []).append((case['config'], case['_written']))
	for _, entries in outputs.items():
		texts = {text for _, text in entries}
		ctx.count('cross-config-groups')
		if len(texts) > 1:
			ctx.fail('property', f'output depends on working directory / include spelling: {[config for config, _ in entries]}', {
				'configs': [config for config, _ in entries], 'outputs': [text for _, text in entries], 'graph': group[0]['graph']})


def shipped_schemas(ctx, impl):
	"""both shipped schema sets, as scripts/ci/test_vectors.sh runs them, from two working directories."""
	for network in ('nem', 'symbol'):
		include = os.path.join(REPO, 'catbuffer/schemas', network)
		root = os.path.join(include, 'all.cats')
		results = []
		for cwd, inc, schema in ((include, '.', 'all.cats'), (ctx.tmpdir(), include, root)):
			result = impl.parse(cwd, inc, schema if '.' != inc else os.path.join(inc, schema), share=True)
			results.append(result[:2] if 'ok' == result[0] else result[:3])
			ctx.case(('shipped', network, cwd == include), {'network': network, 'ok': result[0], 'count': len(result[1]) if 'ok' == result[0] else 0})
		if 'ok' != results[0][0]:
			ctx.fail('property', f'shipped schema set {network} does not parse: {results[0]}', {'network': network})
			continue
		ctx.expect(results[0] == results[1], 'property', f'shipped schema set {network}: result depends on the working directory', {'network': network})
		names = results[0][1]
		ctx.expect(len(names) == len(set(names)), 'property', f'shipped schema set {network}: a declaration is contributed twice', {
			'network': network, 'duplicates': sorted({name for name in names if names.count(name) > 1})})
		status, crash, _ = impl.main(include, ['--schema', root, '--include', include, '--quiet'])
		ctx.expect(0 == status, 'property', f'shipped schema set {network}: exit status {status} ({crash})', {'network': network})
		ctx.count('shipped-sets')


def carrier_matrix(rng):
	"""every validation error kind x struct disposition x usage, the carrier in an imported file (or next to its host)"""
	graphs = []
	for error in CARRIER_ERRORS:
		if 'ok-part' == error:
			continue
		for disposition in ('plain', 'abstract', 'inline'):
			for usage in ('none', 'named', 'unnamed', 'fieldtype'):
				if 'named' == usage and 'inline' != disposition:
					continue
				carrier = ['decl', f'carrier:{error}:{disposition}', 'CarrierType', False]
				host = [] if 'none' == usage else [['decl', f'host:{usage}:CarrierType', 'HostType', False]]
				if rng.random() < 0.75:
					files = {
						'f0': {'path': 'f0.cats', 'kind': 'parsed', 'items': [['import', 'f1'], ['decl', 'alias', 'RootAlias', False]] + host},
						'f1': {'path': 'shared/f1.cats', 'kind': 'parsed', 'items': [['decl', 'alias', 'SharedAlias', False], carrier]}}
				else:
					files = {'f0': {'path': 'f0.cats', 'kind': 'parsed', 'items': [['decl', 'alias', 'RootAlias', False], carrier] + host}}
				graphs.append({'files': files, 'root': 'f0', 'shape': 'carriers', 'missing': [], 'nested': False})
	# valid sets whose attributes name members that exist only after expansion, the inline struct in an imported file or next to its host
	for what in REFERENCES:
		for usage in ('named', 'unnamed'):
			for imported in (True, False):
				carrier = ['decl', 'carrier:ok-part:inline', 'PartType', False]
				host = ['decl', f'refhost:{what}-{usage}:PartType', 'HostType', False]
				if imported:
					files = {
						'f0': {'path': 'f0.cats', 'kind': 'parsed', 'items': [['import', 'f1'], ['decl', 'alias', 'RootAlias', False], host]},
						'f1': {'path': 'shared/f1.cats', 'kind': 'parsed', 'items': [['decl', 'alias', 'SharedAlias', False], carrier]}}
				else:
					files = {'f0': {'path': 'f0.cats', 'kind': 'parsed', 'items': [['decl', 'alias', 'RootAlias', False], carrier, host]}}
				graphs.append({'files': files, 'root': 'f0', 'shape': 'carriers', 'missing': [], 'nested': False})
	return graphs


def build_cases(ctx):
	rng = ctx.rng
	graphs = ctx.scale(160, 6000)
	groups = []
	for number in range(graphs):
		graph = gen_graph(rng, ctx.thorough)
		group = []
		for config in gen_configs(rng, rng.choice([2, 3])):
			group.append({'graph': graph, 'config': config, 'mode': 'api', 'options': {}})
		if rng.random() < 0.6 or 'carriers' == graph['shape']:
			options = rng.choice([
				{'quiet': True}, {'quiet': False}, {'quiet': True, 'output': 'file'}, {'quiet': True, 'output': 'file'},
				{'quiet': True, 'output': 'file', 'generator': 'verifgen.NamesGenerator'},
				{'quiet': True, 'output': 'file', 'generator': 'verifgen.NamesGenerator'},
				{'quiet': True, 'output': 'file', 'generator': 'verifgen.FailingGenerator'},
				{'quiet': True, 'output': 'file', 'generator': 'verifgen.AbsentGenerator'},
				{'quiet': True, 'output': 'bad-dir'}])
			for config in gen_configs(rng, 2):
				group.append({'graph': graph, 'config': config, 'mode': 'cli', 'options': options})
		groups.append((number, group))
	for offset, graph in enumerate(carrier_matrix(rng)):
		options = rng.choice([{'quiet': True}, {'quiet': True, 'output': 'file'}, {'quiet': True, 'output': 'file', 'generator': 'verifgen.NamesGenerator'}])
		groups.append((graphs + offset, [{'graph': graph, 'config': gen_configs(rng, 1)[0], 'mode': 'cli', 'options': options}]))
	return groups


def run(ctx):
	impl = Implementation(ctx)
	ctx.notes.append(f'yaml for the CLI runs: {impl.yaml_kind}')
	if not probe_file_system(os.path.join(ctx.tmpdir(), 'fs-probe')):
		ctx.notes.append('the scratch file system folds letter case or unicode normal forms: the case-collision / unicode-names graphs are not generated')
	shipped_schemas(ctx, impl)
	groups = build_cases(ctx)
	counter = 0
	for _, group in groups:
		for case in group:
			counter += 1
			run_case(ctx, impl, case, counter)
		cross_configuration(ctx, group)
		for case in group:
			case.pop('_written', None)

	# real interpreter processes: exit statuses including the ones that come from escaping exceptions
	rng = ctx.rng
	wanted = ctx.scale(16, 120)
	picked = []
	seen_shapes = set()
	for _, group in groups:
		graph = group[0]['graph']
		if graph['shape'] not in seen_shapes or len(picked) < wanted // 2:
			seen_shapes.add(graph['shape'])
			options = rng.choice([{'quiet': True}, {'quiet': True, 'output': 'file'}, {'quiet': True, 'output': 'file', 'generator': 'verifgen.NamesGenerator'}])
			picked.append({'graph': graph, 'config': gen_configs(rng, 1)[0], 'mode': 'subprocess', 'options': options})
		if len(picked) >= wanted:
			break
	# the subprocesses run concurrently; their verdicts are evaluated sequentially afterwards
	prepared = []
	for case in picked:
		counter += 1
		prepared.append((case, counter))

	def launch(entry):
		case, number = entry
		local = _Collector(ctx)
		run_case(local, impl, case, number)
		return local

	with ThreadPoolExecutor(max_workers=8) as pool:
		for local in pool.map(launch, prepared):
			local.merge()


class _Collector:
	"""Buffers the verdicts of one concurrently executed case (the model driver is not shared between threads)."""

	def __init__(self, ctx):
		self.ctx = ctx
		self.driver = None
		self.calls = []

	def tmpdir(self):
		return self.ctx.tmpdir()

	def count(self, key, amount=1):
		self.calls.append(('count', (key, amount)))

	def case(self, key, sample=None):
		self.calls.append(('case', (key, sample)))

	def fail(self, kind, what, case, signature=None):
		self.calls.append(('fail', (kind, what, case, signature)))

	def expect(self, condition, kind, what, case, signature=None):
		if not condition:
			self.fail(kind, what, case, signature)
		return condition

	def merge(self):
		for name, args in self.calls:
			getattr(self.ctx, name)(*args)


def replay(ctx, payload):
	print(payload['what'])
	recorded = payload.get('case') if isinstance(payload.get('case'), dict) else {}
	case = recorded.get('case') or (recorded if 'graph' in recorded else None)
	if not case:
		run(ctx)
		return
	impl = Implementation(ctx)
	case.pop('_written', None)
	run_case(ctx, impl, case, 1)
	for failure in ctx.failures:
		print(f'  reproduced: {failure.what[:400]}')
	if not ctx.failures:
		print('  not reproduced on this tree')


MANIFEST = {
	'level_text': (
		'Every clause of the property is a Lean theorem over the model, for every finite file system / import graph (cycles, repeated imports, '
		'missing and unparsable files included): parseFiles_terminates (measure: files not yet processed), dfs_order / dfs_order_names / dfs_error '
		'(the executable model computes the depth-first import-order specification), each_file_once, contributes_iff_reachable, '
		'reachable_exactly_once, unreachable_absent, imports_before_own(+_acyclic), root_last, missing_file_error, unparsable_file_error, '
		'parse_ok_iff, and the exit-status table exit_range / exit_zero_iff / exit_zero_steps / exit_two_iff / exit_one_iff / output_only_when_valid '
		'over the steps of main() in its order (PRE validation of the parsed set, apply_attributes, expansion, POST validation, generation), with '
		'pre_validation_before_attributes (the first pass sees un-applied attributes: a set it rejects exits 2 whatever apply_attributes would do). The model is '
		'tied to catparser/__main__.py by a differential run on generated import graphs x working directories x include spellings, through '
		'LarkMultiFileParser, main() and real `python -m catparser` processes; the graphs include distinct files whose names differ only in letter '
		'case / unicode normal form / under case folding (each must be parsed), one file under several import spellings (parsed once), and a sweep '
		'of validation errors of both stages on plain / abstract / inline structs used as named inline, unnamed inline, member type or not at all '
		'(exit status against the model and against the validator run over the whole parsed set), member attributes the member type does not have '
		'(reported, exit 2), and valid sets whose attributes name members that exist only after the expansion of an inline struct (exit 0).'),
	'level_note': (
		'Trusted: Lean kernel + {propext, Classical.choice, Quot.sound}; hand-written model tied by differential execution only; files are abstracted '
		'to (imports, declaration names); validation/expansion/generation are parameters of the exit-status theorems; an import string is abstracted '
		'to the identity of the file it resolves to (spellings with ., .., // are generated; symlinks and absolute import strings are not). Known findings on the unchanged tree: root re-entered through an import cycle (str vs Path), a file that is exactly one '
		'import statement loses the import, a file that is exactly one comment crashes parse().'),
	'technique': 'Lean 4 theorems over a hand-written model + differential correspondence with the Python implementation',
}

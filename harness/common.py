"""Shared machinery for the per-property checks (see DESIGN.md sections 2 and 3).

A check (``bin/check Cxx``) does, in this order:
  1. translators: regenerate ``lean/SymbolVerif/Generated/*.lean`` from /repo's working tree;
  2. ``lake build`` of the property's theorem file and of the model driver;
  3. hygiene grep + ``#print axioms`` audit of every property theorem;
  4. correspondence: model driver and real implementation on the same generated inputs,
     plus direct evaluation of the property on the implementation;
  5. violation protocol and evidence.
"""
import fcntl
import hashlib
import json
import os
import random
import re
import shutil
import subprocess
import sys
import tempfile
import time

ROOT = os.path.dirname(os.path.dirname(os.path.abspath(__file__)))
LEAN = os.path.join(ROOT, 'lean')
REPO = os.environ.get('VERIF_REPO', '/repo')
GUARD = 'SYMBOL_SYMBOL_VERIF'
ALLOWED_AXIOMS = {'propext', 'Classical.choice', 'Quot.sound'}
HYGIENE_RE = re.compile(r'sorry|\badmit\b|^\s*axiom\s|native_decide|bv_decide|implemented_by|\bunsafe\s|maxHeartbeats\s+0\b')

REPO_PATHS = [
	os.path.join(REPO, 'sdk/python'),
	os.path.join(REPO, 'catbuffer/parser'),
	os.path.join(REPO, 'linters/cpp'),
	os.path.join(ROOT, 'shims'),
]


def setup_paths():
	"""Puts /repo's working tree (never a copy) and the shims on sys.path."""
	os.environ[GUARD] = '1'
	sys.dont_write_bytecode = True
	for path in reversed(REPO_PATHS):
		if path not in sys.path:
			sys.path.insert(0, path)


class Rng(random.Random):
	"""Every random choice of a check derives from VERIF_SEED."""

	def bytes_(self, count):
		return bytes(self.getrandbits(8) for _ in range(count))

	def boundary_int(self, bits, signed=False):
		low, high = (-(1 << (bits - 1)), (1 << (bits - 1)) - 1) if signed else (0, (1 << bits) - 1)
		pick = self.random()
		if pick < 0.15:
			return self.choice([low, high, 0, 1, high - 1, low + 1])
		if pick < 0.3:
			return max(low, min(high, (1 << self.randrange(0, bits)) + self.choice([-1, 0, 1])))
		return self.randint(low, high)


# region lean


class _Lock:
	def __init__(self):
		os.makedirs(os.path.join(LEAN, '.lake'), exist_ok=True)
		self.path = os.path.join(LEAN, '.lake', 'verif.lock')

	def __enter__(self):
		self.handle = open(self.path, 'w')  # pylint: disable=consider-using-with
		fcntl.flock(self.handle, fcntl.LOCK_EX)

	def __exit__(self, *args):
		fcntl.flock(self.handle, fcntl.LOCK_UN)
		self.handle.close()


def lake(args, timeout=3000):
	with _Lock():
		proc = subprocess.run(['lake'] + args, cwd=LEAN, capture_output=True, text=True, timeout=timeout, check=False)
	return proc.returncode, proc.stdout + proc.stderr


def write_if_changed(path, text):
	os.makedirs(os.path.dirname(path), exist_ok=True)
	if os.path.exists(path):
		with open(path, 'rt', encoding='utf8') as infile:
			if infile.read() == text:
				return False
	with open(path + '.tmp', 'wt', encoding='utf8') as outfile:
		outfile.write(text)
	os.replace(path + '.tmp', path)
	return True


def strip_comments(text):
	text = re.sub(r'/-.*?-/', '', text, flags=re.S)
	return re.sub(r'--.*', '', text)


def property_theorems(prop):
	"""Names of the theorems of Properties/<prop>.lean (fully qualified)."""
	path = os.path.join(LEAN, 'SymbolVerif', 'Properties', f'{prop}.lean')
	with open(path, 'rt', encoding='utf8') as infile:
		text = strip_comments(infile.read())
	namespace = re.search(r'^namespace\s+(\S+)', text, flags=re.M).group(1)
	return [f'{namespace}.{name}' for name in re.findall(r'^(?:private\s+)?theorem\s+(\S+)', text, flags=re.M)]


def hygiene_hits():
	hits = []
	for base in ('SymbolVerif',):
		for dirpath, _, names in os.walk(os.path.join(LEAN, base)):
			for name in names:
				if not name.endswith('.lean'):
					continue
				path = os.path.join(dirpath, name)
				with open(path, 'rt', encoding='utf8') as infile:
					text = strip_comments(infile.read())
				for number, line in enumerate(text.split('\n'), 1):
					if HYGIENE_RE.search(line):
						hits.append(f'{os.path.relpath(path, LEAN)}:{number}: {line.strip()}')
	return hits


def build_and_audit(prop, extra_targets=(), driver=None, extra_drivers=()):
	"""Builds the property file and driver, audits axioms.

	Returns dict(ok, obligations, discharged, failed (names or log excerpt), log, driver_ok)."""
	result = {'ok': False, 'obligations': 0, 'discharged': 0, 'failed': [], 'log': '', 'driver_ok': False, 'theorems': []}
	theorems = property_theorems(prop)
	result['obligations'] = len(theorems)
	result['theorems'] = theorems

	code, log = lake(['build', f'driver_{(driver or prop).lower()}'] + [f'driver_{name}' for name in extra_drivers])
	result['driver_ok'] = 0 == code
	if 0 != code:
		result['log'] += log[-4000:]

	code, log = lake(['build', f'SymbolVerif.Properties.{prop}'] + list(extra_targets))
	if 0 != code:
		errors = re.findall(r'error: (\S+?:\d+:\d+: .*)', log)
		result['failed'] = errors[:20] or ['lake build failed']
		result['log'] += log[-6000:]
		return result

	hits = hygiene_hits()
	if hits:
		result['failed'] = ['hygiene: ' + hit for hit in hits]
		return result

	audit_path = os.path.join(LEAN, 'Audit', f'{prop}.lean')
	audit_text = f'import SymbolVerif.Properties.{prop}\n' + ''.join(f'#print axioms {name}\n' for name in theorems)
	write_if_changed(audit_path, audit_text)
	with _Lock():
		proc = subprocess.run(
			['lake', 'env', 'lean', audit_path], cwd=LEAN, capture_output=True, text=True, timeout=3000, check=False)
	output = proc.stdout + proc.stderr
	axioms = {}
	for match in re.finditer(r"'([^']+)' (does not depend on any axioms|depends on axioms: \[([^\]]*)\])", output, flags=re.S):
		names = [] if match.group(3) is None else [part.strip() for part in match.group(3).replace('\n', ' ').split(',') if part.strip()]
		axioms[match.group(1)] = names
	discharged = 0
	for name in theorems:
		if name not in axioms:
			result['failed'].append(f'audit: no axiom report for {name}')
		elif not set(axioms[name]) <= ALLOWED_AXIOMS:
			result['failed'].append(f'audit: {name} depends on {axioms[name]}')
		else:
			discharged += 1
	result['discharged'] = discharged
	result['axioms_used'] = sorted({axiom for names in axioms.values() for axiom in names})
	result['ok'] = not result['failed'] and 0 == proc.returncode
	if 0 != proc.returncode:
		result['failed'].append('audit: lean exited non-zero')
		result['log'] += output[-3000:]
	return result


def own_modules(prop):
	"""The property's theorem module and every module of this project it imports, transitively."""
	seen = set()

	def visit(module):
		path = os.path.join(LEAN, module.replace('.', '/') + '.lean')
		if module in seen or not os.path.exists(path):
			return
		seen.add(module)
		with open(path, 'rt', encoding='utf8') as infile:
			for name in re.findall(r'^import (SymbolVerif\.[\w.]+)', infile.read(), flags=re.M):
				visit(name)

	visit(f'SymbolVerif.Properties.{prop}')
	return sorted(seen)


def recheck(prop):
	"""Thorough tier: the compiled modules behind the property's theorems are replayed by `leanchecker`, the toolchain's independent
	re-checker of .olean files (every declaration is sent through the kernel again, outside the elaborator that produced it).
	Returns (ok, module count, seconds, log excerpt)."""
	import time
	modules = own_modules(prop)
	started = time.time()
	with _Lock():
		proc = subprocess.run(['lake', 'env', 'leanchecker'] + modules, cwd=LEAN, capture_output=True, text=True, timeout=3000, check=False)
	return 0 == proc.returncode, len(modules), round(time.time() - started, 1), (proc.stdout + proc.stderr)[-1500:]


class Driver:
	"""The Lean model behind its line protocol."""

	def __init__(self, prop):
		exe = os.path.join(LEAN, '.lake', 'build', 'bin', f'driver_{prop.lower()}')
		self.proc = subprocess.Popen([exe], stdin=subprocess.PIPE, stdout=subprocess.PIPE, text=True, bufsize=1)  # pylint: disable=consider-using-with
		self.requests = 0
		if 'pong' != self.ask('ping'):
			raise RuntimeError('driver does not answer')

	def ask(self, line):
		self.requests += 1
		self.proc.stdin.write(line + '\n')
		self.proc.stdin.flush()
		answer = self.proc.stdout.readline()
		if not answer:
			raise RuntimeError(f'driver died on: {line}')
		return answer.rstrip('\n')

	def ask_many(self, lines):
		"""Pipelined requests; answers are read concurrently so neither pipe can fill up and deadlock."""
		if not lines:
			return []
		import threading
		self.requests += len(lines)
		answers = []

		def reader():
			for _ in lines:
				answer = self.proc.stdout.readline()
				if not answer:
					break
				answers.append(answer.rstrip('\n'))

		thread = threading.Thread(target=reader, daemon=True)
		thread.start()
		try:
			for start in range(0, len(lines), 500):
				self.proc.stdin.write('\n'.join(lines[start:start + 500]) + '\n')
			self.proc.stdin.flush()
		except BrokenPipeError:
			pass
		thread.join()
		if len(answers) != len(lines):
			raise RuntimeError(f'driver died near: {lines[len(answers)][:200]}')
		return answers

	def close(self):
		try:
			self.proc.stdin.close()
			self.proc.wait(timeout=10)
		except Exception:  # pylint: disable=broad-except
			self.proc.kill()


def hx(data):
	return data.hex().upper() if data else '-'


def sx(text):
	return hx(text.encode('utf8'))


# endregion

# region run context, violations, evidence


def load_known_findings():
	path = os.path.join(ROOT, 'known_findings.jsonl')
	findings = []
	if os.path.exists(path):
		with open(path, 'rt', encoding='utf8') as infile:
			for line in infile:
				line = line.strip()
				if line and not line.startswith('#'):
					findings.append(json.loads(line))
	return findings


class Failure:
	"""One failing case.

	kind: 'property' (the property itself fails on the real code at this input)
	      'corr'     (model and implementation differ; property not shown to fail)
	      'proof'    (a proof obligation no longer checks)
	signature: canonical identity of the case, matched against known_findings.jsonl"""

	def __init__(self, kind, what, case, signature=None):
		self.kind = kind
		self.what = what
		self.case = case
		self.signature = signature


class Ctx:
	def __init__(self, prop, tier, seed, replay=None):
		self.prop = prop
		self.tier = tier
		self.seed = seed
		self.rng = Rng(f'{prop}:{seed}')
		self.replay = replay
		self.failures = []
		self.evaluations = 0
		self.distinct = set()
		self.samples = []
		self.counters = {}
		self.notes = []
		self.driver = None
		self.start = time.time()
		self._tmp = None
		self.search_mode = False

	@property
	def thorough(self):
		return 'thorough' == self.tier or self.search_mode

	def scale(self, quick, thorough):
		return thorough if self.thorough else quick

	def tmpdir(self):
		"""Scratch directory outside /repo and /verif, removed at the end of the run."""
		if self._tmp is None:
			base = os.environ.get('TMPDIR', '/tmp')
			self._tmp = tempfile.mkdtemp(prefix=f'verif-{self.prop}-', dir=base)
		return self._tmp

	def cleanup(self):
		if self.driver is not None:
			self.driver.close()
			self.driver = None
		if self._tmp is not None:
			shutil.rmtree(self._tmp, ignore_errors=True)
			self._tmp = None

	def count(self, key, amount=1):
		self.counters[key] = self.counters.get(key, 0) + amount

	def case(self, key, sample=None):
		"""Registers one explored case; key identifies it for the distinct count."""
		self.evaluations += 1
		self.distinct.add(hashlib.sha1(repr(key).encode('utf8')).digest()[:8])
		if sample is not None and len(self.samples) < 12:
			self.samples.append(sample)

	def fail(self, kind, what, case, signature=None):
		if len(self.failures) < 50:
			self.failures.append(Failure(kind, what, case, signature))
		self.count(f'fail:{kind}')

	def expect(self, condition, kind, what, case, signature=None):
		if not condition:
			self.fail(kind, what, case, signature)
		return condition


def jsonable(value):
	if isinstance(value, (bytes, bytearray)):
		return {'hex': bytes(value).hex().upper()}
	if isinstance(value, dict):
		return {str(key): jsonable(item) for key, item in value.items()}
	if isinstance(value, (list, tuple, set, frozenset)):
		return [jsonable(item) for item in value]
	if isinstance(value, (str, int, float, bool)) or value is None:
		return value
	return repr(value)


def write_replay(ctx, failure, extra=None):
	os.makedirs(os.path.join(ROOT, 'replays'), exist_ok=True)
	digest = hashlib.sha1(json.dumps(jsonable([failure.kind, failure.what, failure.case]), sort_keys=True).encode('utf8')).hexdigest()[:10]
	path = os.path.join('replays', f'{ctx.prop}-{digest}.json')
	payload = {
		'property': ctx.prop,
		'kind': failure.kind,
		'what': failure.what,
		'case': jsonable(failure.case),
		'seed': ctx.seed,
		'tier': ctx.tier,
		'rerun': f'bin/check {ctx.prop} --replay {path}',
	}
	if extra:
		payload.update(jsonable(extra))
	with open(os.path.join(ROOT, path), 'wt', encoding='utf8') as outfile:
		json.dump(payload, outfile, indent=1, sort_keys=True)
	return path


def write_evidence(ctx, build, level_note_assumptions, rule, trusted_base, violations, extra=None):
	os.makedirs(os.path.join(ROOT, 'evidence'), exist_ok=True)
	coverage = {
		'obligations': max(1, build['obligations']),
		'discharged': build['discharged'],
		'checker_cmd': f'cd lean && lake build SymbolVerif.Properties.{ctx.prop} && lake env lean Audit/{ctx.prop}.lean',
		'trusted_base': trusted_base,
		'theorems': build.get('theorems', []),
		'axioms_used': build.get('axioms_used', []),
		'proof_failures': build['failed'],
		'evaluations': ctx.evaluations,
		'distinct_nontrivial': len(ctx.distinct),
		'rule': rule,
		'samples': jsonable(ctx.samples) or ['(no correspondence case was run)'],
		'counters': dict(sorted(ctx.counters.items())),
		'driver_requests': ctx.driver.requests if ctx.driver else 0,
		'notes': ctx.notes,
	}
	if build.get('recheck'):
		coverage['independent_recheck'] = build['recheck']
	if extra:
		coverage.update(jsonable(extra))
	if build['discharged'] < 1:
		# nothing was discharged on this run (broken build): do not present it as a proof-level record
		coverage['obligations_total'] = coverage.pop('obligations')
		coverage['obligations_discharged'] = coverage.pop('discharged')
		coverage['evaluations'] = max(1, coverage['evaluations'])
		coverage['distinct_nontrivial'] = max(2, coverage['distinct_nontrivial']) if ctx.evaluations >= 2 else coverage['distinct_nontrivial']
	evidence = {
		'property_id': ctx.prop,
		'tier': 'thorough' if 'thorough' == ctx.tier else 'quick',
		'seed': ctx.seed,
		'level': 'proof',
		'coverage': coverage,
		'assumptions': level_note_assumptions,
		'wall_s': round(time.time() - ctx.start, 2),
		'violations': violations,
	}
	path = os.path.join(ROOT, 'evidence', f'{ctx.prop}.json')
	with open(path + '.tmp', 'wt', encoding='utf8') as outfile:
		json.dump(evidence, outfile, indent=1)
	os.replace(path + '.tmp', path)


# endregion

"""C15 - the generator compiles any supported-dialect schema into a conforming codec.

Random schemas of the shipped dialect (harness/schemagen.py) are written as .cats text, compiled by the
real CLI + generator, imported under a scratch package next to copies of ArrayHelpers/BaseValue/ByteArray,
and then put through the same differential as C01/C02 against the Lean interpreter of the independent IR
(translate/cats.py). The schema is generated twice and the two texts compared.
"""
import os

from translate import cats

from . import c01, c03, codec, common, genmod, schemagen

DRIVER = 'c01'
EXTRA_DRIVERS = ('c03',)

RULE = (
	'random recombinations of the shipped constructs from VERIF_SEED (aliases of every width/sign, buffers, enums, flag enums, const/reserved members, '
	'counted arrays of aliases and structs, byte arrays, sort keys, named inlines of size-prefixed templates, sizeof/sizeref with conditionals, enum '
	'conditionals before and after the discriminant, discriminated factories with one- and two-part discriminators, byte-sized aligned arrays, fill arrays '
	'aligned and plain, counted arrays of abstract elements); per schema: every type x admissible values x byte mutants as in C01. distinct = distinct '
	'schema text / (schema, type, value) / (schema, type, mutant).')
TRUSTED_BASE = c01.TRUSTED_BASE + [
	'the emitted Python text is tied to the interpreter by execution only (no formal Python semantics)',
	'schemas are limited to what harness/schemagen.py produces; constructs it never emits are listed in DESIGN.md; arrays with a literal count are outside the IR and are evaluated directly against a hand-written layout (no model)',
]
ASSUMPTIONS = c01.ASSUMPTIONS


LITERAL_COUNT_SCHEMA = """using Amount = uint64

struct Item
\tident = Amount
\tother = uint8

struct Fixed
\ttag = uint8
\t@sort_key(ident)
\titems = array(Item, 3)

struct FixedPlain
\titems = array(Item, 2)
\ttail = uint16
"""


def literal_count_arrays(ctx, package, scratch):
	"""Arrays with a literal element count (used by the shipped state schemas, not expressible in the IR): the generated code is
	evaluated directly against the schema, written out by hand - layout, round trip, and the sort key on encode and decode."""
	import itertools
	path = os.path.join(scratch, 'literal_count.cats')
	with open(path, 'wt', encoding='utf8') as outfile:
		outfile.write(LITERAL_COUNT_SCHEMA)
	module, proc = package.generate('literal_count', path, scratch)
	if module is None:
		ctx.fail('property', 'the generator does not compile a schema with literal-count arrays', {'schema': LITERAL_COUNT_SCHEMA, 'stderr': proc.stderr[-400:]})
		return

	def item(ident, other):
		element = module.Item()
		element.ident = module.Amount(ident)
		element.other = other
		return element

	def encoding(tag, entries, tail=None):
		body = b''.join(ident.to_bytes(8, 'little') + bytes([other]) for ident, other in entries)
		return (bytes([tag]) if tag is not None else b'') + body + (tail.to_bytes(2, 'little') if tail is not None else b'')

	rng = ctx.rng
	for keys in ([1, 5, 8], [0, 1, (1 << 64) - 1], [255, 256, 257], [rng.randrange(1 << 64) for _ in range(3)]):
		distinct = len(set(keys)) == len(keys)
		for order in itertools.permutations(keys):
			entries = [(ident, index) for index, ident in enumerate(order)]
			ascending = distinct and list(order) == sorted(order)
			ident = {'schema': 'literal-count', 'type': 'Fixed', 'keys': [str(key) for key in order]}
			ctx.case(('literal-count', tuple(order)), ident if ascending else None)
			ctx.count('literal-count:' + ('ascending' if ascending else 'not-ascending'))
			value = module.Fixed()
			value.tag = 7
			value.items = [item(*entry) for entry in entries]
			expected = encoding(7, entries)
			try:
				produced = bytes(value.serialize())
			except Exception as ex:  # pylint: disable=broad-except
				produced = None
				if ascending:
					ctx.fail('property', f'literal-count array: an ascending array is refused by serialize() ({type(ex).__name__})', ident)
			if produced is not None:
				if not ascending:
					ctx.fail('property', 'literal-count array with a sort key: serialize() accepts an out-of-order array', ident)
				elif produced != expected or value.size != len(expected):
					ctx.fail('property', 'literal-count array: encoding or size differs from the layout the schema prescribes', dict(ident, produced=produced.hex(), expected=expected.hex()))
			try:
				decoded = module.Fixed.deserialize(expected)
				accepted = True
			except Exception:  # pylint: disable=broad-except
				accepted = False
			if ascending and not (accepted and bytes(decoded.serialize()) == expected and [entry.ident.value for entry in decoded.items] == list(order)):
				ctx.fail('property', 'literal-count array: the canonical encoding does not decode to the value', ident)
			if not ascending and accepted:
				ctx.fail('property', 'literal-count array with a sort key: deserialize() accepts out-of-order bytes', ident)
			value.sort()
			try:
				if distinct and bytes(value.serialize()) != encoding(7, sorted(entries)):
					ctx.fail('property', 'literal-count array: sort() then serialize() is not the canonical encoding', ident)
			except Exception as ex:  # pylint: disable=broad-except
				if distinct:
					ctx.fail('property', f'literal-count array: the sorted value is refused by serialize() ({type(ex).__name__})', ident)
	plain = module.FixedPlain()
	plain.items = [item(9, 1), item(3, 2)]
	plain.tail = 0x0102
	expected = encoding(None, [(9, 1), (3, 2)], 0x0102)
	ctx.count('literal-count:plain')
	if bytes(plain.serialize()) != expected or plain.size != len(expected) or bytes(module.FixedPlain.deserialize(expected + b'\xff').serialize()) != expected:
		ctx.fail('property', 'literal-count array without a sort key: layout / size / round trip with trailing bytes differs from the schema', {'expected': expected.hex()})


SEQUENCE_PROGRAM = r'''
import sys
from catparser.__main__ import main
jobs = sys.argv[1:]
for position in range(0, len(jobs), 3):
	root, include, output = jobs[position:position + 3]
	sys.argv = ['catparser', '--schema', root, '--include', include, '--output', output, '--quiet', '--generator', 'generator.Generator']
	main()
'''


def one_interpreter_sequences(ctx, package, scratch, run_id, generated):
	"""Several random schemas compiled one after the other in ONE interpreter (the generator used as a library): schemas of this
	generator re-use type names with different members, so anything an earlier compilation leaves behind under a type's name
	shows as a difference from the text a fresh process emits for the same schema."""
	import subprocess
	from .common import REPO, ROOT
	if len(generated) < 2:
		return
	rng = ctx.rng
	groups = []
	for _ in range(ctx.scale(3, 12)):
		size = rng.choice([2, 3, 3])
		picks = rng.sample(generated, min(size, len(generated)))
		groups.append(picks + [picks[0]])  # ... and the first one again at the end
	# ... and deliberately: a schema, then the same schema with one more member in every abstract struct (same type names, other
	# members), then the first again
	for index, root, directory, text in rng.sample(generated, min(len(generated), ctx.scale(3, 10))):
		lines = text.split('\n')
		changed = []
		position = 0
		while position < len(lines):
			changed.append(lines[position])
			if lines[position].startswith('abstract struct '):
				position += 1
				while position < len(lines) and lines[position].startswith('\t'):
					changed.append(lines[position])
					position += 1
				changed.append('\tsequence_extra = uint16')
				continue
			position += 1
		if changed == lines:
			continue
		twin_directory = directory + '_twin'
		os.makedirs(twin_directory, exist_ok=True)
		twin_root = os.path.join(twin_directory, 'root.cats')
		with open(twin_root, 'wt', encoding='utf8') as outfile:
			outfile.write('\n'.join(changed))
		module, proc = package.generate(f'gen{index}twina', twin_root, twin_directory)
		if module is None:
			ctx.notes.append(f'twin of schema {index} not compiled: {proc.stderr[-200:]}')
			continue
		ctx.count('sequences:twin-schemas')
		groups.append([(index, root, directory, text), (f'{index}twin', twin_root, twin_directory, '\n'.join(changed)), (index, root, directory, text)])
	env = dict(os.environ)
	env.update({
		'PYTHONDONTWRITEBYTECODE': '1',
		'PYTHONPATH': os.pathsep.join([os.path.join(REPO, 'catbuffer', 'parser'), os.path.join(REPO, 'sdk', 'python'), os.path.join(ROOT, 'shims')]),
	})
	for number, group in enumerate(groups):
		arguments = []
		outputs = []
		for position, (index, root, directory, _) in enumerate(group):
			output = os.path.join(scratch, f'sequence{run_id}_{number}_{position}')
			outputs.append(output)
			arguments += [root, directory, output]
		proc = subprocess.run(['/venv/bin/python', '-c', SEQUENCE_PROGRAM] + arguments, cwd=scratch, env=env, capture_output=True, text=True, timeout=600, check=False)
		order = [entry[0] for entry in group]
		ctx.case(('sequence', tuple(entry[3] for entry in group)), {'schemas_compiled_in_one_interpreter': order} if 0 == number else None)
		ctx.count('sequences-in-one-interpreter')
		if 0 != proc.returncode:
			ctx.fail('property', f'compiling the schemas {order} one after the other in one interpreter fails: exit {proc.returncode}', {
				'schemas': [entry[3] for entry in group], 'stderr': proc.stderr[-1200:]})
			continue
		for position, (index, _, _, text) in enumerate(group):
			with open(os.path.join(outputs[position], '__init__.py'), 'rt', encoding='utf8') as infile:
				produced = infile.read()
			if produced != package.text(f'gen{index}a'):
				ctx.fail('property', (
					f'schema number {position + 1} of {order}, compiled in one interpreter after the others, gives a module that differs from '
					'what a fresh process emits for it'), {'schema': text, 'earlier_schemas': [entry[3] for entry in group[:position]]})
				break


def run(ctx):
	# pylint: disable=too-many-locals
	rng = ctx.rng
	scratch = ctx.tmpdir()
	run_id = len(os.listdir(scratch))
	package = genmod.ScratchPackage(scratch, f'scratch_c15_{os.getpid()}_{run_id}')
	try:
		literal_count_arrays(ctx, package, scratch)
	except Exception as ex:  # pylint: disable=broad-except
		ctx.fail('property', f'generated code for literal-count arrays raises {type(ex).__name__}: {ex}', {'schema': LITERAL_COUNT_SCHEMA})
	body_driver = None
	try:
		body_driver = common.Driver('c03')
	except Exception as ex:  # pylint: disable=broad-except
		ctx.notes.append(f'emission-model driver not available: {ex}')
	schema_count = 60 if ctx.search_mode else ctx.scale(12, 200)  # the failing-input search after a broken obligation stays within a few minutes
	features = {}
	generated = []
	for index in range(schema_count):
		generator = schemagen.SchemaGen(rng, variant=index + ctx.seed)
		text = generator.build()
		for feature in generator.features:
			features[feature] = features.get(feature, 0) + 1
		directory = os.path.join(scratch, f'schema{run_id}_{index}')
		os.makedirs(directory)
		root = os.path.join(directory, 'root.cats')
		with open(root, 'wt', encoding='utf8') as outfile:
			outfile.write(text)
		ident = {'schema': text}
		ctx.case(('schema', text), {'schema_head': text[:600]} if index < 2 else None)
		ctx.count('schemas')

		module, proc = package.generate(f'gen{index}a', root, directory)
		if module is None:
			ctx.fail('property', 'the generator does not emit an importable module for a schema of the shipped dialect', dict(
				ident, stdout=proc.stdout[-300:], stderr=proc.stderr[-1200:]), signature=crash_signature(proc.stderr))
			continue
		generated.append((index, root, directory, text))
		_, proc2 = package.generate(f'gen{index}b', root, directory)
		if package.text(f'gen{index}a') != package.text(f'gen{index}b'):
			ctx.fail('property', 'generating twice gives different text', ident)

		try:
			schema, _ = cats.load_schema(root, directory)
		except cats.Unsupported as ex:
			ctx.count('schemas-outside-model')
			ctx.notes.append(f'schema outside the modelled dialect: {ex}')
			continue
		# the emitted serialize / size bodies against the text the emission model derives from the IR (static, class by class)
		if body_driver is not None:
			c03.compare_bodies(ctx, body_driver, f'gen{index}', schema, package.text(f'gen{index}a'))
		net = codec.Network(f'gen{index}', schema=schema, module=module)
		reflected = c01.reflect_classes(module)
		if sorted(net.order) != reflected:
			ctx.fail('corr', 'classes of the generated module and types of the schema differ', dict(ident, module=reflected, schema=sorted(net.order)))
		engine = c01.Engine(ctx, net, 'C15')
		for type_name in net.order:
			typedef = net.types[type_name]
			if 'struct' == typedef['k'] and typedef['abstract']:
				continue
			failures_before = len(ctx.failures)
			engine.check_type(type_name, ctx.scale(4, 30), ctx.scale(6, 20))
			for failure in ctx.failures[failures_before:]:
				if isinstance(failure.case, dict):
					failure.case['schema'] = text
	one_interpreter_sequences(ctx, package, scratch, run_id, generated)
	for feature, amount in sorted(features.items()):
		ctx.count(f'feature:{feature}', amount)
	if body_driver is not None:
		body_driver.close()


def crash_signature(stderr):
	lines = [line.strip() for line in stderr.strip().split('\n') if line.strip()]
	last = lines[-1] if lines else ''
	location = next((line for line in reversed(lines) if line.startswith('File ') and '/repo/' in line), '')
	location = location.split('/repo/')[-1].split(',')[0].strip('"') if location else ''
	return f'generator-crash:{location}:{last[:80]}'


def replay(ctx, payload):
	print(payload['what'])
	case = payload['case']
	if 'schema' not in case:
		run(ctx)
		return
	scratch = ctx.tmpdir()
	package = genmod.ScratchPackage(scratch, f'scratch_c15_{os.getpid()}')
	directory = os.path.join(scratch, 'replay')
	os.makedirs(directory)
	root = os.path.join(directory, 'root.cats')
	with open(root, 'wt', encoding='utf8') as outfile:
		outfile.write(case['schema'])
	module, proc = package.generate('replayed', root, directory)
	if module is None:
		print(proc.stderr[-1500:])
		ctx.fail('property', 'the generator does not emit an importable module', case, signature=crash_signature(proc.stderr))
		return
	schema, _ = cats.load_schema(root, directory)
	net = codec.Network('replayed', schema=schema, module=module)
	engine = c01.Engine(ctx, net, 'C15')
	for type_name in ([case['type']] if 'type' in case else net.order):
		typedef = net.types[type_name]
		if 'struct' == typedef['k'] and typedef['abstract']:
			continue
		engine.check_type(type_name, 20, 20)


MANIFEST = {
	'level_text': (
		'The round-trip, size and layout theorems of C01/C02/C12 quantify over ALL well-formed schemas, so they already cover every schema of the dialect; '
		'Properties/C15.lean restates them for `WF S` and adds that the emission plan is a function of the declarations. What ties generator-EMITTED text to the '
		'interpreter is execution: random schemas recombining the shipped constructs are compiled by the real CLI + generator, imported under a scratch package, '
		'and put through the same value/mutant differential as the shipped modules; each schema is generated twice and the texts compared.'
	),
	'level_note': (
		'partial: no formal semantics of the emitted Python (tied by differential execution only); schemas limited to what harness/schemagen.py emits; '
		'constructs outside the shipped dialect (signed aliases, conditional members of builtin integer type, children without own members, literal counts) '
		'are excluded and listed in DESIGN.md.'
	),
	'technique': 'Lean 4 theorems for all well-formed schemas + differential execution of generator-emitted codecs on random schemas',
}

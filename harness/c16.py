"""C16 - hierarchical key derivation composes and matches SLIP-10.

Correspondence: Model/Sdk/Bip32.lean (through the driver: HMAC-SHA512, PBKDF2, SHA-512, Keccak-512 and edwards25519 are the
native Lean implementations) against symbolchain.Bip32 / BufferWriter / facade.{SymbolFacade,NemFacade}; direct evaluation of
the property on the implementation against an independent statement of SLIP-10 / BIP39 / Ed25519 key derivation written here
with hmac, hashlib, struct and small self-contained Keccak-512 and edwards25519 routines.
"""
import hashlib
import hmac
import json
import os
import struct
import unicodedata

from .common import hx, sx

RULE = (
	'generation from VERIF_SEED: seeds (0/1/16/32/64/100 bytes and the vector seeds) x curve labels (the two shipped, empty, random ASCII, '
	'non-ASCII) x paths of length 0-12 over boundary indices (0, 1, 43, 44, 4343, 2^31-2, 2^31-1, random) x every split point (implementation '
	'and model); nodes with arbitrary key / chain code; a malformed stream (indices in [2^31, 2^32), >= 2^32, negative); mnemonics and '
	'passphrases as opaque strings (vector mnemonics, random ASCII, NFKD-sensitive Unicode for the direct check); facade paths over network '
	'names x boundary account ids; node -> key pair on random keys and on every account of tests/vectors/*/crypto/6.test-hd-derivation.json; '
	'BufferWriter.write_int over both byte orders incl. overflow; seeds whose bytes spell text (all ASCII hex digits of even / odd length in lower, upper, mixed case, digits, one non-hex byte, printable ASCII; as bytes, bytearray, memoryview; the pair 00ff as text / as two bytes; str seeds are refused) through from_seed, a short path and both facades; long paths (200, 600, 1100, 1500 elements; 2500 and 5000 in the thorough tier) on both shipped curves given as list / tuple / generator / range, compared with the fold of derive_one, with random splits and with chunks of 50, on the implementation and on the model; histories of calls on shared objects for both facades (one node converted twice, converted then derived further vs the full path, two paths from one node in both orders, several accounts converted and the first converted again, roots of two curves interleaved, random mixes), where every argument object (node, path list, seed buffer) is compared with its snapshot after every call. A case is distinct by its (operation, arguments); non-trivial = it reached '
	'the implementation and (when the driver runs) the model.')
TRUSTED_BASE = [
	'Lean 4.33 kernel; axioms of the property theorems: subset of {propext, Classical.choice, Quot.sound}',
	'hand-written model SymbolVerif/Model/Sdk/Bip32.lean, tied to the code by this differential run and by the constants re-read from the '
	'source on every run (source_constants_tied)',
	'HMAC-SHA512, the BIP39 seed function, SHA-512 / Keccak-512 and the clamping base-point multiplication are parameters of every theorem; '
	'the driver instantiates them with SymbolVerif/Model/Hash/{Hmac,Sha2,Keccak}.lean and Model/Sdk/Ed25519Exec.lean (unverified; compared '
	'with hmac/hashlib and the harness oracles on every case)',
	'the sandbox stand-ins /verif/shims/{mnemonic,sha3,nacl,cryptography} executed underneath the real Bip32 / KeyPair code',
	'translator in harness/c16.py (ast walk of Bip32.py, CryptoTypes.py and the two facades)',
]
ASSUMPTIONS = [
	'MAC length: theorems that claim "no exception" assume every MAC is 64 bytes (true of HMAC-SHA512)',
	'mnemonics and passphrases are opaque strings; the model side sees ASCII ones only (NFKD is the identity there), others are checked '
	'directly on the implementation against unicodedata + hashlib.pbkdf2_hmac',
	'network names and curve labels restricted to valid Unicode scalar values',
]

HARDENED = 0x80000000
SHIPPED_CURVES = {'symbol': 'ed25519', 'nem': 'ed25519-keccak'}
COIN_TYPES = {'symbol': 4343, 'nem': 43}

# region translator
#
# Every constant written to Generated/C16Consts.lean is read off the *running* code of the working tree, never off the spelling
# of its source: public names through translate/pyruntime.py (fresh interpreter), everything else by calling public functions
# on crafted inputs and identifying the one candidate that reproduces what they return. A behaviour-preserving refactoring
# therefore yields the same file; a change of a value yields a different file and breaks `source_constants_tied`.

_PROBE_SEED = bytes(range(1, 41))
_PROBE_INDICES = [0x010203, 0, 5, 0x7FFFFFFF, 0x01000000]
_SUFFIX_CANDIDATES = [' seed', 'seed', ' Seed', ' SEED', '_seed', '-seed', '', ' seed ', 'seed ', ' key', ' master seed', ' master']
_PROBE_ACCOUNTS = (7, 1000003)


def _mac_of(node):
	return bytes(node.private_key.bytes) + bytes(node.chain_code)


def _probe_root(problems):
	"""Root label: the suffix s with from_seed(seed) = HMAC-SHA512((curve + s) utf8, seed), the same for several curve names;
	and where the MAC is cut into private key and chain code."""
	from symbolchain.Bip32 import Bip32
	found = None
	key_size = 0
	for curve in ('ed25519', 'zq', '', 'ed25519-keccak'):
		factory = Bip32(curve)
		node = factory.from_seed(_PROBE_SEED)
		mac = _mac_of(node)
		key_size = len(node.private_key.bytes)
		candidates = list(_SUFFIX_CANDIDATES)
		label = getattr(factory, 'root_hmac_key', None)  # a public attribute today; only ever used as one more candidate
		if isinstance(label, (bytes, bytearray)) and bytes(label).startswith(curve.encode('utf8')):
			try:
				candidates.insert(0, bytes(label)[len(curve.encode('utf8')):].decode('utf8'))
			except UnicodeDecodeError:
				pass
		matching = [suffix for suffix in dict.fromkeys(candidates) if hmac.new((curve + suffix).encode('utf8'), _PROBE_SEED, hashlib.sha512).digest() == mac]
		if 1 != len(matching):
			problems.append(f'translator: root node for curve "{curve}" is HMAC-SHA512 under {len(matching)} of the candidate labels "<curve><suffix>"')
			return '', key_size
		if found is not None and found != matching[0]:
			problems.append(f'translator: root label suffix depends on the curve name ("{found}" / "{matching[0]}")')
			return '', key_size
		found = matching[0]
	return found, key_size


def _probe_derive_one(problems):
	"""derive_one(i) = HMAC-SHA512(chain code, prefix ‖ private key ‖ (flag | i) as `width` bytes in `order`): the one
	(order, prefix, flag, width) that reproduces the children of a fixed node for all probe indices."""
	from symbolchain.Bip32 import Bip32
	result = {'order': '', 'prefix': [0, 0], 'flag': 0, 'width': 0}
	node = Bip32('probe').from_seed(_PROBE_SEED)
	key, chain = bytes(node.private_key.bytes), bytes(node.chain_code)
	try:
		targets = [_mac_of(node.derive_one(index)) for index in _PROBE_INDICES]
	except Exception as ex:  # pylint: disable=broad-except
		problems.append(f'translator: derive_one raised {type(ex).__name__} on a probe index below 2^31')
		return result
	keyed = hmac.new(chain, digestmod=hashlib.sha512)
	prefixes = [b''] + [bytes([value]) for value in range(256)] + [b'\x00\x00', b'\x00\x01', b'\x01\x00']
	flags = [0] + [1 << bit for bit in range(64)]
	survivors = []
	for prefix in prefixes:
		with_key = keyed.copy()
		with_key.update(prefix + key)
		for order in ('big', 'little'):
			for width in range(1, 9):
				for flag in flags:
					value = flag | _PROBE_INDICES[0]
					if value >= 1 << (8 * width):
						continue
					attempt_mac = with_key.copy()
					attempt_mac.update(value.to_bytes(width, order))
					if attempt_mac.digest() == targets[0]:
						survivors.append((order, prefix, flag, width))
	confirmed = []
	for order, prefix, flag, width in survivors:
		agrees = True
		for index, target in zip(_PROBE_INDICES[1:], targets[1:]):
			value = flag | index
			if value >= 1 << (8 * width) or hmac.new(chain, prefix + key + value.to_bytes(width, order), hashlib.sha512).digest() != target:
				agrees = False
				break
		if agrees:
			confirmed.append((order, prefix, flag, width))
	if 1 != len(confirmed):
		problems.append(
			f'translator: {len(confirmed)} candidates (byte order, prefix, flag, width) reproduce derive_one as HMAC(chain code, prefix ‖ key ‖ (flag | i)) '
			f'{[(order, prefix.hex(), hex(flag), width) for order, prefix, flag, width in confirmed[:4]]}')
		return result
	order, prefix, flag, width = confirmed[0]
	return {'order': order, 'prefix': [int.from_bytes(prefix, order), len(prefix)], 'flag': flag, 'width': width}


def _probe_facade(facade_name, problems):
	"""bip32_path read off its results for several network names and two account ids: purpose, where the account id goes, the
	tail, and which network name selects which coin type."""
	import datetime
	import importlib
	facade_class = getattr(importlib.import_module(f'symbolchain.facade.{facade_name}'), facade_name)
	network_module = importlib.import_module('symbolchain.symbol.Network' if 'SymbolFacade' == facade_name else 'symbolchain.nem.Network')
	shipped = [network.name for network in network_module.Network.NETWORKS]
	names = list(shipped)
	for name in shipped:
		names += [name.upper(), name.capitalize(), name + ' ', 'x' + name, name[:-1]]
	names += ['', 'private', 'mijin']
	names = list(dict.fromkeys(names))
	epoch = datetime.datetime(2020, 1, 1, tzinfo=datetime.timezone.utc)
	result = {'purpose': 0, 'mainnet_name': '', 'mainnet_coin': 0, 'other_coin': 0, 'tail': []}

	def facade_for(name):
		if name in shipped:
			return facade_class(name)
		try:
			return facade_class(network_module.Network(name, 0x68, epoch))
		except Exception:  # pylint: disable=broad-except
			facade = facade_class.__new__(facade_class)
			facade.network = type('NetworkStub', (), {'name': name, 'identifier': 0x68})()
			return facade

	shapes = {}
	for name in names:
		facade = facade_for(name)
		first, second = (list(facade.bip32_path(account)) for account in _PROBE_ACCOUNTS)
		positions = [position for position, (left, right) in enumerate(zip(first, second)) if left != right]
		if len(first) != len(second) or 1 != len(positions) or (first[positions[0]], second[positions[0]]) != _PROBE_ACCOUNTS:
			problems.append(f'translator: {facade_name}.bip32_path on "{name}" does not place the account id at one position: {first} / {second}')
			return result
		shapes[name] = (positions[0], first)
	layouts = {(position, len(path), path[0], tuple(path[position + 1:])) for position, path in shapes.values()}
	if 1 != len(layouts):
		problems.append(f'translator: {facade_name}.bip32_path has network dependent layouts {sorted(layouts)}')
		return result
	position, _, purpose, tail = next(iter(layouts))
	if 2 != position:
		problems.append(f'translator: {facade_name}.bip32_path places the account id at position {position}, not after purpose and coin type')
		return result
	coins = {name: path[1] for name, (_, path) in shapes.items()}
	values = sorted(set(coins.values()), key=lambda coin: -list(coins.values()).count(coin))
	result.update({'purpose': purpose, 'tail': list(tail), 'other_coin': values[0], 'mainnet_coin': values[0]})
	special = [name for name, coin in coins.items() if coin != values[0]]
	if 1 != len(special):
		problems.append(f'translator: {facade_name}.bip32_path: {len(special)} of the probed network names select a coin type of their own {special[:5]}')
		if not special:
			return result
	result['mainnet_name'] = special[0]
	result['mainnet_coin'] = coins[special[0]]
	return result


def translate(_ctx):
	"""Generated/C16Consts.lean: constants of the anchored code, obtained from the running code of the working tree on every run."""
	from translate import pyconst, pyruntime

	from .common import LEAN, REPO, setup_paths, write_if_changed
	problems = []
	suffix, key_size = '', 0
	derive = {'order': '', 'prefix': [0, 0], 'flag': 0, 'width': 0}
	templates = {name: {'purpose': 0, 'mainnet_name': '', 'mainnet_coin': 0, 'other_coin': 0, 'tail': []} for name in ('SymbolFacade', 'NemFacade')}
	curves = {'SymbolFacade': '', 'NemFacade': ''}
	try:
		setup_paths()
		suffix, key_size = _probe_root(problems)
		derive = _probe_derive_one(problems)
		for facade_name in templates:
			templates[facade_name] = _probe_facade(facade_name, problems)
			public = pyruntime.values(REPO, f'symbolchain.facade.{facade_name}', [f'{facade_name}.BIP32_CURVE_NAME'])
			curves[facade_name] = public[f'{facade_name}.BIP32_CURVE_NAME']
		declared = pyruntime.values(REPO, 'symbolchain.CryptoTypes', ['PrivateKey.SIZE'])['PrivateKey.SIZE']
		if declared != key_size:
			problems.append(f'translator: nodes carry {key_size}-byte private keys but PrivateKey.SIZE is {declared}')
	except Exception as ex:  # pylint: disable=broad-except
		problems.append(f'translator: probing the implementation failed: {type(ex).__name__}: {str(ex)[:300]}')
	lines = [
		'/- generated by harness/c16.py from the behaviour of symbolchain.Bip32 and facade.{SymbolFacade,NemFacade} in the working tree; do not edit -/',
		'namespace SymbolVerif.Generated.C16',
		f'def privateKeySize : Nat := {key_size}',
		f'def writerByteOrder : String := {pyconst.lean_string(derive["order"])}',
		f'def prefixValue : Nat := {derive["prefix"][0]}',
		f'def prefixWidth : Nat := {derive["prefix"][1]}',
		f'def hardenedFlag : Nat := {derive["flag"]}',
		f'def indexWidth : Nat := {derive["width"]}',
		f'def rootKeySuffix : String := {pyconst.lean_string(suffix)}',
	]
	for tag, facade_name in (('symbol', 'SymbolFacade'), ('nem', 'NemFacade')):
		template = templates[facade_name]
		lines += [
			f'def {tag}CurveName : String := {pyconst.lean_string(str(curves[facade_name]))}',
			f'def {tag}PathPurpose : Nat := {template["purpose"]}',
			f'def {tag}MainnetName : String := {pyconst.lean_string(template["mainnet_name"])}',
			f'def {tag}MainnetCoinType : Nat := {template["mainnet_coin"]}',
			f'def {tag}OtherCoinType : Nat := {template["other_coin"]}',
			f'def {tag}PathTail : List Nat := {pyconst.lean_nat_list(template["tail"])}',
		]
	lines.append('end SymbolVerif.Generated.C16')
	write_if_changed(os.path.join(LEAN, 'SymbolVerif', 'Generated', 'C16Consts.lean'), '\n'.join(lines) + '\n')
	return problems

# endregion

# region independent oracle


def spec_node(key, data):
	mac = hmac.new(key, data, hashlib.sha512).digest()
	return mac[:32], mac[32:]


def spec_root(curve, seed):
	return spec_node((curve + ' seed').encode('utf8'), seed)


def spec_child(node, index):
	"""SLIP-10 hardened child for index in [0, 2^31)."""
	return spec_node(node[1], b'\x00' + node[0] + struct.pack('>I', (1 << 31) + index))


def spec_path(node, path):
	for index in path:
		node = spec_child(node, index)
	return node


def spec_bip39_seed(mnemonic, passphrase):
	normalize = lambda text: unicodedata.normalize('NFKD', text).encode('utf8')  # noqa: E731 pylint: disable=unnecessary-lambda-assignment
	return hashlib.pbkdf2_hmac('sha512', normalize(mnemonic), b'mnemonic' + normalize(passphrase), 2048, 64)


_KECCAK_RC = [
	0x0000000000000001, 0x0000000000008082, 0x800000000000808A, 0x8000000080008000, 0x000000000000808B, 0x0000000080000001,
	0x8000000080008081, 0x8000000000008009, 0x000000000000008A, 0x0000000000000088, 0x0000000080008009, 0x000000008000000A,
	0x000000008000808B, 0x800000000000008B, 0x8000000000008089, 0x8000000000008003, 0x8000000000008002, 0x8000000000000080,
	0x000000000000800A, 0x800000008000000A, 0x8000000080008081, 0x8000000000008080, 0x0000000080000001, 0x8000000080008008]
_KECCAK_ROT = [[0, 36, 3, 41, 18], [1, 44, 10, 45, 2], [62, 6, 43, 15, 61], [28, 55, 25, 21, 56], [27, 20, 39, 8, 14]]
_MASK64 = (1 << 64) - 1


def _keccak_f(lanes):
	rotate = lambda value, count: ((value << count) | (value >> (64 - count))) & _MASK64 if count else value  # noqa: E731 pylint: disable=unnecessary-lambda-assignment
	for constant in _KECCAK_RC:
		parity = [lanes[x][0] ^ lanes[x][1] ^ lanes[x][2] ^ lanes[x][3] ^ lanes[x][4] for x in range(5)]
		for x in range(5):
			flip = parity[(x - 1) % 5] ^ rotate(parity[(x + 1) % 5], 1)
			for y in range(5):
				lanes[x][y] ^= flip
		moved = [[0] * 5 for _ in range(5)]
		for x in range(5):
			for y in range(5):
				moved[y][(2 * x + 3 * y) % 5] = rotate(lanes[x][y], _KECCAK_ROT[x][y])
		for x in range(5):
			for y in range(5):
				lanes[x][y] = moved[x][y] ^ (~moved[(x + 1) % 5][y] & moved[(x + 2) % 5][y] & _MASK64)
		lanes[0][0] ^= constant
	return lanes


def spec_keccak(data, rate, length):
	"""Original Keccak (padding 0x01) with the given rate in bytes; `length`-byte digest (length <= rate)."""
	padded = bytearray(data) + b'\x01' + bytes(-(len(data) + 1) % rate)
	padded[-1] |= 0x80
	lanes = [[0] * 5 for _ in range(5)]
	for offset in range(0, len(padded), rate):
		block = padded[offset:offset + rate]
		for index in range(rate // 8):
			lanes[index % 5][index // 5] ^= int.from_bytes(block[8 * index:8 * index + 8], 'little')
		lanes = _keccak_f(lanes)
	out = b''.join(lanes[index % 5][index // 5].to_bytes(8, 'little') for index in range(rate // 8))
	return out[:length]


def spec_keccak_512(data):
	return spec_keccak(data, 72, 64)


_P = 2 ** 255 - 19
_D = -121665 * pow(121666, -1, _P) % _P
_BASE_Y = 4 * pow(5, -1, _P) % _P
_BASE_X = 15112221349535400772501151409588531511454012693041857206046113283949847762202


def _affine_add(left, right):
	"""Affine twisted Edwards addition (a = -1), deliberately different from the extended-coordinate code under test."""
	x1, y1 = left
	x2, y2 = right
	product = _D * x1 * x2 * y1 * y2 % _P
	inverse = pow((1 + product) * (1 - product), -1, _P)  # one inversion for both denominators
	x3 = (x1 * y2 + x2 * y1) * (1 - product) * inverse % _P
	y3 = (y1 * y2 + x1 * x2) * (1 + product) * inverse % _P
	return x3, y3


def spec_public_key(digest_function, secret):
	"""RFC 8032 5.1.5 with a pluggable 512-bit hash: clamp the first 32 digest bytes, multiply the base point, encode."""
	digest = digest_function(secret)
	scalar = int.from_bytes(digest[:32], 'little')
	scalar &= (1 << 254) - 8
	scalar |= 1 << 254
	result = (0, 1)
	addend = (_BASE_X, _BASE_Y)
	while scalar:
		if scalar & 1:
			result = _affine_add(result, addend)
		addend = _affine_add(addend, addend)
		scalar >>= 1
	return (result[1] | ((result[0] & 1) << 255)).to_bytes(32, 'little')


def spec_sha512(data):
	return hashlib.sha512(data).digest()

# endregion

# region case evaluation


def path_text(path):
	return ','.join(str(index) for index in path) if path else '-'


def node_text(node):
	return f'ok {hx(node[0])} {hx(node[1])}'


def attempt(function):
	try:
		return ('ok', function())
	except (OverflowError, ValueError, TypeError, IndexError) as ex:
		return ('none', type(ex).__name__)


class Evaluation:
	"""Outcome of one case on the implementation: driver requests with the implementation's answers, direct-property failures."""

	def __init__(self):
		self.requests = []  # (driver line, implementation answer)
		self.property_failures = []
		self.branches = []

	def request(self, line, answer):
		self.requests.append((line, answer))

	def require(self, condition, what):
		if not condition:
			self.property_failures.append(what)


def make_node(modules, key, chain):
	node = modules['Bip32Node'].__new__(modules['Bip32Node'])
	node.private_key = modules['PrivateKey'](key)
	node.chain_code = chain
	return node


def _node_bytes(node):
	return bytes(node.private_key.bytes), bytes(node.chain_code)


def impl_node(result):
	if 'ok' != result[0]:
		return 'none'
	return node_text((result[1].private_key.bytes, result[1].chain_code))


def in_property_range(path):
	return all(0 <= index < (1 << 31) for index in path)


def evaluate(modules, case):
	# pylint: disable=too-many-locals,too-many-branches,too-many-statements
	out = Evaluation()
	operation = case['op']
	if 'derive' == operation or 'node_derive' == operation:
		path = case['path']
		if 'derive' == operation:
			curve, seed = case['curve'], bytes.fromhex(case['seed'])
			seed_as = case.get('seed_as', 'bytes')
			given_seed = {'bytes': lambda: seed, 'bytearray': lambda: bytearray(seed), 'memoryview': lambda: memoryview(seed)}.get(seed_as)
			if 'str' == seed_as:
				# a text seed is not a seed: the unchanged code hands it to hmac, which raises TypeError
				text_result = attempt(lambda: modules['Bip32'](curve).from_seed(seed.decode('latin1')))
				out.require('none' == text_result[0], f'from_seed accepted the str {seed.decode("latin1")!r} as a seed')
				out.branches.append('seed:str')
				return out
			start = lambda: modules['Bip32'](curve).from_seed(given_seed())  # noqa: E731 pylint: disable=unnecessary-lambda-assignment
			expected_start = spec_root(curve, seed)
			if case.get('differs_from'):
				other_root = impl_node(attempt(lambda: modules['Bip32'](curve).from_seed(bytes.fromhex(case['differs_from']))))
				out.require(other_root != impl_node(attempt(start)), f'seeds {hx(seed)} and {case["differs_from"]} give the same root node')
			prefix = f'{sx(curve)} {hx(seed)}'
			names = ('derive_path', 'derive_split')
			root_answer = impl_node(attempt(start))
			out.request(f'from_seed {prefix}', root_answer)
			out.require(root_answer == node_text(expected_start), f'root node != HMAC-SHA512("{curve} seed", seed) split at 32')
		else:
			key, chain = bytes.fromhex(case['key']), bytes.fromhex(case['chain'])
			start = lambda: make_node(modules, key, chain)  # noqa: E731 pylint: disable=unnecessary-lambda-assignment
			expected_start = (key, chain)
			prefix = f'{hx(key)} {hx(chain)}'
			names = ('node_derive', None)
		path_argument = list(path)
		whole = impl_node(attempt(lambda: start().derive_path(path_argument)))
		if in_property_range(path):
			out.require(path_argument == list(path), f'derive_path changed the path list it was given: {path} -> {path_argument}')
		out.request(f'{names[0]} {prefix} {path_text(path)}', whole)
		if in_property_range(path):
			out.branches.append(f'path-length-{len(path)}')
			expected = node_text(spec_path(expected_start, path))
			out.require(whole == expected, f'derive_path({path}) != chain of SLIP-10 hardened children: implementation {whole}, expected {expected}')
			stepwise = start()
			for index in path:
				stepwise = stepwise.derive_one(index)
			out.require(impl_node(('ok', stepwise)) == whole, f'derive_path({path}) != derive_one step by step')
		else:
			out.branches.append('path-out-of-range:' + ('rejected' if 'none' == whole else 'accepted'))
		for split in range(len(path) + 1):
			two_step = impl_node(attempt(lambda split=split: start().derive_path(path[:split]).derive_path(path[split:])))
			if in_property_range(path):
				out.require(two_step == whole, f'derive_path({path}) != derive_path({path[:split]}) then derive_path({path[split:]})')
			if names[1]:
				out.request(f'{names[1]} {prefix} {path_text(path[:split])} {path_text(path[split:])}', two_step)
	elif 'mnemonic' == operation:
		curve, mnemonic, passphrase = case['curve'], case['mnemonic'], case['passphrase']
		factory = modules['Bip32'](curve)
		seed = modules['Mnemonic']('english').to_seed(mnemonic, passphrase)
		from_mnemonic = impl_node(attempt(lambda: factory.from_mnemonic(mnemonic, passphrase)))
		from_seed = impl_node(attempt(lambda: factory.from_seed(seed)))
		expected_seed = spec_bip39_seed(mnemonic, passphrase)
		out.require(from_mnemonic == from_seed, 'root from mnemonic != root from its BIP39 seed')
		out.require(from_mnemonic == node_text(spec_root(curve, expected_seed)), 'root from mnemonic != root of PBKDF2-HMAC-SHA512(NFKD mnemonic, "mnemonic" + NFKD passphrase, 2048, 64)')
		if case.get('expected_seed'):
			out.require(hx(bytes(seed)) == case['expected_seed'], 'BIP39 seed != vector seed')
		if mnemonic.isascii() and passphrase.isascii():
			out.request(f'from_mnemonic {sx(curve)} {sx(mnemonic)} {sx(passphrase)}', from_mnemonic)
			out.branches.append('mnemonic:ascii')
		else:
			out.branches.append('mnemonic:unicode(direct only)')
	elif 'path' == operation:
		facade_name, network_name, account = case['facade'], case['network'], case['account']
		facade_class = modules['facades'][facade_name]
		network = type('NetworkStub', (), {'name': network_name, 'identifier': 0x68})()
		facade = facade_class.__new__(facade_class)
		facade.network = network
		if network_name in ('mainnet', 'testnet') and case.get('real_network', True):
			facade = facade_class(network_name)
		result = facade.bip32_path(account)
		coin = COIN_TYPES[facade_name] if 'mainnet' == network_name else 1
		out.require(list(result) == [44, coin, account, 0, 0], f'{facade_name} bip32_path({account}) on "{network_name}" = {list(result)}, expected [44, {coin}, {account}, 0, 0]')
		out.require(facade_class.BIP32_CURVE_NAME == SHIPPED_CURVES[facade_name], f'{facade_name} BIP32_CURVE_NAME = {facade_class.BIP32_CURVE_NAME}')
		out.request(f'{facade_name}_path {sx(network_name)} {account}', path_text(list(result)))
		out.branches.append(f'path:{facade_name}:' + ('mainnet' if 'mainnet' == network_name else 'other'))
	elif 'keypair' == operation:
		facade_name, key = case['facade'], bytes.fromhex(case['key'])
		facade_class = modules['facades'][facade_name]
		digest_function = spec_sha512 if 'symbol' == facade_name else spec_keccak_512
		raw = case.get('raw', False)
		node = make_node(modules, key, b'')
		key_pair = facade_class.KeyPair(node.private_key) if raw else facade_class.bip32_node_to_key_pair(node)
		public = key_pair.public_key.bytes
		shown = key_pair.private_key.bytes
		out.require(
			(bytes(node.private_key.bytes), bytes(node.chain_code)) == (key, b''),
			f'{facade_name} conversion to a key pair changed the node it was given: private key {hx(key)} -> {hx(bytes(node.private_key.bytes))}')
		secret = key[::-1] if (raw and 'nem' == facade_name) else key
		expected_public = spec_public_key(digest_function, secret)
		kind = 'KeyPair(node.private_key)' if raw else 'bip32_node_to_key_pair(node)'
		out.require(public == expected_public, f'{facade_name} {kind}.public_key is not the Ed25519 public key of the {"reversed " if secret != key else ""}node key bytes')
		expected_shown = key[::-1] if ('nem' == facade_name and not raw) else key
		out.require(shown == expected_shown, f'{facade_name} {kind}.private_key shows {hx(shown)}, expected {hx(expected_shown)}')
		if 'nem' == facade_name:
			out.require(getattr(key_pair, '_sk', None) == secret, f'nem {kind} signing secret (_sk) is not the expected bytes')
		if case.get('expected_public'):
			out.require(hx(public) == case['expected_public'], f'{facade_name} {kind}.public_key != vector public key')
		impl_answer = f'{hx(secret)} {hx(public)} {hx(shown)}'
		if raw:
			line = f'nem_keypair_raw {hx(key)}' if 'nem' == facade_name else f'symbol_keypair {hx(key)}'
			out.request(line, impl_answer)
		else:
			out.request(f'{facade_name}_keypair {hx(key)}', impl_answer if 'symbol' == facade_name else 'ok ' + impl_answer)
		out.branches.append(f'keypair:{facade_name}:' + ('raw' if raw else 'facade'))
	elif 'account' == operation:
		facade_name, seed, path = case['facade'], bytes.fromhex(case['seed']), case['path']
		facade_class = modules['facades'][facade_name]
		raw = case.get('raw', False)
		digest_function = spec_sha512 if 'symbol' == facade_name else spec_keccak_512
		path_argument = list(path)
		node = modules['Bip32'](facade_class.BIP32_CURVE_NAME).from_seed(seed).derive_path(path_argument)
		out.require(path_argument == list(path), f'derive_path changed the path list it was given: {path} -> {path_argument}')
		before = (bytes(node.private_key.bytes), bytes(node.chain_code))
		key_pair = facade_class.KeyPair(node.private_key) if raw else facade_class.bip32_node_to_key_pair(node)
		out.require(
			(bytes(node.private_key.bytes), bytes(node.chain_code)) == before,
			f'{facade_name} conversion to a key pair changed the node it was given: private key {hx(before[0])} -> {hx(bytes(node.private_key.bytes))}')
		expected_key = spec_path(spec_root(SHIPPED_CURVES[facade_name], seed), path)[0]
		secret = expected_key[::-1] if (raw and 'nem' == facade_name) else expected_key
		public = key_pair.public_key.bytes
		out.require(public == spec_public_key(digest_function, secret), f'{facade_name} account public key at path {path} is not the Ed25519 public key of the derived key bytes')
		if case.get('expected_public'):
			out.require(hx(public) == case['expected_public'], f'{facade_name} account public key at path {path} != vector public key {case["expected_public"]}')
		shown = key_pair.private_key.bytes
		operation_name = 'account_raw' if raw else 'account'
		out.request(f'{operation_name} {facade_name} {hx(seed)} {path_text(path)}', f'ok {hx(secret)} {hx(public)} {hx(shown)}')
		out.branches.append(f'account:{facade_name}:' + ('raw' if raw else 'facade'))
	elif 'long' == operation:
		# a long path (regenerated from its own seed, so that the case stays small), given as list / tuple / generator / range
		import random
		curve, seed, length, container = case['curve'], bytes.fromhex(case['seed']), case['length'], case['container']
		if 'range' == container:
			path = list(range(case['path_seed'] % (1 << 30), case['path_seed'] % (1 << 30) + length))
		else:
			generator = random.Random(case['path_seed'])
			path = [generator.randrange(1 << 31) if generator.random() < 0.8 else generator.choice([0, 1, 44, 4343, (1 << 31) - 1]) for _ in range(length)]

		def given():
			if 'tuple' == container:
				return tuple(path)
			if 'generator' == container:
				return (index for index in path)
			if 'range' == container:
				return range(path[0], path[0] + length) if path else range(0)
			return list(path)

		def run_whole():
			try:
				return node_text(_node_bytes(modules['Bip32'](curve).from_seed(seed).derive_path(given())))
			except Exception as ex:  # pylint: disable=broad-except
				return f'none ({type(ex).__name__})'

		expected = node_text(spec_path(spec_root(curve, seed), path))
		whole = run_whole()
		out.require(
			whole == expected,
			f'derive_path of a {length}-element path given as {container} (path_seed {case["path_seed"]}) is {whole[:60]}, expected the fold of derive_one over it: {expected[:60]}')
		stepwise = modules['Bip32'](curve).from_seed(seed)
		for index in path:
			stepwise = stepwise.derive_one(index)
		out.require(node_text(_node_bytes(stepwise)) == expected, f'derive_one folded over a {length}-element path != chain of SLIP-10 hardened children')
		for split in case['splits']:
			split = min(split, length)
			try:
				two_step = node_text(_node_bytes(modules['Bip32'](curve).from_seed(seed).derive_path(path[:split]).derive_path(path[split:])))
			except Exception as ex:  # pylint: disable=broad-except
				two_step = f'none ({type(ex).__name__})'
			out.require(two_step == whole, f'derive_path of a {length}-element path ({whole[:40]}) != derive_path of its first {split} then of the remaining {length - split} elements ({two_step[:40]})')
		chunked = modules['Bip32'](curve).from_seed(seed)
		for start in range(0, length, 50):
			chunked = chunked.derive_path(path[start:start + 50])
		out.require(node_text(_node_bytes(chunked)) == whole, f'derive_path of a {length}-element path != derive_path over its chunks of 50 in sequence')
		out.request(f'derive_path {sx(curve)} {hx(seed)} {path_text(path)}', whole if whole.startswith('ok ') else 'none')
		if case['splits']:
			split = min(case['splits'][0], length)
			out.request(f'derive_split {sx(curve)} {hx(seed)} {path_text(path[:split])} {path_text(path[split:])}', whole if whole.startswith('ok ') else 'none')
		out.branches.append(f'long:{length}:{container}')
	elif 'history' == operation:
		# several calls on shared objects: every result is compared with the oracle evaluated on the values the objects *should*
		# hold, and after every call all argument objects (nodes, path lists) are compared with their snapshots
		facade_name, seed = case['facade'], bytes.fromhex(case['seed'])
		facade_class = modules['facades'][facade_name]
		digest_function = spec_sha512 if 'symbol' == facade_name else spec_keccak_512
		nodes = {}
		expected = {}
		key_pairs = {}
		for number, step in enumerate(case['steps']):
			kind = step[0]
			text = f'step {number} {step}'
			if 'root' == kind:
				_, curve, target = step
				seed_argument = bytearray(seed)
				nodes[target] = modules['Bip32'](curve).from_seed(seed_argument)
				out.require(bytes(seed_argument) == seed, f'{text}: from_seed changed the seed buffer it was given')
				expected[target] = spec_root(curve, seed)
				out.request(f'from_seed {sx(curve)} {hx(seed)}', node_text((bytes(nodes[target].private_key.bytes), bytes(nodes[target].chain_code))))
			elif kind in ('derive', 'one'):
				_, source, path, target = step
				path_argument = list(path)
				if 'derive' == kind:
					node = nodes[source].derive_path(path_argument)
				else:
					node = nodes[source]
					for index in path_argument:
						node = node.derive_one(index)
				out.require(path_argument == list(path), f'{text}: the path list it was given changed to {path_argument}')
				start = expected[source]
				expected_node = spec_path(start, path)
				actual = (bytes(node.private_key.bytes), bytes(node.chain_code))
				out.require(
					actual == expected_node,
					f'{text}: deriving {path} from node "{source}" (after the earlier steps) != the chain of SLIP-10 children of that node: {node_text(actual)}')
				out.request(f'node_derive {hx(start[0])} {hx(start[1])} {path_text(path)}', node_text(actual))
				if target in nodes:
					out.require(actual == expected[target], f'{text}: deriving the same path again gave a different node')
				nodes[target] = node
				expected[target] = expected_node
			elif kind in ('convert', 'convert_raw'):
				_, source = step
				raw = 'convert_raw' == kind
				node = nodes[source]
				key_pair = facade_class.KeyPair(node.private_key) if raw else facade_class.bip32_node_to_key_pair(node)
				key = expected[source][0]
				secret = key[::-1] if (raw and 'nem' == facade_name) else key
				public, shown = bytes(key_pair.public_key.bytes), bytes(key_pair.private_key.bytes)
				out.require(
					public == spec_public_key(digest_function, secret),
					f'{text}: key pair of node "{source}" (after the earlier steps) has public key {hx(public)}, not the Ed25519 public key of the node key bytes')
				out.require(shown == (key[::-1] if ('nem' == facade_name and not raw) else key), f'{text}: key pair of node "{source}" shows private key {hx(shown)}')
				if (source, raw) in key_pairs:
					out.require(key_pairs[(source, raw)] == (public, shown), f'{text}: converting node "{source}" again gave a different key pair')
				key_pairs[(source, raw)] = (public, shown)
				answer = f'{hx(secret)} {hx(public)} {hx(shown)}'
				if raw:
					out.request(f'nem_keypair_raw {hx(key)}' if 'nem' == facade_name else f'symbol_keypair {hx(key)}', answer)
				else:
					out.request(f'{facade_name}_keypair {hx(key)}', answer if 'symbol' == facade_name else 'ok ' + answer)
			else:
				raise ValueError(f'unknown step {kind}')
			for name, node in nodes.items():
				actual = (bytes(node.private_key.bytes), bytes(node.chain_code))
				out.require(
					actual == expected[name],
					f'{text} changed node "{name}", an object it was given or that was derived earlier: {node_text(expected[name])} -> {node_text(actual)}')
			if out.property_failures:
				break
		out.branches.append(f'history:{facade_name}:{case.get("shape", "?")}')
	elif 'write_int' == operation:
		order, buffer, value, count = case['order'], bytes.fromhex(case['buffer']), case['value'], case['count']
		writer = modules['BufferWriter'](order)
		writer.write_bytes(buffer)
		result = attempt(lambda: writer.write_int(value, count))
		fits = value < (1 << (8 * count))
		digits = [(value >> (8 * position)) & 0xFF for position in range(count)]
		expected = buffer + bytes(digits[::-1] if 'big' == order else digits)
		if fits:
			out.require('ok' == result[0] and writer.buffer == expected, f'BufferWriter({order}).write_int({value}, {count}) wrote {hx(writer.buffer)}')
		else:
			out.require('none' == result[0], f'BufferWriter({order}).write_int({value}, {count}) did not raise')
		out.request(f'write_int {order} {hx(buffer)} {value} {count}', f'ok {hx(writer.buffer)}' if 'ok' == result[0] else 'none')
		out.branches.append(f'write_int:{order}:' + ('fits' if fits else 'overflow'))
	else:
		raise ValueError(f'unknown operation {operation}')
	return out

# endregion

# region generation


def boundary_index(rng):
	pick = rng.random()
	if pick < 0.45:
		return rng.choice([0, 1, 2, 43, 44, 4343, 255, 256, 65535, 65536, (1 << 24) - 1, 1 << 24, (1 << 31) - 2, (1 << 31) - 1])
	if pick < 0.6:
		return (1 << rng.randrange(0, 31)) + rng.choice([-1, 0]) if rng.random() < 0.9 else 0
	return rng.randrange(1 << 31)


def bad_index(rng):
	return rng.choice([
		1 << 31, (1 << 31) + 1, (1 << 31) + 4343, (1 << 32) - 1, rng.randrange(1 << 31, 1 << 32),
		1 << 32, (1 << 32) + 1, 1 << 40, rng.randrange(1 << 32, 1 << 48),
		-1, -2, -(1 << 31), -(1 << 31) - 1, -rng.randrange(1, 1 << 33)])


def gen_curve(rng):
	pick = rng.random()
	if pick < 0.35:
		return 'ed25519'
	if pick < 0.7:
		return 'ed25519-keccak'
	if pick < 0.75:
		return ''
	if pick < 0.9:
		return ''.join(rng.choice('abcdefghijklmnopqrstuvwxyzABCXYZ0123456789-_ .') for _ in range(rng.choice([1, 3, 7, 13, 40])))
	return rng.choice(['é', 'ed25519 ', ' seed', 'Bitcoin', 'Nist256p1', 'кривая', '曲線25519', 'ed25519\t'])


def gen_seed(rng, vector_seeds):
	pick = rng.random()
	if pick < 0.25 and vector_seeds:
		return bytes.fromhex(rng.choice(vector_seeds))
	return rng.bytes_(rng.choice([0, 1, 16, 31, 32, 32, 33, 64, 64, 100]))


def gen_text(rng, ascii_only):
	alphabet = 'abcdefghijklmnopqrstuvwxyz     ABCXYZ0123456789!#$%&-_'
	text = ''.join(rng.choice(alphabet) for _ in range(rng.choice([0, 1, 5, 12, 40, 90])))
	if not ascii_only:
		text += rng.choice(['é', 'ﬁ', 'Å', 'ａｂｃ', 'ñ', '㍍', 'ǆ', 'パスワード'])
	return text


def load_vectors():
	from .common import REPO
	vectors = {}
	for tag in ('symbol', 'nem'):
		path = os.path.join(REPO, 'tests/vectors', tag, 'crypto/6.test-hd-derivation.json')
		with open(path, 'rt', encoding='utf8') as infile:
			document = json.load(infile)
		entries = []
		for group in document.values():
			entries.extend(group)
		vectors[tag] = entries
	return vectors


def generate(ctx, vectors):
	# pylint: disable=too-many-locals,too-many-branches,too-many-statements
	rng = ctx.rng
	cases = []
	vector_seeds = [entry['seed'] for entries in vectors.values() for entry in entries]

	# every length 0..12 is hit at least once per run, then random lengths
	derive_count = ctx.scale(400, 4000)
	for number in range(derive_count):
		length = number if number <= 12 else rng.choice([0, 1, 2, 3, 4, 5, 5, 6, 8, 12])
		path = [boundary_index(rng) for _ in range(length)]
		cases.append({'op': 'derive', 'curve': gen_curve(rng), 'seed': gen_seed(rng, vector_seeds).hex().upper(), 'path': path})
	for _ in range(ctx.scale(150, 1500)):
		length = rng.choice([1, 1, 2, 3, 5, 8, 12])
		path = [boundary_index(rng) for _ in range(length)]
		path[rng.randrange(length)] = bad_index(rng)
		cases.append({'op': 'derive', 'curve': gen_curve(rng), 'seed': gen_seed(rng, vector_seeds).hex().upper(), 'path': path})
	for _ in range(ctx.scale(100, 1000)):
		length = rng.choice([0, 1, 2, 5, 12])
		chain = rng.bytes_(rng.choice([0, 1, 31, 32, 32, 32, 33, 64, 128, 129, 200]))
		cases.append({
			'op': 'node_derive', 'key': rng.bytes_(32).hex().upper(), 'chain': chain.hex().upper(),
			'path': [boundary_index(rng) for _ in range(length)]})

	# mnemonics: vector ones (with expected seeds), then opaque strings
	mnemonic_entries = [entry for tag in ('symbol', 'nem') for entry in vectors[tag] if 'mnemonic' in entry]
	for entry in (mnemonic_entries if ctx.thorough else rng.sample(mnemonic_entries, min(16, len(mnemonic_entries)))):
		for curve in ('ed25519', 'ed25519-keccak'):
			cases.append({
				'op': 'mnemonic', 'curve': curve, 'mnemonic': entry['mnemonic'], 'passphrase': entry['passphrase'], 'expected_seed': entry['seed']})
	for _ in range(ctx.scale(60, 400)):
		ascii_only = rng.random() < 0.7
		cases.append({
			'op': 'mnemonic', 'curve': gen_curve(rng), 'mnemonic': gen_text(rng, ascii_only),
			'passphrase': gen_text(rng, ascii_only or rng.random() < 0.5)})

	# facade paths
	names = ['mainnet', 'testnet', 'mainnet', 'testnet', 'Mainnet', 'MAINNET', 'mainnet ', '', 'private', 'mijin', 'main', 'mainnet2', 'tëstnet']
	for facade_name in ('symbol', 'nem'):
		for name in names:
			for _ in range(ctx.scale(3, 40)):
				account = rng.choice([0, 1, 2, 43, 4343, (1 << 31) - 1, 1 << 31, rng.randrange(1 << 31), rng.randrange(1 << 40)])
				cases.append({'op': 'path', 'facade': facade_name, 'network': name, 'account': account, 'real_network': rng.random() < 0.5})

	# key pairs on random node keys
	for facade_name in ('symbol', 'nem'):
		for _ in range(ctx.scale(80, 600)):
			key = rng.choice([rng.bytes_(32), rng.bytes_(32), bytes(32), bytes([0xFF] * 32), bytes(range(32)), bytes([1] + [0] * 31)])
			cases.append({'op': 'keypair', 'facade': facade_name, 'key': key.hex().upper(), 'raw': rng.random() < 0.25})

	# vector accounts: root public key (KeyPair(root.private_key), no facade) and every child account (through the facade)
	for facade_name in ('symbol', 'nem'):
		entries = vectors[facade_name]
		chosen = entries if ctx.thorough else rng.sample(entries, min(30, len(entries)))
		for entry in chosen:
			cases.append({
				'op': 'account', 'facade': facade_name, 'seed': entry['seed'], 'path': [], 'raw': True, 'expected_public': entry['rootPublicKey']})
			for child in entry['childAccounts']:
				cases.append({
					'op': 'account', 'facade': facade_name, 'seed': entry['seed'], 'path': child['path'], 'raw': False,
					'expected_public': child['publicKey']})
		for _ in range(ctx.scale(50, 400)):
			network_name = rng.choice(['mainnet', 'testnet'])
			account = rng.choice([0, 1, 2, (1 << 31) - 1, rng.randrange(1 << 31)])
			coin = COIN_TYPES[facade_name] if 'mainnet' == network_name else 1
			cases.append({
				'op': 'account', 'facade': facade_name, 'seed': gen_seed(rng, vector_seeds).hex().upper(), 'path': [44, coin, account, 0, 0],
				'raw': False})

	# seeds that look like text (all bytes ASCII hex digits, digits, printable) - a seed is bytes, whatever they spell
	def ascii_seed(pool, length):
		return bytes(rng.choice(pool) for _ in range(length))

	lower, upper, mixed = b'0123456789abcdef', b'0123456789ABCDEF', b'0123456789abcdefABCDEF'
	ascii_seeds = [bytes(range(16)).hex().encode('ascii'), b'DEADBEEFdeadbeef' * 4, b'00ff', b'00', b'0', b'ff' * 32, b'0123456789' * 4]
	for pool in (lower, upper, mixed, b'0123456789'):
		for length in (2, 16, 31, 32, 33, 64, 128):
			ascii_seeds.append(ascii_seed(pool, length))
	for _ in range(6):
		almost = bytearray(ascii_seed(mixed, rng.choice([32, 64])))
		almost[rng.randrange(len(almost))] = rng.choice(b'gGxz -_\x00\xff')
		ascii_seeds.append(bytes(almost))
		ascii_seeds.append(ascii_seed(bytes(range(0x20, 0x7F)), rng.choice([16, 32, 64])))
	for position, seed in enumerate(ascii_seeds):
		for curve in (['ed25519', 'ed25519-keccak'] if position < 12 or ctx.thorough else [rng.choice(['ed25519', 'ed25519-keccak'])]):
			seed_as = ['bytes', 'bytes', 'bytearray', 'memoryview'][position % 4]
			cases.append({'op': 'derive', 'curve': curve, 'seed': seed.hex().upper(), 'path': [44, 4343, position % 3][:position % 4], 'seed_as': seed_as})
	for curve in ('ed25519', 'ed25519-keccak'):
		cases.append({'op': 'derive', 'curve': curve, 'seed': b'00ff'.hex().upper(), 'path': [], 'differs_from': '00FF'})
		cases.append({'op': 'derive', 'curve': curve, 'seed': '00FF', 'path': [0], 'differs_from': b'00ff'.hex().upper()})
		for seed in (b'00ff', b'000102030405060708090a0b0c0d0e0f', b'not hex'):
			cases.append({'op': 'derive', 'curve': curve, 'seed': seed.hex().upper(), 'path': [], 'seed_as': 'str'})
	for facade_name in ('symbol', 'nem'):
		for seed in ascii_seeds[:4] + ascii_seeds[8:12]:
			cases.append({'op': 'account', 'facade': facade_name, 'seed': seed.hex().upper(), 'path': [44, COIN_TYPES[facade_name], 0, 0, 0], 'raw': False})

	# long paths (any length; iterables other than lists), both shipped curves
	lengths = [200, 600, 1100, 1500] + ([2500, 5000] if ctx.thorough else [])
	for length in lengths:
		for curve in ('ed25519', 'ed25519-keccak'):
			for container in (['list', rng.choice(['tuple', 'generator', 'range'])] if not ctx.thorough else ['list', 'tuple', 'generator', 'range']):
				cases.append({
					'op': 'long', 'curve': curve, 'seed': gen_seed(rng, vector_seeds).hex().upper(), 'length': length, 'container': container,
					'path_seed': rng.randrange(1 << 32), 'splits': sorted(rng.randrange(length + 1) for _ in range(3)) + [length // 2]})
	for container in ('list', 'tuple', 'generator', 'range'):
		for length in (0, 1, 5, 13):
			cases.append({
				'op': 'long', 'curve': rng.choice(['ed25519', 'ed25519-keccak']), 'seed': gen_seed(rng, vector_seeds).hex().upper(), 'length': length,
				'container': container, 'path_seed': rng.randrange(1 << 32), 'splits': [rng.randrange(length + 1)]})

	# histories on shared objects (argument immutability, re-use)
	for facade_name in ('symbol', 'nem'):
		curve = SHIPPED_CURVES[facade_name]
		for number in range(ctx.scale(40, 600)):
			coin = COIN_TYPES[facade_name] if rng.random() < 0.5 else 1
			accounts = rng.sample([0, 1, 2, 3, 7, (1 << 31) - 1, rng.randrange(1 << 31)], 3)
			convert = lambda: rng.choice(['convert', 'convert', 'convert_raw'])  # noqa: E731 pylint: disable=unnecessary-lambda-assignment
			shape = ['twice', 'convert-then-derive', 'two-paths-both-orders', 'accounts-then-first-again', 'roots', 'random'][number % 6]
			steps = [['root', curve, 'root']]
			if 'twice' == shape:
				kind = convert()
				steps += [['derive', 'root', [44, coin, accounts[0], 0, 0], 'leaf'], [kind, 'leaf'], [kind, 'leaf'], ['convert', 'leaf'], ['convert', 'root'], ['convert', 'root']]
			elif 'convert-then-derive' == shape:
				steps += [
					['derive', 'root', [44, coin, accounts[0]], 'account'], [convert(), 'account'], ['derive', 'account', [0, 0], 'leaf'], ['convert', 'leaf'],
					['derive', 'root', [44, coin, accounts[0], 0, 0], 'leaf'], ['convert', 'leaf'], ['one', 'account', [0], 'change'], [convert(), 'change'],
					['one', 'change', [0], 'leaf']]
			elif 'two-paths-both-orders' == shape:
				first, second = [44, coin, accounts[0], 0, 0], [44, coin, accounts[1], 0, 0]
				steps += [
					['derive', 'root', first, 'a'], ['derive', 'root', second, 'b'], ['convert', 'a'], ['convert', 'b'],
					['derive', 'root', second, 'b'], ['derive', 'root', first, 'a'], ['convert', 'b'], ['convert', 'a']]
			elif 'accounts-then-first-again' == shape:
				steps += [['derive', 'root', [44, coin], 'coin']]
				for position, account in enumerate(accounts):
					steps += [['derive', 'coin', [account, 0, 0], f'account{position}'], [convert(), f'account{position}']]
				steps += [['convert', 'account0'], ['convert', 'coin'], ['derive', 'coin', [accounts[0], 0, 0], 'account0'], ['convert', 'account0']]
			elif 'roots' == shape:
				other = SHIPPED_CURVES['nem' if 'symbol' == facade_name else 'symbol']
				steps += [
					['convert', 'root'], ['root', other, 'other'], ['root', curve, 'root'], ['convert', 'root'], ['derive', 'root', [44, coin, accounts[0], 0, 0], 'leaf'],
					['derive', 'other', [44, coin, accounts[0], 0, 0], 'other-leaf'], ['convert', 'leaf']]
			else:
				names = ['root']
				for _ in range(rng.randrange(4, 12)):
					source = rng.choice(names)
					pick = rng.random()
					if pick < 0.45:
						steps.append([convert(), source])
					else:
						target = rng.choice(names[1:] + [f'n{len(names)}']) if len(names) > 1 and rng.random() < 0.2 else f'n{len(names)}'
						path = [boundary_index(rng) for _ in range(rng.choice([1, 1, 2, 3]))]
						if target in names:
							continue  # re-deriving under an existing name is only meaningful for the same source and path (done in the fixed shapes)
						steps.append([rng.choice(['derive', 'one']), source, path, target])
						names.append(target)
			cases.append({'op': 'history', 'facade': facade_name, 'seed': gen_seed(rng, vector_seeds).hex().upper(), 'steps': steps, 'shape': shape})

	# BufferWriter
	for _ in range(ctx.scale(200, 2000)):
		count = rng.choice([0, 1, 1, 2, 4, 4, 8, 16])
		pick = rng.random()
		if pick < 0.6:
			value = rng.randrange(1 << (8 * count)) if count else 0
		elif pick < 0.8:
			value = rng.choice([0, 1, (1 << (8 * count)) - 1 if count else 0, 1 << (8 * count), (1 << (8 * count)) + 1])
		else:
			value = HARDENED | boundary_index(rng)
		cases.append({
			'op': 'write_int', 'order': rng.choice(['big', 'big', 'little']), 'buffer': rng.bytes_(rng.choice([0, 0, 1, 33])).hex().upper(),
			'value': value, 'count': count})
	return cases

# endregion


def load_modules():
	from mnemonic import Mnemonic
	from symbolchain.Bip32 import Bip32, Bip32Node
	from symbolchain.BufferWriter import BufferWriter
	from symbolchain.CryptoTypes import PrivateKey
	from symbolchain.facade.NemFacade import NemFacade
	from symbolchain.facade.SymbolFacade import SymbolFacade
	return {
		'Bip32': Bip32, 'Bip32Node': Bip32Node, 'BufferWriter': BufferWriter, 'PrivateKey': PrivateKey, 'Mnemonic': Mnemonic,
		'facades': {'symbol': SymbolFacade, 'nem': NemFacade},
	}


def check_cases(ctx, modules, cases):
	evaluations = []
	for case in cases:
		try:
			evaluations.append(evaluate(modules, case))
		except Exception as ex:  # pylint: disable=broad-except
			failed = Evaluation()
			failed.property_failures.append(f'implementation raised {type(ex).__name__}: {ex}')
			evaluations.append(failed)
	lines = [line for evaluation in evaluations for line, _ in evaluation.requests]
	answers = iter(ctx.driver.ask_many(lines) if ctx.driver else [None] * len(lines))
	for case, evaluation in zip(cases, evaluations):
		model_answers = [next(answers) for _ in evaluation.requests]
		sample = {
			'case': case,
			'requests': [line for line, _ in evaluation.requests][:3],
			'implementation': [answer for _, answer in evaluation.requests][:3],
			'model': model_answers[:3],
		}
		ctx.case(json.dumps(case, sort_keys=True), sample)
		for branch in evaluation.branches:
			ctx.count(branch)
		ctx.count('op:' + case['op'])
		if evaluation.property_failures:
			ctx.fail('property', f'{evaluation.property_failures[0]} [case {json.dumps(case, ensure_ascii=True)[:600]}]', {
				'case': case, 'failures': evaluation.property_failures[:5],
				'requests': [line for line, _ in evaluation.requests][:6],
				'implementation': [answer for _, answer in evaluation.requests][:6], 'model': model_answers[:6]})
			continue
		for (line, impl_answer), model_answer in zip(evaluation.requests, model_answers):
			if model_answer is not None and model_answer != impl_answer:
				ctx.fail('corr', f'model and implementation differ on {line[:300]}: model {model_answer}, implementation {impl_answer}', {
					'case': case, 'request': line, 'implementation': impl_answer, 'model': model_answer})
				break


def run(ctx):
	modules = load_modules()
	vectors = load_vectors()
	cases = generate(ctx, vectors)
	check_cases(ctx, modules, cases)


def replay(ctx, payload):
	print(payload['what'])
	case = payload.get('case', {}).get('case')
	if not isinstance(case, dict) or 'op' not in case:
		print('replay file carries no single case; re-running the generated stream')
		run(ctx)
		return
	modules = load_modules()
	check_cases(ctx, modules, [case])
	for failure in ctx.failures:
		print(f'  reproduced ({failure.kind}): {failure.what}')
	if not ctx.failures:
		print('  the recorded case passes now')


MANIFEST = {
	'level_text': (
		'Every clause of the property is a Lean theorem over the model for all seeds, curve labels, paths, split points, mnemonics, '
		'network names, account ids and node keys, and for any HMAC / seed / hash / base-point functions: derive_path_append and '
		'derive_path_split (composition at every split, also on paths where the code raises), derive_one_def / derive_one_explicit '
		'(HMAC keyed by the chain code over 0x00 ‖ key ‖ big-endian (2^31 + i), with hardened_eq: 0x80000000 | i = 2^31 + i), root_def, '
		'from_mnemonic_def, symbol_path / nem_path (coin types 4343 / 43 / 1), symbol_keypair_secret, nem_keypair_secret '
		'(reverse of reverse: the signing secret is the node key and the public key is the Keccak-512 variant\'s), plus '
		'derive_path_total / nem_keypair_of_derived (no exception under a 64-byte MAC). The model is tied to Bip32.py, BufferWriter.py and '
		'the two facades by a differential run on generated inputs and the repository\'s derivation vectors, and by constants re-read from '
		'the source on every run (source_constants_tied).'),
	'level_note': (
		'Trusted: Lean kernel + {propext, Classical.choice, Quot.sound}; hand-written model tied by differential execution only; HMAC-SHA512, '
		'PBKDF2, SHA-512, Keccak-512 and edwards25519 are parameters (the driver\'s native Lean versions and the sandbox shims under the real '
		'code are unverified and compared with hmac/hashlib and harness oracles each run); the equality "public key = Ed25519 public key of '
		'the secret" is by definition of the parameter scalarBase, not a statement about curve arithmetic; mnemonics are opaque strings '
		'(word lists, checksums and NFKD are outside the model).'),
	'technique': 'Lean 4 theorems over a hand-written model + differential correspondence with the Python implementation',
}

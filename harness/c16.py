"""C16 - hierarchical key derivation composes and matches SLIP-10.

Correspondence: Model/Sdk/Bip32.lean (through the driver: HMAC-SHA512, PBKDF2, SHA-512, Keccak-512 and edwards25519 are the
native Lean implementations) against symbolchain.Bip32 / BufferWriter / facade.{SymbolFacade,NemFacade}; direct evaluation of
the property on the implementation against an independent statement of SLIP-10 / BIP39 / Ed25519 key derivation written here
with hmac, hashlib, struct and small self-contained Keccak-512 and edwards25519 routines.
"""
import ast
import hashlib
import hmac
import json
import os
import struct
import unicodedata

from .common import hx, sx

RULE = (
	'generation from VERIF_SEED: seeds (0/1/16/32/64/100 bytes and the vector seeds) x curve labels (the two shipped, empty, random ASCII, '
	'non-ASCII) x paths of length 0-12 over boundary indices (0, 1, 43, 44, 4343, 2^31-2, 2^31-1, random) x every split point (implementation '
	'and model); nodes with arbitrary key / chain code; a malformed stream (indices in [2^31, 2^32), >= 2^32, negative); mnemonics and '
	'passphrases as opaque strings (vector mnemonics, random ASCII, NFKD-sensitive Unicode for the direct check); facade paths over network '
	'names x boundary account ids; node -> key pair on random keys and on every account of tests/vectors/*/crypto/6.test-hd-derivation.json; '
	'BufferWriter.write_int over both byte orders incl. overflow. A case is distinct by its (operation, arguments); non-trivial = it reached '
	'the implementation and (when the driver runs) the model.')
TRUSTED_BASE = [
	'Lean 4.33 kernel; axioms of the property theorems: subset of {propext, Classical.choice, Quot.sound}',
	'hand-written model SymbolVerif/Model/Sdk/Bip32.lean, tied to the code by this differential run and by the constants re-read from the '
	'source on every run (source_constants_tied)',
	'HMAC-SHA512, the BIP39 seed function, SHA-512 / Keccak-512 and the clamping base-point multiplication are parameters of every theorem; '
	'the driver instantiates them with SymbolVerif/Model/Hash/{Hmac,Sha2,Keccak}.lean and Model/Sdk/Ed25519Exec.lean (unverified; compared '
	'with hmac/hashlib and the harness oracles on every case)',
	'the sandbox stand-ins /verif/shims/{mnemonic,sha3,nacl,cryptography} executed underneath the real Bip32 / KeyPair code',
	'translator in harness/c16.py (ast walk of Bip32.py, CryptoTypes.py and the two facades)',
]
ASSUMPTIONS = [
	'MAC length: theorems that claim "no exception" assume every MAC is 64 bytes (true of HMAC-SHA512)',
	'mnemonics and passphrases are opaque strings; the model side sees ASCII ones only (NFKD is the identity there), others are checked '
	'directly on the implementation against unicodedata + hashlib.pbkdf2_hmac',
	'network names and curve labels restricted to valid Unicode scalar values',
]

HARDENED = 0x80000000
SHIPPED_CURVES = {'symbol': 'ed25519', 'nem': 'ed25519-keccak'}
COIN_TYPES = {'symbol': 4343, 'nem': 43}

# region translator


def _find_class(tree, name):
	for node in tree.body:
		if isinstance(node, ast.ClassDef) and node.name == name:
			return node
	raise ValueError(f'class {name} not found')


def _find_function(owner, name):
	for node in owner.body:
		if isinstance(node, ast.FunctionDef) and node.name == name:
			return node
	raise ValueError(f'function {name} not found')


def _path_template(path, class_name, problems):
	"""Reads `return [44, <coin> if 'mainnet' == self.network.name else <other>, account_id, 0, 0]`."""
	from translate import pyconst
	tree = pyconst.parse(path)
	owner = _find_class(tree, class_name)
	curve = pyconst.class_constants(path, class_name).get('BIP32_CURVE_NAME')
	function = _find_function(owner, 'bip32_path')
	argument = function.args.args[1].arg
	result = {'curve': curve}
	returns = [node for node in ast.walk(function) if isinstance(node, ast.Return)]
	# plain local bindings `name = <expression>` are read through (so naming the coin type first changes nothing)
	local_bindings = {
		node.targets[0].id: node.value for node in ast.walk(function)
		if isinstance(node, ast.Assign) and 1 == len(node.targets) and isinstance(node.targets[0], ast.Name)}
	try:
		if 1 != len(returns) or not isinstance(returns[0].value, ast.List):
			raise ValueError('bip32_path does not return one list literal')
		elements = [
			local_bindings[element.id] if isinstance(element, ast.Name) and element.id in local_bindings else element
			for element in returns[0].value.elts]
		if 5 != len(elements):
			raise ValueError(f'bip32_path returns {len(elements)} elements')
		result['purpose'] = pyconst.const_eval(elements[0])
		choice = elements[1]
		if not isinstance(choice, ast.IfExp) or not isinstance(choice.test, ast.Compare) or 1 != len(choice.test.ops):
			raise ValueError('coin type is not a conditional expression')
		if not isinstance(choice.test.ops[0], ast.Eq):
			raise ValueError('coin type condition is not an equality')
		sides = [choice.test.left, choice.test.comparators[0]]
		names = [side.value for side in sides if isinstance(side, ast.Constant)]
		attributes = [ast.unparse(side) for side in sides if not isinstance(side, ast.Constant)]
		if 1 != len(names) or ['self.network.name'] != attributes:
			raise ValueError('coin type condition is not <name> == self.network.name')
		result['mainnet_name'] = names[0]
		result['mainnet_coin'] = pyconst.const_eval(choice.body)
		result['other_coin'] = pyconst.const_eval(choice.orelse)
		if not isinstance(elements[2], ast.Name) or argument != elements[2].id:
			raise ValueError('third path element is not the account id')
		result['tail'] = [pyconst.const_eval(elements[3]), pyconst.const_eval(elements[4])]
	except ValueError as ex:
		problems.append(f'translator: {class_name}.bip32_path has an unexpected shape: {ex}')
		result.setdefault('purpose', 0)
		result.setdefault('mainnet_name', '')
		result.setdefault('mainnet_coin', 0)
		result.setdefault('other_coin', 0)
		result.setdefault('tail', [])
	return result


def _derive_one_constants(path, problems):
	from translate import pyconst
	tree = pyconst.parse(path)
	function = _find_function(_find_class(tree, 'Bip32Node'), 'derive_one')
	argument = function.args.args[1].arg
	result = {'order': '', 'prefix': [0, 0], 'flag': 0, 'width': 0}
	try:
		calls = [node for node in ast.walk(function) if isinstance(node, ast.Call)]
		writers = [call for call in calls if isinstance(call.func, ast.Name) and 'BufferWriter' == call.func.id]
		if 1 != len(writers):
			raise ValueError('no single BufferWriter(...) call')
		result['order'] = pyconst.const_eval(writers[0].args[0]) if writers[0].args else 'little'
		writes = [call for call in calls if isinstance(call.func, ast.Attribute) and call.func.attr in ('write_int', 'write_bytes')]
		writes.sort(key=lambda call: (call.lineno, call.col_offset))
		if ['write_int', 'write_bytes', 'write_int'] != [call.func.attr for call in writes]:
			raise ValueError('writes are not write_int, write_bytes, write_int')
		result['prefix'] = [pyconst.const_eval(writes[0].args[0]), pyconst.const_eval(writes[0].args[1])]
		index = writes[2].args[0]
		if not isinstance(index, ast.BinOp) or not isinstance(index.op, ast.BitOr):
			raise ValueError('index is not <flag> | identifier')
		sides = [index.left, index.right]
		flags = [pyconst.const_eval(side) for side in sides if isinstance(side, ast.Constant)]
		names = [side.id for side in sides if isinstance(side, ast.Name)]
		if 1 != len(flags) or [argument] != names:
			raise ValueError('index is not <flag> | identifier')
		result['flag'] = flags[0]
		result['width'] = pyconst.const_eval(writes[2].args[1])
	except (ValueError, IndexError) as ex:
		problems.append(f'translator: Bip32Node.derive_one has an unexpected shape: {ex}')
	return result


def _root_suffix(path, problems):
	from translate import pyconst
	tree = pyconst.parse(path)
	function = _find_function(_find_class(tree, 'Bip32'), '__init__')
	for node in ast.walk(function):
		if isinstance(node, ast.Assign) and 'self.root_hmac_key' == ast.unparse(node.targets[0]):
			value = node.value
			if (
				isinstance(value, ast.Call) and isinstance(value.func, ast.Attribute) and 'encode' == value.func.attr
				and isinstance(value.func.value, ast.BinOp) and isinstance(value.func.value.op, ast.Add)
				and isinstance(value.func.value.left, ast.Name) and 'curve_name' == value.func.value.left.id
				and isinstance(value.func.value.right, ast.Constant)):
				return value.func.value.right.value
	problems.append('translator: Bip32.__init__ does not set root_hmac_key = (curve_name + <suffix>).encode(...)')
	return ''


def translate(_ctx):
	"""Generated/C16Consts.lean: constants of the anchored files, re-read from the working tree on every run."""
	from translate import pyconst

	from .common import LEAN, REPO, write_if_changed
	base = os.path.join(REPO, 'sdk/python/symbolchain')
	problems = []
	key_size = pyconst.class_constants(os.path.join(base, 'CryptoTypes.py'), 'PrivateKey').get('SIZE', 0)
	derive = _derive_one_constants(os.path.join(base, 'Bip32.py'), problems)
	suffix = _root_suffix(os.path.join(base, 'Bip32.py'), problems)
	symbol = _path_template(os.path.join(base, 'facade/SymbolFacade.py'), 'SymbolFacade', problems)
	nem = _path_template(os.path.join(base, 'facade/NemFacade.py'), 'NemFacade', problems)
	lines = [
		'/- generated by harness/c16.py from sdk/python/symbolchain/{Bip32,CryptoTypes}.py and facade/{SymbolFacade,NemFacade}.py; do not edit -/',
		'namespace SymbolVerif.Generated.C16',
		f'def privateKeySize : Nat := {key_size}',
		f'def writerByteOrder : String := {pyconst.lean_string(derive["order"])}',
		f'def prefixValue : Nat := {derive["prefix"][0]}',
		f'def prefixWidth : Nat := {derive["prefix"][1]}',
		f'def hardenedFlag : Nat := {derive["flag"]}',
		f'def indexWidth : Nat := {derive["width"]}',
		f'def rootKeySuffix : String := {pyconst.lean_string(suffix)}',
	]
	for tag, template in (('symbol', symbol), ('nem', nem)):
		lines += [
			f'def {tag}CurveName : String := {pyconst.lean_string(template["curve"] or "")}',
			f'def {tag}PathPurpose : Nat := {template["purpose"]}',
			f'def {tag}MainnetName : String := {pyconst.lean_string(template["mainnet_name"])}',
			f'def {tag}MainnetCoinType : Nat := {template["mainnet_coin"]}',
			f'def {tag}OtherCoinType : Nat := {template["other_coin"]}',
			f'def {tag}PathTail : List Nat := {pyconst.lean_nat_list(template["tail"])}',
		]
	lines.append('end SymbolVerif.Generated.C16')
	write_if_changed(os.path.join(LEAN, 'SymbolVerif', 'Generated', 'C16Consts.lean'), '\n'.join(lines) + '\n')
	return problems

# endregion

# region independent oracle


def spec_node(key, data):
	mac = hmac.new(key, data, hashlib.sha512).digest()
	return mac[:32], mac[32:]


def spec_root(curve, seed):
	return spec_node((curve + ' seed').encode('utf8'), seed)


def spec_child(node, index):
	"""SLIP-10 hardened child for index in [0, 2^31)."""
	return spec_node(node[1], b'\x00' + node[0] + struct.pack('>I', (1 << 31) + index))


def spec_path(node, path):
	for index in path:
		node = spec_child(node, index)
	return node


def spec_bip39_seed(mnemonic, passphrase):
	normalize = lambda text: unicodedata.normalize('NFKD', text).encode('utf8')  # noqa: E731 pylint: disable=unnecessary-lambda-assignment
	return hashlib.pbkdf2_hmac('sha512', normalize(mnemonic), b'mnemonic' + normalize(passphrase), 2048, 64)


_KECCAK_RC = [
	0x0000000000000001, 0x0000000000008082, 0x800000000000808A, 0x8000000080008000, 0x000000000000808B, 0x0000000080000001,
	0x8000000080008081, 0x8000000000008009, 0x000000000000008A, 0x0000000000000088, 0x0000000080008009, 0x000000008000000A,
	0x000000008000808B, 0x800000000000008B, 0x8000000000008089, 0x8000000000008003, 0x8000000000008002, 0x8000000000000080,
	0x000000000000800A, 0x800000008000000A, 0x8000000080008081, 0x8000000000008080, 0x0000000080000001, 0x8000000080008008]
_KECCAK_ROT = [[0, 36, 3, 41, 18], [1, 44, 10, 45, 2], [62, 6, 43, 15, 61], [28, 55, 25, 21, 56], [27, 20, 39, 8, 14]]
_MASK64 = (1 << 64) - 1


def _keccak_f(lanes):
	rotate = lambda value, count: ((value << count) | (value >> (64 - count))) & _MASK64 if count else value  # noqa: E731 pylint: disable=unnecessary-lambda-assignment
	for constant in _KECCAK_RC:
		parity = [lanes[x][0] ^ lanes[x][1] ^ lanes[x][2] ^ lanes[x][3] ^ lanes[x][4] for x in range(5)]
		for x in range(5):
			flip = parity[(x - 1) % 5] ^ rotate(parity[(x + 1) % 5], 1)
			for y in range(5):
				lanes[x][y] ^= flip
		moved = [[0] * 5 for _ in range(5)]
		for x in range(5):
			for y in range(5):
				moved[y][(2 * x + 3 * y) % 5] = rotate(lanes[x][y], _KECCAK_ROT[x][y])
		for x in range(5):
			for y in range(5):
				lanes[x][y] = moved[x][y] ^ (~moved[(x + 1) % 5][y] & moved[(x + 2) % 5][y] & _MASK64)
		lanes[0][0] ^= constant
	return lanes


def spec_keccak(data, rate, length):
	"""Original Keccak (padding 0x01) with the given rate in bytes; `length`-byte digest (length <= rate)."""
	padded = bytearray(data) + b'\x01' + bytes(-(len(data) + 1) % rate)
	padded[-1] |= 0x80
	lanes = [[0] * 5 for _ in range(5)]
	for offset in range(0, len(padded), rate):
		block = padded[offset:offset + rate]
		for index in range(rate // 8):
			lanes[index % 5][index // 5] ^= int.from_bytes(block[8 * index:8 * index + 8], 'little')
		lanes = _keccak_f(lanes)
	out = b''.join(lanes[index % 5][index // 5].to_bytes(8, 'little') for index in range(rate // 8))
	return out[:length]


def spec_keccak_512(data):
	return spec_keccak(data, 72, 64)


_P = 2 ** 255 - 19
_D = -121665 * pow(121666, -1, _P) % _P
_BASE_Y = 4 * pow(5, -1, _P) % _P
_BASE_X = 15112221349535400772501151409588531511454012693041857206046113283949847762202


def _affine_add(left, right):
	"""Affine twisted Edwards addition (a = -1), deliberately different from the extended-coordinate code under test."""
	x1, y1 = left
	x2, y2 = right
	product = _D * x1 * x2 * y1 * y2 % _P
	inverse = pow((1 + product) * (1 - product), -1, _P)  # one inversion for both denominators
	x3 = (x1 * y2 + x2 * y1) * (1 - product) * inverse % _P
	y3 = (y1 * y2 + x1 * x2) * (1 + product) * inverse % _P
	return x3, y3


def spec_public_key(digest_function, secret):
	"""RFC 8032 5.1.5 with a pluggable 512-bit hash: clamp the first 32 digest bytes, multiply the base point, encode."""
	digest = digest_function(secret)
	scalar = int.from_bytes(digest[:32], 'little')
	scalar &= (1 << 254) - 8
	scalar |= 1 << 254
	result = (0, 1)
	addend = (_BASE_X, _BASE_Y)
	while scalar:
		if scalar & 1:
			result = _affine_add(result, addend)
		addend = _affine_add(addend, addend)
		scalar >>= 1
	return (result[1] | ((result[0] & 1) << 255)).to_bytes(32, 'little')


def spec_sha512(data):
	return hashlib.sha512(data).digest()

# endregion

# region case evaluation


def path_text(path):
	return ','.join(str(index) for index in path) if path else '-'


def node_text(node):
	return f'ok {hx(node[0])} {hx(node[1])}'


def attempt(function):
	try:
		return ('ok', function())
	except (OverflowError, ValueError, TypeError, IndexError) as ex:
		return ('none', type(ex).__name__)


class Evaluation:
	"""Outcome of one case on the implementation: driver requests with the implementation's answers, direct-property failures."""

	def __init__(self):
		self.requests = []  # (driver line, implementation answer)
		self.property_failures = []
		self.branches = []

	def request(self, line, answer):
		self.requests.append((line, answer))

	def require(self, condition, what):
		if not condition:
			self.property_failures.append(what)


def make_node(modules, key, chain):
	node = modules['Bip32Node'].__new__(modules['Bip32Node'])
	node.private_key = modules['PrivateKey'](key)
	node.chain_code = chain
	return node


def impl_node(result):
	if 'ok' != result[0]:
		return 'none'
	return node_text((result[1].private_key.bytes, result[1].chain_code))


def in_property_range(path):
	return all(0 <= index < (1 << 31) for index in path)


def evaluate(modules, case):
	# pylint: disable=too-many-locals,too-many-branches,too-many-statements
	out = Evaluation()
	operation = case['op']
	if 'derive' == operation or 'node_derive' == operation:
		path = case['path']
		if 'derive' == operation:
			curve, seed = case['curve'], bytes.fromhex(case['seed'])
			start = lambda: modules['Bip32'](curve).from_seed(seed)  # noqa: E731 pylint: disable=unnecessary-lambda-assignment
			expected_start = spec_root(curve, seed)
			prefix = f'{sx(curve)} {hx(seed)}'
			names = ('derive_path', 'derive_split')
			root_answer = impl_node(attempt(start))
			out.request(f'from_seed {prefix}', root_answer)
			out.require(root_answer == node_text(expected_start), f'root node != HMAC-SHA512("{curve} seed", seed) split at 32')
		else:
			key, chain = bytes.fromhex(case['key']), bytes.fromhex(case['chain'])
			start = lambda: make_node(modules, key, chain)  # noqa: E731 pylint: disable=unnecessary-lambda-assignment
			expected_start = (key, chain)
			prefix = f'{hx(key)} {hx(chain)}'
			names = ('node_derive', None)
		whole = impl_node(attempt(lambda: start().derive_path(path)))
		out.request(f'{names[0]} {prefix} {path_text(path)}', whole)
		if in_property_range(path):
			out.branches.append(f'path-length-{len(path)}')
			expected = node_text(spec_path(expected_start, path))
			out.require(whole == expected, f'derive_path({path}) != chain of SLIP-10 hardened children: implementation {whole}, expected {expected}')
			stepwise = start()
			for index in path:
				stepwise = stepwise.derive_one(index)
			out.require(impl_node(('ok', stepwise)) == whole, f'derive_path({path}) != derive_one step by step')
		else:
			out.branches.append('path-out-of-range:' + ('rejected' if 'none' == whole else 'accepted'))
		for split in range(len(path) + 1):
			two_step = impl_node(attempt(lambda split=split: start().derive_path(path[:split]).derive_path(path[split:])))
			if in_property_range(path):
				out.require(two_step == whole, f'derive_path({path}) != derive_path({path[:split]}) then derive_path({path[split:]})')
			if names[1]:
				out.request(f'{names[1]} {prefix} {path_text(path[:split])} {path_text(path[split:])}', two_step)
	elif 'mnemonic' == operation:
		curve, mnemonic, passphrase = case['curve'], case['mnemonic'], case['passphrase']
		factory = modules['Bip32'](curve)
		seed = modules['Mnemonic']('english').to_seed(mnemonic, passphrase)
		from_mnemonic = impl_node(attempt(lambda: factory.from_mnemonic(mnemonic, passphrase)))
		from_seed = impl_node(attempt(lambda: factory.from_seed(seed)))
		expected_seed = spec_bip39_seed(mnemonic, passphrase)
		out.require(from_mnemonic == from_seed, 'root from mnemonic != root from its BIP39 seed')
		out.require(from_mnemonic == node_text(spec_root(curve, expected_seed)), 'root from mnemonic != root of PBKDF2-HMAC-SHA512(NFKD mnemonic, "mnemonic" + NFKD passphrase, 2048, 64)')
		if case.get('expected_seed'):
			out.require(hx(bytes(seed)) == case['expected_seed'], 'BIP39 seed != vector seed')
		if mnemonic.isascii() and passphrase.isascii():
			out.request(f'from_mnemonic {sx(curve)} {sx(mnemonic)} {sx(passphrase)}', from_mnemonic)
			out.branches.append('mnemonic:ascii')
		else:
			out.branches.append('mnemonic:unicode(direct only)')
	elif 'path' == operation:
		facade_name, network_name, account = case['facade'], case['network'], case['account']
		facade_class = modules['facades'][facade_name]
		network = type('NetworkStub', (), {'name': network_name, 'identifier': 0x68})()
		facade = facade_class.__new__(facade_class)
		facade.network = network
		if network_name in ('mainnet', 'testnet') and case.get('real_network', True):
			facade = facade_class(network_name)
		result = facade.bip32_path(account)
		coin = COIN_TYPES[facade_name] if 'mainnet' == network_name else 1
		out.require(list(result) == [44, coin, account, 0, 0], f'{facade_name} bip32_path({account}) on "{network_name}" = {list(result)}, expected [44, {coin}, {account}, 0, 0]')
		out.require(facade_class.BIP32_CURVE_NAME == SHIPPED_CURVES[facade_name], f'{facade_name} BIP32_CURVE_NAME = {facade_class.BIP32_CURVE_NAME}')
		out.request(f'{facade_name}_path {sx(network_name)} {account}', path_text(list(result)))
		out.branches.append(f'path:{facade_name}:' + ('mainnet' if 'mainnet' == network_name else 'other'))
	elif 'keypair' == operation:
		facade_name, key = case['facade'], bytes.fromhex(case['key'])
		facade_class = modules['facades'][facade_name]
		digest_function = spec_sha512 if 'symbol' == facade_name else spec_keccak_512
		raw = case.get('raw', False)
		node = make_node(modules, key, b'')
		key_pair = facade_class.KeyPair(node.private_key) if raw else facade_class.bip32_node_to_key_pair(node)
		public = key_pair.public_key.bytes
		shown = key_pair.private_key.bytes
		secret = key[::-1] if (raw and 'nem' == facade_name) else key
		expected_public = spec_public_key(digest_function, secret)
		kind = 'KeyPair(node.private_key)' if raw else 'bip32_node_to_key_pair(node)'
		out.require(public == expected_public, f'{facade_name} {kind}.public_key is not the Ed25519 public key of the {"reversed " if secret != key else ""}node key bytes')
		expected_shown = key[::-1] if ('nem' == facade_name and not raw) else key
		out.require(shown == expected_shown, f'{facade_name} {kind}.private_key shows {hx(shown)}, expected {hx(expected_shown)}')
		if 'nem' == facade_name:
			out.require(getattr(key_pair, '_sk', None) == secret, f'nem {kind} signing secret (_sk) is not the expected bytes')
		if case.get('expected_public'):
			out.require(hx(public) == case['expected_public'], f'{facade_name} {kind}.public_key != vector public key')
		impl_answer = f'{hx(secret)} {hx(public)} {hx(shown)}'
		if raw:
			line = f'nem_keypair_raw {hx(key)}' if 'nem' == facade_name else f'symbol_keypair {hx(key)}'
			out.request(line, impl_answer)
		else:
			out.request(f'{facade_name}_keypair {hx(key)}', impl_answer if 'symbol' == facade_name else 'ok ' + impl_answer)
		out.branches.append(f'keypair:{facade_name}:' + ('raw' if raw else 'facade'))
	elif 'account' == operation:
		facade_name, seed, path = case['facade'], bytes.fromhex(case['seed']), case['path']
		facade_class = modules['facades'][facade_name]
		raw = case.get('raw', False)
		digest_function = spec_sha512 if 'symbol' == facade_name else spec_keccak_512
		node = modules['Bip32'](facade_class.BIP32_CURVE_NAME).from_seed(seed).derive_path(path)
		key_pair = facade_class.KeyPair(node.private_key) if raw else facade_class.bip32_node_to_key_pair(node)
		expected_key = spec_path(spec_root(SHIPPED_CURVES[facade_name], seed), path)[0]
		secret = expected_key[::-1] if (raw and 'nem' == facade_name) else expected_key
		public = key_pair.public_key.bytes
		out.require(public == spec_public_key(digest_function, secret), f'{facade_name} account public key at path {path} is not the Ed25519 public key of the derived key bytes')
		if case.get('expected_public'):
			out.require(hx(public) == case['expected_public'], f'{facade_name} account public key at path {path} != vector public key {case["expected_public"]}')
		shown = key_pair.private_key.bytes
		operation_name = 'account_raw' if raw else 'account'
		out.request(f'{operation_name} {facade_name} {hx(seed)} {path_text(path)}', f'ok {hx(secret)} {hx(public)} {hx(shown)}')
		out.branches.append(f'account:{facade_name}:' + ('raw' if raw else 'facade'))
	elif 'write_int' == operation:
		order, buffer, value, count = case['order'], bytes.fromhex(case['buffer']), case['value'], case['count']
		writer = modules['BufferWriter'](order)
		writer.write_bytes(buffer)
		result = attempt(lambda: writer.write_int(value, count))
		fits = value < (1 << (8 * count))
		digits = [(value >> (8 * position)) & 0xFF for position in range(count)]
		expected = buffer + bytes(digits[::-1] if 'big' == order else digits)
		if fits:
			out.require('ok' == result[0] and writer.buffer == expected, f'BufferWriter({order}).write_int({value}, {count}) wrote {hx(writer.buffer)}')
		else:
			out.require('none' == result[0], f'BufferWriter({order}).write_int({value}, {count}) did not raise')
		out.request(f'write_int {order} {hx(buffer)} {value} {count}', f'ok {hx(writer.buffer)}' if 'ok' == result[0] else 'none')
		out.branches.append(f'write_int:{order}:' + ('fits' if fits else 'overflow'))
	else:
		raise ValueError(f'unknown operation {operation}')
	return out

# endregion

# region generation


def boundary_index(rng):
	pick = rng.random()
	if pick < 0.45:
		return rng.choice([0, 1, 2, 43, 44, 4343, 255, 256, 65535, 65536, (1 << 24) - 1, 1 << 24, (1 << 31) - 2, (1 << 31) - 1])
	if pick < 0.6:
		return (1 << rng.randrange(0, 31)) + rng.choice([-1, 0]) if rng.random() < 0.9 else 0
	return rng.randrange(1 << 31)


def bad_index(rng):
	return rng.choice([
		1 << 31, (1 << 31) + 1, (1 << 31) + 4343, (1 << 32) - 1, rng.randrange(1 << 31, 1 << 32),
		1 << 32, (1 << 32) + 1, 1 << 40, rng.randrange(1 << 32, 1 << 48),
		-1, -2, -(1 << 31), -(1 << 31) - 1, -rng.randrange(1, 1 << 33)])


def gen_curve(rng):
	pick = rng.random()
	if pick < 0.35:
		return 'ed25519'
	if pick < 0.7:
		return 'ed25519-keccak'
	if pick < 0.75:
		return ''
	if pick < 0.9:
		return ''.join(rng.choice('abcdefghijklmnopqrstuvwxyzABCXYZ0123456789-_ .') for _ in range(rng.choice([1, 3, 7, 13, 40])))
	return rng.choice(['é', 'ed25519 ', ' seed', 'Bitcoin', 'Nist256p1', 'кривая', '曲線25519', 'ed25519\t'])


def gen_seed(rng, vector_seeds):
	pick = rng.random()
	if pick < 0.25 and vector_seeds:
		return bytes.fromhex(rng.choice(vector_seeds))
	return rng.bytes_(rng.choice([0, 1, 16, 31, 32, 32, 33, 64, 64, 100]))


def gen_text(rng, ascii_only):
	alphabet = 'abcdefghijklmnopqrstuvwxyz     ABCXYZ0123456789!#$%&-_'
	text = ''.join(rng.choice(alphabet) for _ in range(rng.choice([0, 1, 5, 12, 40, 90])))
	if not ascii_only:
		text += rng.choice(['é', 'ﬁ', 'Å', 'ａｂｃ', 'ñ', '㍍', 'ǆ', 'パスワード'])
	return text


def load_vectors():
	from .common import REPO
	vectors = {}
	for tag in ('symbol', 'nem'):
		path = os.path.join(REPO, 'tests/vectors', tag, 'crypto/6.test-hd-derivation.json')
		with open(path, 'rt', encoding='utf8') as infile:
			document = json.load(infile)
		entries = []
		for group in document.values():
			entries.extend(group)
		vectors[tag] = entries
	return vectors


def generate(ctx, vectors):
	# pylint: disable=too-many-locals,too-many-branches,too-many-statements
	rng = ctx.rng
	cases = []
	vector_seeds = [entry['seed'] for entries in vectors.values() for entry in entries]

	# every length 0..12 is hit at least once per run, then random lengths
	derive_count = ctx.scale(400, 4000)
	for number in range(derive_count):
		length = number if number <= 12 else rng.choice([0, 1, 2, 3, 4, 5, 5, 6, 8, 12])
		path = [boundary_index(rng) for _ in range(length)]
		cases.append({'op': 'derive', 'curve': gen_curve(rng), 'seed': gen_seed(rng, vector_seeds).hex().upper(), 'path': path})
	for _ in range(ctx.scale(150, 1500)):
		length = rng.choice([1, 1, 2, 3, 5, 8, 12])
		path = [boundary_index(rng) for _ in range(length)]
		path[rng.randrange(length)] = bad_index(rng)
		cases.append({'op': 'derive', 'curve': gen_curve(rng), 'seed': gen_seed(rng, vector_seeds).hex().upper(), 'path': path})
	for _ in range(ctx.scale(100, 1000)):
		length = rng.choice([0, 1, 2, 5, 12])
		chain = rng.bytes_(rng.choice([0, 1, 31, 32, 32, 32, 33, 64, 128, 129, 200]))
		cases.append({
			'op': 'node_derive', 'key': rng.bytes_(32).hex().upper(), 'chain': chain.hex().upper(),
			'path': [boundary_index(rng) for _ in range(length)]})

	# mnemonics: vector ones (with expected seeds), then opaque strings
	mnemonic_entries = [entry for tag in ('symbol', 'nem') for entry in vectors[tag] if 'mnemonic' in entry]
	for entry in (mnemonic_entries if ctx.thorough else rng.sample(mnemonic_entries, min(16, len(mnemonic_entries)))):
		for curve in ('ed25519', 'ed25519-keccak'):
			cases.append({
				'op': 'mnemonic', 'curve': curve, 'mnemonic': entry['mnemonic'], 'passphrase': entry['passphrase'], 'expected_seed': entry['seed']})
	for _ in range(ctx.scale(60, 400)):
		ascii_only = rng.random() < 0.7
		cases.append({
			'op': 'mnemonic', 'curve': gen_curve(rng), 'mnemonic': gen_text(rng, ascii_only),
			'passphrase': gen_text(rng, ascii_only or rng.random() < 0.5)})

	# facade paths
	names = ['mainnet', 'testnet', 'mainnet', 'testnet', 'Mainnet', 'MAINNET', 'mainnet ', '', 'private', 'mijin', 'main', 'mainnet2', 'tëstnet']
	for facade_name in ('symbol', 'nem'):
		for name in names:
			for _ in range(ctx.scale(3, 40)):
				account = rng.choice([0, 1, 2, 43, 4343, (1 << 31) - 1, 1 << 31, rng.randrange(1 << 31), rng.randrange(1 << 40)])
				cases.append({'op': 'path', 'facade': facade_name, 'network': name, 'account': account, 'real_network': rng.random() < 0.5})

	# key pairs on random node keys
	for facade_name in ('symbol', 'nem'):
		for _ in range(ctx.scale(80, 600)):
			key = rng.choice([rng.bytes_(32), rng.bytes_(32), bytes(32), bytes([0xFF] * 32), bytes(range(32)), bytes([1] + [0] * 31)])
			cases.append({'op': 'keypair', 'facade': facade_name, 'key': key.hex().upper(), 'raw': rng.random() < 0.25})

	# vector accounts: root public key (KeyPair(root.private_key), no facade) and every child account (through the facade)
	for facade_name in ('symbol', 'nem'):
		entries = vectors[facade_name]
		chosen = entries if ctx.thorough else rng.sample(entries, min(30, len(entries)))
		for entry in chosen:
			cases.append({
				'op': 'account', 'facade': facade_name, 'seed': entry['seed'], 'path': [], 'raw': True, 'expected_public': entry['rootPublicKey']})
			for child in entry['childAccounts']:
				cases.append({
					'op': 'account', 'facade': facade_name, 'seed': entry['seed'], 'path': child['path'], 'raw': False,
					'expected_public': child['publicKey']})
		for _ in range(ctx.scale(50, 400)):
			network_name = rng.choice(['mainnet', 'testnet'])
			account = rng.choice([0, 1, 2, (1 << 31) - 1, rng.randrange(1 << 31)])
			coin = COIN_TYPES[facade_name] if 'mainnet' == network_name else 1
			cases.append({
				'op': 'account', 'facade': facade_name, 'seed': gen_seed(rng, vector_seeds).hex().upper(), 'path': [44, coin, account, 0, 0],
				'raw': False})

	# BufferWriter
	for _ in range(ctx.scale(200, 2000)):
		count = rng.choice([0, 1, 1, 2, 4, 4, 8, 16])
		pick = rng.random()
		if pick < 0.6:
			value = rng.randrange(1 << (8 * count)) if count else 0
		elif pick < 0.8:
			value = rng.choice([0, 1, (1 << (8 * count)) - 1 if count else 0, 1 << (8 * count), (1 << (8 * count)) + 1])
		else:
			value = HARDENED | boundary_index(rng)
		cases.append({
			'op': 'write_int', 'order': rng.choice(['big', 'big', 'little']), 'buffer': rng.bytes_(rng.choice([0, 0, 1, 33])).hex().upper(),
			'value': value, 'count': count})
	return cases

# endregion


def load_modules():
	from mnemonic import Mnemonic
	from symbolchain.Bip32 import Bip32, Bip32Node
	from symbolchain.BufferWriter import BufferWriter
	from symbolchain.CryptoTypes import PrivateKey
	from symbolchain.facade.NemFacade import NemFacade
	from symbolchain.facade.SymbolFacade import SymbolFacade
	return {
		'Bip32': Bip32, 'Bip32Node': Bip32Node, 'BufferWriter': BufferWriter, 'PrivateKey': PrivateKey, 'Mnemonic': Mnemonic,
		'facades': {'symbol': SymbolFacade, 'nem': NemFacade},
	}


def check_cases(ctx, modules, cases):
	evaluations = []
	for case in cases:
		try:
			evaluations.append(evaluate(modules, case))
		except Exception as ex:  # pylint: disable=broad-except
			failed = Evaluation()
			failed.property_failures.append(f'implementation raised {type(ex).__name__}: {ex}')
			evaluations.append(failed)
	lines = [line for evaluation in evaluations for line, _ in evaluation.requests]
	answers = iter(ctx.driver.ask_many(lines) if ctx.driver else [None] * len(lines))
	for case, evaluation in zip(cases, evaluations):
		model_answers = [next(answers) for _ in evaluation.requests]
		sample = {
			'case': case,
			'requests': [line for line, _ in evaluation.requests][:3],
			'implementation': [answer for _, answer in evaluation.requests][:3],
			'model': model_answers[:3],
		}
		ctx.case(json.dumps(case, sort_keys=True), sample)
		for branch in evaluation.branches:
			ctx.count(branch)
		ctx.count('op:' + case['op'])
		if evaluation.property_failures:
			ctx.fail('property', f'{evaluation.property_failures[0]} [case {json.dumps(case, ensure_ascii=True)[:600]}]', {
				'case': case, 'failures': evaluation.property_failures[:5],
				'requests': [line for line, _ in evaluation.requests][:6],
				'implementation': [answer for _, answer in evaluation.requests][:6], 'model': model_answers[:6]})
			continue
		for (line, impl_answer), model_answer in zip(evaluation.requests, model_answers):
			if model_answer is not None and model_answer != impl_answer:
				ctx.fail('corr', f'model and implementation differ on {line[:300]}: model {model_answer}, implementation {impl_answer}', {
					'case': case, 'request': line, 'implementation': impl_answer, 'model': model_answer})
				break


def run(ctx):
	modules = load_modules()
	vectors = load_vectors()
	cases = generate(ctx, vectors)
	check_cases(ctx, modules, cases)


def replay(ctx, payload):
	print(payload['what'])
	case = payload.get('case', {}).get('case')
	if not isinstance(case, dict) or 'op' not in case:
		print('replay file carries no single case; re-running the generated stream')
		run(ctx)
		return
	modules = load_modules()
	check_cases(ctx, modules, [case])
	for failure in ctx.failures:
		print(f'  reproduced ({failure.kind}): {failure.what}')
	if not ctx.failures:
		print('  the recorded case passes now')


MANIFEST = {
	'level_text': (
		'Every clause of the property is a Lean theorem over the model for all seeds, curve labels, paths, split points, mnemonics, '
		'network names, account ids and node keys, and for any HMAC / seed / hash / base-point functions: derive_path_append and '
		'derive_path_split (composition at every split, also on paths where the code raises), derive_one_def / derive_one_explicit '
		'(HMAC keyed by the chain code over 0x00 ‖ key ‖ big-endian (2^31 + i), with hardened_eq: 0x80000000 | i = 2^31 + i), root_def, '
		'from_mnemonic_def, symbol_path / nem_path (coin types 4343 / 43 / 1), symbol_keypair_secret, nem_keypair_secret '
		'(reverse of reverse: the signing secret is the node key and the public key is the Keccak-512 variant\'s), plus '
		'derive_path_total / nem_keypair_of_derived (no exception under a 64-byte MAC). The model is tied to Bip32.py, BufferWriter.py and '
		'the two facades by a differential run on generated inputs and the repository\'s derivation vectors, and by constants re-read from '
		'the source on every run (source_constants_tied).'),
	'level_note': (
		'Trusted: Lean kernel + {propext, Classical.choice, Quot.sound}; hand-written model tied by differential execution only; HMAC-SHA512, '
		'PBKDF2, SHA-512, Keccak-512 and edwards25519 are parameters (the driver\'s native Lean versions and the sandbox shims under the real '
		'code are unverified and compared with hmac/hashlib and harness oracles each run); the equality "public key = Ed25519 public key of '
		'the secret" is by definition of the parameter scalarBase, not a statement about curve arithmetic; mnemonics are opaque strings '
		'(word lists, checksums and NFKD are outside the model).'),
	'technique': 'Lean 4 theorems over a hand-written model + differential correspondence with the Python implementation',
}

"""Runs the real generator on a CATS schema and imports the emitted module under a scratch package (C15, C12)."""
import importlib
import os
import shutil
import subprocess
import sys

from .common import REPO, ROOT

SUPPORT_FILES = ['ArrayHelpers.py', 'BaseValue.py', 'ByteArray.py', 'Ordered.py', 'Transforms.py']


def run_cli(schema_path, include, output, generator=True, cwd=None, extra_args=()):
	env = dict(os.environ)
	env.update({
		'PYTHONDONTWRITEBYTECODE': '1',
		'PYTHONPATH': os.pathsep.join([os.path.join(REPO, 'catbuffer', 'parser'), os.path.join(REPO, 'sdk', 'python'), os.path.join(ROOT, 'shims')]),
	})
	command = ['/venv/bin/python', '-m', 'catparser', '--schema', schema_path, '--include', include, '--quiet']
	if output:
		command += ['--output', output]
	if generator:
		command += ['--generator', 'generator.Generator']
	command += list(extra_args)
	return subprocess.run(command, cwd=cwd or os.path.join(REPO, 'sdk', 'python'), env=env, capture_output=True, text=True, timeout=300, check=False)


class ScratchPackage:
	"""<tmp>/<package>/ with the SDK support modules copied from /repo's working tree next to generated sub-packages."""

	def __init__(self, tmpdir, name):
		self.name = name
		self.path = os.path.join(tmpdir, name)
		os.makedirs(self.path, exist_ok=True)
		with open(os.path.join(self.path, '__init__.py'), 'wt', encoding='utf8') as outfile:
			outfile.write('')
		for filename in SUPPORT_FILES:
			shutil.copy(os.path.join(REPO, 'sdk', 'python', 'symbolchain', filename), os.path.join(self.path, filename))
		if tmpdir not in sys.path:
			sys.path.insert(0, tmpdir)

	def generate(self, sub_name, schema_path, include):
		output = os.path.join(self.path, sub_name)
		proc = run_cli(schema_path, include, output)
		if 0 != proc.returncode:
			return None, proc
		importlib.invalidate_caches()
		module = importlib.import_module(f'{self.name}.{sub_name}')
		return module, proc

	def text(self, sub_name):
		with open(os.path.join(self.path, sub_name, '__init__.py'), 'rt', encoding='utf8') as infile:
			return infile.read()

"""C07 - signatures verify exactly for the signed payload and are reference-exact.

Correspondence: Model/Sdk/{Framing,Ed25519}.lean through driver_c07 (curve arithmetic = Lean translation of
external/ed25519.py, hashes = native Lean SHA-512/Keccak-512) against the real facades, key pairs, verifiers and the voting
key generator. Direct evaluation: every produced signature is compared with an RFC 8032 reference signer written here
(own edwards25519 arithmetic, hashlib SHA-512 / the sha3 stand-in's Keccak-512), payloads with slices taken at offsets
computed from the CATS schemas, and perturbed inputs must be refused.
"""
import ast
import hashlib
import json
import os

from .common import hx

RULE = (
	'from VERIF_SEED: key pairs (random + boundary secrets) x transactions built through the real transaction factories '
	'(Symbol: 12 plain types, aggregates complete/bonded v1/v2 with 0-3 embedded transactions and 0-2 cosignatures, on mainnet, '
	'testnet and networks with random generation-hash seeds; NEM: transfers v1/v2, key link, multisig modification, namespace, mosaic '
	'definition/supply, cosignature, multisig with 0-2 cosignatures) x sampled single-bit flips of serialized transaction, '
	'signature halves and public key, S+L, S=0, the zero key; raw messages of boundary lengths; voting key trees; key vectors; object '
	're-use histories (one KeyPair signing a sequence incl. repeats and the empty message, key pairs created in another order and '
	'used alternately, one facade/key pair/account signing and cosigning several transactions incl. the NEM multisig path, one '
	'Verifier judging good and bad signatures in turn; one transaction object edited in place between uses; 1-4 cosigners and one '
	'account over several hashes with ALL cosignatures kept and checked only after the last call), every step against the reference; '
	'facades built from Network objects colliding with a shipped network in name and/or identifier but carrying a random seed (plus '
	'the equal and by-name controls), expectations from the seed passed in. '
	'A case is distinct by its (operation, hex arguments) tuple; each is evaluated on the implementation, the oracle and the model.')
TRUSTED_BASE = [
	'Lean 4.33 kernel; axioms of the property theorems: subset of {propext, Classical.choice, Quot.sound}',
	'hand-written models Model/Sdk/Framing.lean and Model/Sdk/Ed25519.lean, tied to the code by this differential run and by '
	'Generated/C07Consts.lean (constants evaluated from SymbolFacade.py/CryptoTypes.py/sc/nc and offsets computed from the CATS '
	'schemas on every run; theorem source_constants_tied)',
	'curve arithmetic is a parameter of every theorem (hypotheses: abelian group laws, L*B = 0, 32-byte encodings; for uniqueness and '
	'the forgery reduction also B of order exactly L and injective point encoding): never proved for edwards25519',
	'SHA-512 / Keccak-512 are parameters; the driver instantiates them with Model/Hash/{Sha2,Keccak}.lean (unverified, compared '
	'with hashlib / the sha3 stand-in on every signature)',
	'/verif/shims stand-ins for cryptography, nacl, sha3, ripemd (the real packages are absent): the Symbol signer/verifier and the '
	'libsodium calls of the NEM signer/verifier are the stand-ins\' arithmetic',
	'translators harness/c07.py (facade constants read off the behaviour of extract_signing_payload on crafted buffers; enum values and curve constants by ast evaluation) and translate/catsoffsets.py (independent CATS reader)',
]
ASSUMPTIONS = [
	'unforgeability is not proved: "a changed bit fails" is proved for the S half (S_unique) and reduced to a relation on the challenge '
	'hash for message, key and R (forgery_yields_collision, R_is_hash_fixed_point); on the implementation it is tested on sampled bits',
	'NEM transactions are modelled at byte level (serialization minus the signature field; multisig minus cosignatures); the attribute '
	'copying of to_non_verifiable_transaction is tied to that by differential execution over the generated transaction types only',
	'signatures are 64 bytes and keys 32 bytes (enforced by the Signature/PublicKey/PrivateKey classes, not re-modelled)',
	'libsodium error conventions (zero scalar => RuntimeError) are the stand-in\'s reading of libsodium 1.0.18',
]

SCHEMAS = 'catbuffer/schemas'


def _facade_constants(_repo):
	"""The framing constants of SymbolFacade, obtained from its *behaviour* (so that no particular spelling of the source is
	assumed): `extract_signing_payload` is given objects whose `serialize()` returns crafted buffers. The header size is what
	is cut from the front of a buffer of an unknown type; a 16-bit value counts as an aggregate type when, written at some
	offset behind the header, it makes the payload stop early; that offset and the length kept are the other two constants."""
	from .common import setup_paths
	setup_paths()
	from symbolchain import sc
	from symbolchain.facade.SymbolFacade import SymbolFacade

	facade = SymbolFacade('testnet')
	seed_size = len(facade.network.generation_hash_seed.bytes)

	class Crafted:  # pylint: disable=too-few-public-methods
		def __init__(self, buffer):
			self.buffer = buffer

		def serialize(self):
			return self.buffer

	def kept(buffer):
		return len(facade.extract_signing_payload(Crafted(bytes(buffer)))) - seed_size

	total = 600
	header = total - kept(bytearray(total))
	result = {'TRANSACTION_HEADER_SIZE': header, 'aggregate_type_names': []}
	windows = {}
	for member in sc.TransactionType:
		for delta in range(0, 24):
			buffer = bytearray(total)
			buffer[header + delta:header + delta + 2] = member.value.to_bytes(2, 'little')
			size = kept(buffer)
			if size != total - header:
				windows.setdefault(delta, {})[member.name] = size
	if 1 != len(windows):
		raise ValueError(f'aggregate detection is not tied to one type offset: {sorted(windows)}')
	delta, members = next(iter(windows.items()))
	if 1 != len(set(members.values())):
		raise ValueError(f'aggregate types keep different windows: {members}')
	result['type_offset_delta'] = delta
	result['AGGREGATE_HASHED_SIZE'] = next(iter(members.values()))
	result['aggregate_type_names'] = sorted(members)
	return result


def _enum_values(path, class_name):
	"""NAME = value members of an Enum class in a generated codec module."""
	from translate import pyconst
	return pyconst.class_constants(path, class_name)


def translate(_ctx):
	"""Generated/C07Consts.lean: the framing constants as the facades and the schemas state them on this run."""
	from translate import catsoffsets, pyconst

	from .common import LEAN, REPO, write_if_changed
	failures = []
	facade = _facade_constants(REPO)
	symbol = catsoffsets.load(os.path.join(REPO, SCHEMAS, 'symbol'), 'transaction.cats', 'aggregate/aggregate.cats')
	nem = catsoffsets.load(os.path.join(REPO, SCHEMAS, 'nem'), 'transaction.cats', 'multisig/multisig.cats')

	transaction, _ = symbol.layout('Transaction')
	at = catsoffsets.offsets(transaction)
	schema_header = at['version'][0]  # everything before the entity version: size, reserved, signature, signer, reserved
	body, _ = symbol.layout('AggregateTransactionBody')
	body_at = catsoffsets.offsets(body)
	# version .. deadline of the Transaction header plus transactions_hash, the first member of the aggregate body
	schema_window = (at['deadline'][0] + at['deadline'][1] - schema_header) + body_at['transactions_hash'][1]
	if 0 != body_at['transactions_hash'][0]:
		failures.append('schema: transactions_hash is no longer the first member of AggregateTransactionBody')
	cosignature, _ = symbol.layout('Cosignature')
	detached, _ = symbol.layout('DetachedCosignature')

	sc_types = _enum_values(os.path.join(REPO, 'sdk/python/symbolchain/sc/__init__.py'), 'TransactionType')
	names = facade['aggregate_type_names']
	aggregate_types = [sc_types[name] for name in names]
	schema_types = [symbol.enums['TransactionType'][name] for name in names]

	nem_transaction, _ = nem.layout('Transaction')
	nat = catsoffsets.offsets(nem_transaction)
	nem_non_verifiable, _ = nem.layout('NonVerifiableTransaction')
	multisig, _ = nem.layout('MultisigTransactionV1')
	mat = catsoffsets.offsets(multisig)
	nc_types = _enum_values(os.path.join(REPO, 'sdk/python/symbolchain/nc/__init__.py'), 'TransactionType')
	# the non-verifiable layout must be the verifiable one minus the size-prefixed signature
	stripped = [(name, size) for name, _, size in nem_transaction if not name.startswith('signature.')]
	if stripped != [(name, size) for name, _, size in nem_non_verifiable]:
		failures.append('schema: NonVerifiableTransaction is no longer Transaction minus the signature')

	curve = pyconst.module_constants(os.path.join(REPO, 'sdk/python/symbolchain/external/ed25519.py'))

	text = (
		'/- generated by harness/c07.py from sdk/python/symbolchain/facade/SymbolFacade.py, CryptoTypes.py, sc, nc and\n'
		'   catbuffer/schemas/{symbol,nem}; do not edit -/\n'
		'namespace SymbolVerif.Generated.C07\n'
		f'def TRANSACTION_HEADER_SIZE : Nat := {facade["TRANSACTION_HEADER_SIZE"]}\n'
		f'def AGGREGATE_HASHED_SIZE : Nat := {facade["AGGREGATE_HASHED_SIZE"]}\n'
		f'def typeOffsetDelta : Nat := {facade["type_offset_delta"]}\n'
		f'def aggregateTypeNames : List String := [{", ".join(pyconst.lean_string(name) for name in names)}]\n'
		f'def aggregateTypes : List Nat := {pyconst.lean_nat_list(aggregate_types)}\n'
		f'def schemaAggregateTypes : List Nat := {pyconst.lean_nat_list(schema_types)}\n'
		f'def schemaHeaderSize : Nat := {schema_header}\n'
		f'def schemaTypeOffset : Nat := {at["type"][0]}\n'
		f'def schemaTypeSize : Nat := {at["type"][1]}\n'
		f'def schemaAggregateWindow : Nat := {schema_window}\n'
		f'def schemaSignerOffset : Nat := {at["signer_public_key"][0]}\n'
		f'def schemaSignerSize : Nat := {at["signer_public_key"][1]}\n'
		f'def cosignatureLayout : List (String × Nat × Nat) := [{", ".join(_triple(entry) for entry in cosignature)}]\n'
		f'def detachedCosignatureLayout : List (String × Nat × Nat) := [{", ".join(_triple(entry) for entry in detached)}]\n'
		f'def nemSignatureOffset : Nat := {nat["signature.size"][0]}\n'
		f'def nemSignatureBlock : Nat := {nat["signature.size"][1] + nat["signature.__value__"][1]}\n'
		f'def nemSignerOffset : Nat := {nat["signer_public_key.__value__"][0]}\n'
		f'def nemSignerSize : Nat := {nat["signer_public_key.__value__"][1]}\n'
		f'def nemTypeSize : Nat := {nat["type"][1]}\n'
		f'def nemMultisigType : Nat := {nc_types["MULTISIG"]}\n'
		f'def schemaNemMultisigType : Nat := {nem.enums["TransactionType"]["MULTISIG"]}\n'
		f'def nemInnerSizeOffset : Nat := {mat["inner_transaction_size"][0]}\n'
		f'def nemInnerSizeSize : Nat := {mat["inner_transaction_size"][1]}\n'
		f'def curveQ : Nat := {curve["q"]}\n'
		f'def curveL : Nat := {curve["l_"]}\n'
		'end SymbolVerif.Generated.C07\n')
	write_if_changed(os.path.join(LEAN, 'SymbolVerif', 'Generated', 'C07Consts.lean'), text)
	return failures


def _triple(entry):
	from translate import pyconst
	return f'({pyconst.lean_string(entry[0])}, {entry[1]}, {entry[2]})'




# region independent oracle: RFC 8032 reference arithmetic (own code; used only to state what the SDK must produce)

_P = 2 ** 255 - 19
_L = 2 ** 252 + 27742317777372353535851937790883648493
_D = -121665 * pow(121666, _P - 2, _P) % _P


def _ref_add(p, q):
	a = (p[1] - p[0]) * (q[1] - q[0]) % _P
	b = (p[1] + p[0]) * (q[1] + q[0]) % _P
	c = 2 * p[3] * q[3] * _D % _P
	d = 2 * p[2] * q[2] % _P
	e, f, g, h = b - a, d - c, d + c, b + a
	return (e * f % _P, g * h % _P, f * g % _P, e * h % _P)


def _ref_mul(scalar, point):
	result = (0, 1, 1, 0)
	while scalar > 0:
		if scalar & 1:
			result = _ref_add(result, point)
		point = _ref_add(point, point)
		scalar >>= 1
	return result


def _ref_base():
	y = 4 * pow(5, _P - 2, _P) % _P
	xx = (y * y - 1) * pow(_D * y * y + 1, _P - 2, _P) % _P
	x = pow(xx, (_P + 3) // 8, _P)
	if (x * x - xx) % _P:
		x = x * pow(2, (_P - 1) // 4, _P) % _P
	if x & 1:
		x = _P - x
	return (x, y, 1, x * y % _P)


_BASE = _ref_base()
_BASE_CACHE = {}


def _ref_base_mul(scalar):
	if not _BASE_CACHE:
		point = _BASE
		for index in range(256):
			_BASE_CACHE[index] = point
			point = _ref_add(point, point)
	result = (0, 1, 1, 0)
	index = 0
	while scalar > 0:
		if scalar & 1:
			result = _ref_add(result, _BASE_CACHE[index])
		scalar >>= 1
		index += 1
	return result


def _ref_encode(point):
	inverse = pow(point[2], _P - 2, _P)
	x, y = point[0] * inverse % _P, point[1] * inverse % _P
	return (y | ((x & 1) << 255)).to_bytes(32, 'little')


def _hash512(network):
	if 'nem' == network:
		import sha3
		return lambda data: sha3.keccak_512(data).digest()
	return lambda data: hashlib.sha512(data).digest()


def _ref_expand(network, secret):
	"""(scalar a, nonce prefix): SHA-512 of the secret on Symbol, Keccak-512 of the byte-reversed secret on NEM."""
	digest = _hash512(network)(secret[::-1] if 'nem' == network else secret)
	scalar = int.from_bytes(digest[:32], 'little')
	scalar &= (1 << 254) - 8
	scalar |= 1 << 254
	return scalar, digest[32:]


def ref_public_key(network, secret):
	return _ref_encode(_ref_base_mul(_ref_expand(network, secret)[0]))


def ref_sign(network, secret, message):
	hasher = _hash512(network)
	scalar, prefix = _ref_expand(network, secret)
	public_key = _ref_encode(_ref_base_mul(scalar))
	nonce = int.from_bytes(hasher(prefix + message), 'little') % _L
	encoded_r = _ref_encode(_ref_base_mul(nonce))
	challenge = int.from_bytes(hasher(encoded_r + public_key + message), 'little') % _L
	return encoded_r + ((nonce + challenge * scalar) % _L).to_bytes(32, 'little')


class Layout:
	"""Offsets of the signed region, computed from the CATS schemas (not from the facade constants)."""

	def __init__(self, repo):
		from translate import catsoffsets
		symbol = catsoffsets.load(os.path.join(repo, SCHEMAS, 'symbol'), 'transaction.cats', 'aggregate/aggregate.cats')
		nem = catsoffsets.load(os.path.join(repo, SCHEMAS, 'nem'), 'transaction.cats', 'multisig/multisig.cats')
		at = catsoffsets.offsets(symbol.layout('Transaction')[0])
		body = catsoffsets.offsets(symbol.layout('AggregateTransactionBody')[0])
		self.header = at['version'][0]
		self.type_offset = at['type'][0]
		self.window = at['deadline'][0] + at['deadline'][1] - self.header + body['transactions_hash'][1]
		self.signer = at['signer_public_key']
		self.signature = at['signature']
		self.aggregate_types = {value for name, value in symbol.enums['TransactionType'].items() if name.startswith('AGGREGATE_')}
		nat = catsoffsets.offsets(nem.layout('Transaction')[0])
		mat = catsoffsets.offsets(nem.layout('MultisigTransactionV1')[0])
		self.nem_signature_start = nat['signature.size'][0]
		self.nem_signature_end = nat['signature.__value__'][0] + nat['signature.__value__'][1]
		self.nem_signer = nat['signer_public_key.__value__']
		self.nem_multisig = nem.enums['TransactionType']['MULTISIG']
		self.nem_inner_size = mat['inner_transaction_size']

	def symbol_covered(self, buffer):
		"""(start, end) of the signed bytes of a serialized Symbol transaction."""
		type_code = int.from_bytes(buffer[self.type_offset:self.type_offset + 2], 'little')
		end = self.header + self.window if type_code in self.aggregate_types else len(buffer)
		return self.header, min(end, len(buffer))

	def symbol_payload(self, seed, buffer):
		start, end = self.symbol_covered(buffer)
		return seed + buffer[start:end]

	def nem_payload(self, buffer):
		end = len(buffer)
		if int.from_bytes(buffer[:4], 'little') == self.nem_multisig:
			offset, size = self.nem_inner_size
			end = offset + size + int.from_bytes(buffer[offset:offset + size], 'little')
		return buffer[:self.nem_signature_start] + buffer[self.nem_signature_end:end]

	def nem_is_covered(self, buffer, position):
		end = len(buffer)
		if int.from_bytes(buffer[:4], 'little') == self.nem_multisig:
			offset, size = self.nem_inner_size
			end = offset + size + int.from_bytes(buffer[offset:offset + size], 'little')
		return position < self.nem_signature_start or self.nem_signature_end <= position < end

# endregion


# region implementation access

SYMBOL_SEEDS = {
	'mainnet': bytes.fromhex('57F7DA205008026C776CB6AED843393F04CD458E0AA2D9F1D5F31A402072B2D6'),
	'testnet': bytes.fromhex('49D6E1CE276A85B70EAFE52349AACCA389302E7A9754BCF1221E79494FC665A4'),
}


class Impl:
	"""The real SDK objects, addressed by network name ('symbol:<seed hex or name>' / 'nem')."""

	def __init__(self):
		import datetime

		from symbolchain.CryptoTypes import Hash256, PrivateKey, PublicKey, Signature
		from symbolchain.facade.NemFacade import NemFacade
		from symbolchain.facade.SymbolFacade import SymbolFacade
		from symbolchain.symbol.Network import Network as SymbolNetwork
		self.types = (Hash256, PrivateKey, PublicKey, Signature)
		self.nem = NemFacade('testnet')
		self.nem_main = NemFacade('mainnet')
		self._symbol_class = SymbolFacade
		self._symbol_network = SymbolNetwork
		self._epoch = datetime.datetime(2022, 10, 31, 21, 7, 47, tzinfo=datetime.timezone.utc)
		self._facades = {}

	def symbol(self, seed):
		"""Facade for the network with the given generation hash seed (the two shipped networks by their own objects)."""
		if seed not in self._facades:
			shipped = [name for name, value in SYMBOL_SEEDS.items() if value == seed]
			if shipped:
				facade = self._symbol_class(shipped[0])
			else:
				facade = self._symbol_class(self._symbol_network('custom', 0x98, self._epoch, self.types[0](seed)))
			self._facades[seed] = facade
		return self._facades[seed]

	def facade(self, network, seed=None):
		return self.nem if 'nem' == network else self.symbol(seed)

	def key_pair(self, network, secret):
		facade_class = self.nem if 'nem' == network else self._symbol_class
		return facade_class.KeyPair(self.types[1](secret))

	def verify(self, network, public_key, message, signature, key_type='crypto'):
		"""Verifier(public_key).verify(message, signature) as one of accept/reject/zeroKey/libraryError/error:<type>.

		key_type: the class of the key object handed to the verifier - CryptoTypes.PublicKey ('crypto') or the codec's own
		PublicKey ('codec'), which is what a transaction's signer_public_key and a cosignature's signer are."""
		import nacl.exceptions
		facade_class = self.nem if 'nem' == network else self._symbol_class
		key_class = self.types[2]
		if 'codec' == key_type:
			import importlib
			key_class = importlib.import_module('symbolchain.nc' if 'nem' == network else 'symbolchain.sc').PublicKey
		try:
			verifier = facade_class.Verifier(key_class(public_key))
		except ValueError as ex:
			return 'zeroKey' if 'cannot be zero' in str(ex) else f'error:{type(ex).__name__}'
		try:
			return 'accept' if verifier.verify(message, self.types[3](signature)) else 'reject'
		except nacl.exceptions.RuntimeError:
			return 'libraryError'
		except Exception as ex:  # pylint: disable=broad-except
			return f'error:{type(ex).__name__}'

	def verify_transaction(self, network, seed, transaction, signature):
		import nacl.exceptions
		try:
			return 'accept' if self.facade(network, seed).verify_transaction(transaction, self.types[3](signature)) else 'reject'
		except ValueError as ex:
			return 'zeroKey' if 'cannot be zero' in str(ex) else f'error:{type(ex).__name__}'
		except nacl.exceptions.RuntimeError:
			return 'libraryError'
		except Exception as ex:  # pylint: disable=broad-except
			return f'error:{type(ex).__name__}'

	def deserialize(self, network, seed, buffer):
		"""Transaction object whose serialization is exactly `buffer`, or None."""
		try:
			transaction = self.facade(network, seed).transaction_factory.deserialize(buffer)
			return transaction if transaction.serialize() == buffer else None
		except Exception:  # pylint: disable=broad-except
			return None

# endregion


# region generators

def gen_secret(rng):
	pick = rng.random()
	if pick < 0.08:
		return rng.choice([bytes(31) + b'\x01', b'\xff' * 32, b'\x01' + bytes(31), bytes(32), bytes(range(32))])
	return rng.bytes_(32)


def gen_symbol_transaction(rng, facade, key_pair, aggregate=None):
	"""A transaction of a random type built through the real factory."""
	from symbolchain.CryptoTypes import Hash256
	factory = facade.transaction_factory
	address = facade.network.public_key_to_address(facade.KeyPair(facade.KeyPair(key_pair.private_key).private_key).public_key)
	other = facade.network.public_key_to_address(facade.KeyPair(__import__('symbolchain.CryptoTypes', fromlist=['PrivateKey']).PrivateKey(rng.bytes_(32))).public_key)

	def plain(embedded):
		kind = rng.randrange(12)
		if 0 == kind:
			mosaics = [{'mosaic_id': rng.boundary_int(64), 'amount': rng.boundary_int(64)} for _ in range(rng.choice([0, 1, 2, 3]))]
			unique = {entry['mosaic_id']: entry for entry in mosaics}
			descriptor = {
				'type': 'transfer_transaction_v1', 'recipient_address': other, 'mosaics': list(unique.values()),
				'message': rng.bytes_(rng.choice([0, 1, 15, 16, 17, 64, 300]))}
		elif 1 == kind:
			descriptor = {
				'type': 'namespace_registration_transaction_v1', 'registration_type': 'root', 'duration': rng.boundary_int(64),
				'name': ''.join(rng.choice('abcdefgh0123') for _ in range(rng.randrange(1, 20)))}
		elif 2 == kind:
			descriptor = {
				'type': 'mosaic_definition_transaction_v1', 'duration': rng.boundary_int(64), 'nonce': rng.boundary_int(32),
				'flags': rng.choice(['none', 'transferable', 'transferable restrictable', 'supply_mutable revokable']),
				'divisibility': rng.randrange(7)}
		elif 3 == kind:
			descriptor = {
				'type': 'mosaic_supply_change_transaction_v1', 'mosaic_id': rng.boundary_int(64), 'delta': rng.boundary_int(64),
				'action': rng.choice(['increase', 'decrease'])}
		elif 4 == kind:
			descriptor = {
				'type': 'hash_lock_transaction_v1', 'mosaic': {'mosaic_id': rng.boundary_int(64), 'amount': rng.boundary_int(64)},
				'duration': rng.boundary_int(64), 'hash': Hash256(rng.bytes_(32))}
		elif 5 == kind:
			descriptor = {
				'type': rng.choice(['account_key_link_transaction_v1', 'node_key_link_transaction_v1', 'vrf_key_link_transaction_v1']),
				'linked_public_key': rng.bytes_(32).hex().upper(), 'link_action': rng.choice(['link', 'unlink'])}
		elif 6 == kind:
			start = rng.boundary_int(32)
			descriptor = {
				'type': 'voting_key_link_transaction_v1', 'linked_public_key': rng.bytes_(32).hex().upper(), 'start_epoch': start,
				'end_epoch': min((1 << 32) - 1, start + rng.randrange(100)), 'link_action': 'link'}
		elif 7 == kind:
			descriptor = {
				'type': 'secret_lock_transaction_v1', 'recipient_address': other, 'secret': Hash256(rng.bytes_(32)),
				'mosaic': {'mosaic_id': rng.boundary_int(64), 'amount': rng.boundary_int(64)}, 'duration': rng.boundary_int(64),
				'hash_algorithm': rng.choice(['sha3_256', 'hash_160', 'hash_256'])}
		elif 8 == kind:
			value = rng.bytes_(rng.choice([0, 1, 8, 100]))
			descriptor = {
				'type': 'account_metadata_transaction_v1', 'target_address': address, 'scoped_metadata_key': rng.boundary_int(64),
				'value_size_delta': len(value), 'value': value}
		elif 9 == kind:
			descriptor = {
				'type': 'multisig_account_modification_transaction_v1', 'min_removal_delta': rng.randrange(-3, 4),
				'min_approval_delta': rng.randrange(-3, 4), 'address_additions': [other] if rng.random() < 0.7 else [],
				'address_deletions': [address] if rng.random() < 0.3 else []}
		elif 10 == kind:
			descriptor = {
				'type': 'address_alias_transaction_v1', 'namespace_id': rng.boundary_int(64) | (1 << 63), 'address': other,
				'alias_action': rng.choice(['link', 'unlink'])}
		else:
			descriptor = {
				'type': 'account_address_restriction_transaction_v1', 'restriction_flags': rng.choice(['address', 'address outgoing', 'address block']),
				'restriction_additions': [other], 'restriction_deletions': []}
		descriptor['signer_public_key'] = key_pair.public_key
		if embedded:
			return factory.create_embedded(descriptor)
		descriptor['fee'] = rng.boundary_int(64)
		descriptor['deadline'] = rng.boundary_int(64)
		return factory.create(descriptor)

	if aggregate is None:
		aggregate = rng.random() < 0.45
	if not aggregate:
		return plain(False), 'plain'
	embedded = [plain(True) for _ in range(rng.choice([0, 1, 1, 2, 3]))]
	name = rng.choice([
		'aggregate_complete_transaction_v2', 'aggregate_bonded_transaction_v2', 'aggregate_complete_transaction_v1',
		'aggregate_bonded_transaction_v1'])
	transaction = factory.create({
		'type': name, 'signer_public_key': key_pair.public_key, 'fee': rng.boundary_int(64), 'deadline': rng.boundary_int(64),
		'transactions_hash': facade.hash_embedded_transactions(embedded), 'transactions': embedded})
	cosigners = rng.choice([0, 0, 1, 2])
	for _ in range(cosigners):
		cosigner = facade.KeyPair(__import__('symbolchain.CryptoTypes', fromlist=['PrivateKey']).PrivateKey(rng.bytes_(32)))
		transaction.cosignatures.append(facade.cosign_transaction(cosigner, transaction))
	return transaction, f'aggregate:{len(embedded)}tx:{cosigners}cosig'


def gen_nem_transaction(rng, facade, key_pair, multisig=None):
	from symbolchain import nc
	from symbolchain.CryptoTypes import Hash256, PrivateKey
	factory = facade.transaction_factory
	other_key_pair = facade.KeyPair(PrivateKey(rng.bytes_(32)))
	other = facade.network.public_key_to_address(other_key_pair.public_key)
	common = {'signer_public_key': key_pair.public_key, 'fee': rng.boundary_int(64), 'deadline': rng.boundary_int(32), 'timestamp': rng.boundary_int(32)}
	mosaic_id = {'namespace_id': {'name': rng.choice([b'nem', b'magic', b'a'])}, 'name': rng.choice([b'xem', b'coin_2', b'x'])}

	def plain():
		kind = rng.randrange(8)
		if 0 == kind:
			descriptor = {'type': 'transfer_transaction_v1', 'recipient_address': other, 'amount': rng.boundary_int(64)}
			if rng.random() < 0.7:
				descriptor['message'] = {'message_type': 'plain', 'message': rng.bytes_(rng.choice([0, 1, 16, 33, 200]))}
		elif 1 == kind:
			descriptor = {
				'type': 'transfer_transaction_v2', 'recipient_address': other, 'amount': rng.boundary_int(64),
				'mosaics': [{'mosaic': {'mosaic_id': mosaic_id, 'amount': rng.boundary_int(64)}}] if rng.random() < 0.6 else []}
			if rng.random() < 0.5:
				descriptor['message'] = {'message_type': 'plain', 'message': rng.bytes_(rng.choice([1, 16, 33]))}
		elif 2 == kind:
			descriptor = {
				'type': 'account_key_link_transaction_v1', 'link_action': rng.choice(['link', 'unlink']),
				'remote_public_key': other_key_pair.public_key}
		elif 3 == kind:
			modifications = [
				{'modification': {
					'modification_type': rng.choice(['add_cosignatory', 'delete_cosignatory']),
					'cosignatory_public_key': rng.bytes_(32).hex().upper()}}
				for _ in range(rng.choice([0, 1, 2]))]
			if rng.random() < 0.5:
				descriptor = {'type': 'multisig_account_modification_transaction_v2', 'min_approval_delta': rng.randrange(-2, 3), 'modifications': modifications}
			else:
				descriptor = {'type': 'multisig_account_modification_transaction_v1', 'modifications': modifications}
		elif 4 == kind:
			descriptor = {
				'type': 'namespace_registration_transaction_v1', 'rental_fee_sink': other, 'rental_fee': rng.boundary_int(64),
				'name': ''.join(rng.choice('abcxyz019') for _ in range(rng.randrange(1, 16)))}
			if rng.random() < 0.5:
				descriptor['parent_name'] = 'parent'
		elif 5 == kind:
			descriptor = {'type': 'cosignature_v1', 'other_transaction_hash': Hash256(rng.bytes_(32)), 'multisig_account_address': other}
		elif 6 == kind:
			descriptor = {
				'type': 'mosaic_supply_change_transaction_v1', 'mosaic_id': mosaic_id, 'action': rng.choice(['increase', 'decrease']),
				'delta': rng.boundary_int(64)}
		else:
			descriptor = {
				'type': 'mosaic_definition_transaction_v1', 'rental_fee_sink': other, 'rental_fee': rng.boundary_int(64),
				'mosaic_definition': {
					'owner_public_key': key_pair.public_key, 'id': mosaic_id, 'description': rng.bytes_(rng.choice([0, 5, 40])),
					'properties': [{'property_': {'name': b'divisibility', 'value': b'2'}}] if rng.random() < 0.7 else []}}
		return factory.create({**descriptor, **common})

	if multisig is None:
		multisig = rng.random() < 0.3
	if not multisig:
		transaction = plain()
		return transaction, type(transaction).__name__
	inner = plain()
	while 'CosignatureV1' == type(inner).__name__:
		inner = plain()
	transaction = factory.create({'type': 'multisig_transaction_v1', 'inner_transaction': factory.to_non_verifiable_transaction(inner), **common})
	cosigners = rng.choice([0, 1, 2])
	for _ in range(cosigners):
		cosigner = facade.KeyPair(PrivateKey(rng.bytes_(32)))
		cosignature = factory.create({
			'type': 'cosignature_v1', 'other_transaction_hash': facade.hash_transaction(inner), 'multisig_account_address': other,
			'signer_public_key': cosigner.public_key, 'fee': rng.boundary_int(64), 'deadline': rng.boundary_int(32), 'timestamp': rng.boundary_int(32)})
		cosignature.signature = nc.Signature(facade.sign_transaction(cosigner, cosignature).bytes)
		wrapped = nc.SizePrefixedCosignatureV1()
		wrapped.cosignature = cosignature
		transaction.cosignatures.append(wrapped)
	return transaction, f'multisig:{type(inner).__name__}:{cosigners}cosig'

# endregion


# region operations (each: implementation answer, what the property requires, model request)

def flip(data, bit):
	out = bytearray(data)
	out[bit // 8] ^= 1 << (bit % 8)
	return bytes(out)


class Checker:
	def __init__(self, ctx):
		from .common import REPO
		self.ctx = ctx
		self.impl = Impl()
		self.layout = Layout(REPO)
		self.ops = []  # (name, args dict, impl answer, required answer, model line, model expectation transform)
		self.network_context = None

	def add(self, name, args, impl_answer, required, model_line, what):
		if self.network_context is not None:
			# the facade in use was built from a Network object with this name / identifier (and the seed in `args`)
			args = dict(args, network_name=self.network_context[0], network_identifier=self.network_context[1])
			what = f'[facade of Network({self.network_context[0]!r}, 0x{self.network_context[1]:02X}, own seed)] {what}'
		self.ops.append((name, args, impl_answer, required, model_line, what))

	def custom_facade(self, name, identifier, seed):
		"""SymbolFacade(Network(name, identifier, epoch, seed)) or, when `identifier` is None, SymbolFacade(name)."""
		impl = self.impl
		if identifier is None:
			return impl._symbol_class(name), None  # pylint: disable=protected-access
		network = impl._symbol_network(name, identifier, impl._epoch, impl.types[0](seed))  # pylint: disable=protected-access
		return impl._symbol_class(network), network  # pylint: disable=protected-access

	def with_facade(self, name, identifier, seed):
		"""Context manager: every facade operation addressed by `seed` goes through the facade built from (name, identifier, seed)."""
		import contextlib
		checker = self

		@contextlib.contextmanager
		def manager():
			facades = checker.impl._facades  # pylint: disable=protected-access
			previous = facades.get(seed)
			facade, network = checker.custom_facade(name, identifier, seed)
			facades[seed] = facade
			checker.network_context = (name, -1 if identifier is None else identifier)
			try:
				yield facade, network
			finally:
				checker.network_context = None
				if previous is None:
					facades.pop(seed, None)
				else:
					facades[seed] = previous
		return manager()

	# --- key pairs and raw messages

	def public_key(self, network, secret):
		answer = self.impl.key_pair(network, secret).public_key.bytes
		self.add('pubkey', {'network': network, 'secret': secret}, hx(answer), hx(ref_public_key(network, secret)),
			f'pubkey {network} {hx(secret)}', 'public key != encode(clamp(H(secret)) * B)')
		return answer

	def sign(self, network, secret, message):
		import nacl.exceptions
		try:
			answer = 'ok ' + hx(self.impl.key_pair(network, secret).sign(message).bytes)
		except nacl.exceptions.RuntimeError:
			answer = 'none'
		self.add('sign', {'network': network, 'secret': secret, 'message': message}, answer, 'ok ' + hx(ref_sign(network, secret, message)),
			f'sign {network} {hx(secret)} {hx(message)}', 'signature != deterministic reference Ed25519 signature')
		return bytes.fromhex(answer[3:]) if answer.startswith('ok ') else None

	def verify(self, network, public_key, message, signature, required, what, key_type='crypto'):
		answer = self.impl.verify(network, public_key, message, signature, key_type)
		self.add('verify', {'network': network, 'public_key': public_key, 'message': message, 'signature': signature, 'key_type': key_type.encode('utf8')}, answer, required,
			f'verify {network} {hx(public_key)} {hx(message)} {hx(signature)}', what)

	# --- transactions

	def payload(self, network, seed, buffer, transaction):
		facade = self.impl.facade(network, seed)
		try:
			answer = facade.extract_signing_payload(transaction)
		except Exception as ex:  # pylint: disable=broad-except
			# the implementation cannot even produce the payload of a transaction it built itself
			answer = f'{type(ex).__name__}: {ex}'.encode('utf8')
		if 'nem' == network:
			required = self.layout.nem_payload(buffer)
			line = f'payload_nem {hx(buffer)}'
		else:
			required = self.layout.symbol_payload(seed, buffer)
			line = f'payload_symbol {hx(seed)} {hx(buffer)}'
		what = 'signing payload != generation hash seed + covered bytes' if 'nem' != network else 'signing payload != serialization without the signature'
		self.add('payload', {'network': network, 'seed': seed, 'transaction': buffer}, ('ok ' if 'nem' != network else '') + hx(answer),
			('ok ' if 'nem' != network else '') + hx(required), line, what)
		return required

	def sign_transaction(self, network, seed, secret, buffer, transaction):
		facade = self.impl.facade(network, seed)
		key_pair = self.impl.key_pair(network, secret)
		answer = facade.sign_transaction(key_pair, transaction).bytes
		payload = self.layout.nem_payload(buffer) if 'nem' == network else self.layout.symbol_payload(seed, buffer)
		line = f'sign_tx_nem {hx(secret)} {hx(buffer)}' if 'nem' == network else f'sign_tx_symbol {hx(seed)} {hx(secret)} {hx(buffer)}'
		self.add('sign_tx', {'network': network, 'seed': seed, 'secret': secret, 'transaction': buffer}, 'ok ' + hx(answer),
			'ok ' + hx(ref_sign(network, secret, payload)), line, 'transaction signature != reference signature of the documented payload')
		return answer

	def verify_transaction(self, network, seed, buffer, transaction, signature, required, what):
		answer = self.impl.verify_transaction(network, seed, transaction, signature)
		if 'nem' == network:
			line = f'verify_tx_nem {hx(buffer)} {hx(signature)}'
			wrap = ''
		else:
			line = f'verify_tx_symbol {hx(seed)} {hx(buffer)} {hx(signature)}'
			wrap = 'ok '
		self.add('verify_tx', {'network': network, 'seed': seed, 'transaction': buffer, 'signature': signature}, wrap + answer, wrap + required, line, what)

	def cosign(self, seed, secret, buffer, transaction, detached):
		facade = self.impl.symbol(seed)
		key_pair = self.impl.key_pair('symbol', secret)
		transaction_hash = facade.hash_transaction(transaction)
		answer = facade.cosign_transaction(key_pair, transaction, detached).serialize()
		via_hash = facade.cosign_transaction_hash(key_pair, transaction_hash, detached).serialize()
		required = bytes(8) + ref_public_key('symbol', secret) + ref_sign('symbol', secret, transaction_hash.bytes)
		if detached:
			required += transaction_hash.bytes
		self.add('cosign', {'seed': seed, 'secret': secret, 'transaction': buffer, 'detached': detached, 'hash': transaction_hash.bytes},
			'ok ' + hx(answer), 'ok ' + hx(required), f'cosign {hx(secret)} {hx(transaction_hash.bytes)} {1 if detached else 0}',
			'cosignature != version 0 + signer + reference signature of the 32 transaction hash bytes')
		if via_hash != answer:
			self.ctx.fail('property', 'cosign_transaction and cosign_transaction_hash(hash_transaction(tx)) differ', {
				'seed': seed, 'secret': secret, 'transaction': buffer, 'detached': detached})
		return answer

	def voting(self, secret, start, stop, child_keys):
		from symbolchain.CryptoTypes import PrivateKey
		from symbolchain.symbol.VotingKeysGenerator import VotingKeysGenerator
		supply = iter(child_keys)
		generator = VotingKeysGenerator(self.impl.key_pair('symbol', secret), lambda: PrivateKey(next(supply)))
		try:
			answer = 'ok ' + hx(generator.generate(start, stop))
		except OverflowError:
			answer = 'none'
		if start >= (1 << 64) or stop >= (1 << 64):
			required = 'none'
		else:
			root_public = ref_public_key('symbol', secret)
			out = start.to_bytes(8, 'little') + stop.to_bytes(8, 'little') + b'\xff' * 16 + root_public
			out += start.to_bytes(8, 'little') + stop.to_bytes(8, 'little')
			for index, identifier in enumerate(range(stop, start - 1, -1)):
				child = child_keys[index]
				out += child + ref_sign('symbol', secret, ref_public_key('symbol', child) + identifier.to_bytes(8, 'little'))
			required = 'ok ' + hx(out)
		keys = ','.join(hx(key) for key in child_keys) if child_keys else '-'
		self.add('voting', {'secret': secret, 'start': start, 'stop': stop, 'child_keys': list(child_keys)}, answer, required,
			f'voting {hx(secret)} {start} {stop} {keys}', 'voting key tree != header + (child key, reference root signature over child public key + id) from end down to start')
		return answer

	# --- histories: one object used several times (a signer must not carry state from one call to the next)

	def _signed(self, function, *args):
		import nacl.exceptions
		try:
			return 'ok ' + hx(function(*args).bytes)
		except nacl.exceptions.RuntimeError:
			return 'none'

	def sign_history(self, network, secret, messages, companions=()):
		"""One KeyPair object signs `messages` in order; `companions` are other secrets whose key pairs are created before it and
		sign in between (creation order and interleaving must not matter). Every signature is the reference signature."""
		others = [self.impl.key_pair(network, other) for other in companions]
		key_pair = self.impl.key_pair(network, secret)
		for index, message in enumerate(messages):
			answer = self._signed(key_pair.sign, message)
			for other, other_secret in zip(others, companions):
				between = self._signed(other.sign, message)
				self.add('sign_history', {
					'network': network, 'secret': other_secret, 'messages': list(messages[:index + 1]), 'companions': [secret], 'index': index},
					between, 'ok ' + hx(ref_sign(network, other_secret, message)), f'sign {network} {hx(other_secret)} {hx(message)}',
					f'signature #{index + 1} of a KeyPair object used next to another one != reference signature')
			self.add('sign_history', {
				'network': network, 'secret': secret, 'messages': list(messages[:index + 1]), 'companions': list(companions), 'index': index},
				answer, 'ok ' + hx(ref_sign(network, secret, message)), f'sign {network} {hx(secret)} {hx(message)}',
				f'signature #{index + 1} of one KeyPair object (messages before it: {index}) != deterministic reference signature')
		fresh = self._signed(self.impl.key_pair(network, secret).sign, messages[0])
		again = self._signed(key_pair.sign, messages[0])
		if fresh != again:
			self.ctx.fail('property', f'a fresh {network} KeyPair and a re-used one sign the same message differently: {fresh[:60]} / {again[:60]}', {
				'op': 'sign_history', 'args': {'network': network, 'secret': secret, 'messages': list(messages) + [messages[0]], 'companions': list(companions), 'index': len(messages)},
				'required': fresh, 'implementation': again})

	def transaction_history(self, network, seed, secret, steps):
		"""One facade, one key pair object and one account object sign the transactions of `steps` = [(kind, buffer, transaction)],
		kind in sign / account_sign / cosign / account_cosign / cosign_detached; each result is the reference signature."""
		facade = self.impl.facade(network, seed)
		key_pair = self.impl.key_pair(network, secret)
		account = facade.create_account(self.impl.types[1](secret))
		kinds = [step[0] for step in steps]
		buffers = [step[1] for step in steps]
		for index, (kind, buffer, transaction) in enumerate(steps):
			payload = self.layout.nem_payload(buffer) if 'nem' == network else self.layout.symbol_payload(seed, buffer)
			args = {'network': network, 'seed': seed, 'secret': secret, 'kinds': ','.join(kinds[:index + 1]), 'transactions': buffers[:index + 1], 'index': index}
			if kind in ('sign', 'account_sign'):
				signer = (lambda tx: facade.sign_transaction(key_pair, tx)) if 'sign' == kind else account.sign_transaction
				answer = self._signed(signer, transaction)
				line = f'sign_tx_nem {hx(secret)} {hx(buffer)}' if 'nem' == network else f'sign_tx_symbol {hx(seed)} {hx(secret)} {hx(buffer)}'
				self.add('sign_tx_history', args, answer, 'ok ' + hx(ref_sign(network, secret, payload)), line,
					f'transaction signature #{index + 1} ({kind}) of one key pair / account object != reference signature of the documented payload')
			else:
				detached = 'cosign_detached' == kind
				transaction_hash = facade.hash_transaction(transaction)
				if 'account_cosign' == kind:
					answer = account.cosign_transaction(transaction, detached).serialize()
				else:
					answer = facade.cosign_transaction(key_pair, transaction, detached).serialize()
				required = bytes(8) + ref_public_key('symbol', secret) + ref_sign('symbol', secret, transaction_hash.bytes)
				if detached:
					required += transaction_hash.bytes
				self.add('sign_tx_history', args, 'ok ' + hx(answer), 'ok ' + hx(required),
					f'cosign {hx(secret)} {hx(transaction_hash.bytes)} {1 if detached else 0}',
					f'cosignature #{index + 1} ({kind}) of one key pair / account object != reference signature of the transaction hash')

	@staticmethod
	def apply_edit(transaction, field, value):
		"""Sets `field` of the transaction object in place to `value` (int or bytes), keeping the field's own type."""
		current = getattr(transaction, field)
		if isinstance(value, bytes) and not isinstance(current, (bytes, bytearray)) and hasattr(current, 'message'):
			current.message = value  # NEM: the Message object inside the transaction is edited in place
		elif isinstance(current, (bytes, bytearray, int)) and not hasattr(current, 'value'):
			setattr(transaction, field, value)
		else:
			setattr(transaction, field, type(current)(value))

	def reference_hash(self, network, seed, buffer):
		if 'nem' == network:
			import sha3
			return sha3.keccak_256(self.layout.nem_payload(buffer)).digest()
		signature = buffer[self.layout.signature[0]:self.layout.signature[0] + self.layout.signature[1]]
		signer = buffer[self.layout.signer[0]:self.layout.signer[0] + self.layout.signer[1]]
		start, end = self.layout.symbol_covered(buffer)
		return hashlib.sha3_256(signature + signer + seed + buffer[start:end]).digest()

	def mutation_history(self, network, seed, secret, buffer, edits):
		"""One transaction OBJECT: payload / sign / verify / hash (/ cosign), then each of `edits` = [(field, value)] is applied in
		place and everything is asked again - every answer must be the reference for the object's CURRENT serialization, and a
		signature made before an edit of a covered field must stop verifying (one made before an uncovered edit must not)."""
		facade = self.impl.facade(network, seed)
		key_pair = self.impl.key_pair(network, secret)
		transaction = facade.transaction_factory.deserialize(buffer)
		applied = []
		earlier = []  # (payload, signature) of the earlier stages
		for stage in range(len(edits) + 1):
			if stage:
				field, value = edits[stage - 1]
				try:
					self.apply_edit(transaction, field, value)
				except (TypeError, ValueError, AttributeError) as ex:
					self.ctx.notes.append(f'in-place edit {field} not applicable to {type(transaction).__name__}: {type(ex).__name__}')
					break
				applied.append(f'{field}={value.hex() if isinstance(value, bytes) else value}')
			current = transaction.serialize()
			args = {'network': network, 'seed': seed, 'secret': secret, 'transaction': buffer, 'edits': ';'.join(applied), 'stage': stage}
			payload = self.layout.nem_payload(current) if 'nem' == network else self.layout.symbol_payload(seed, current)
			wrap = '' if 'nem' == network else 'ok '
			note = f'after in-place edits [{"; ".join(applied)}]' if applied else 'before any edit'
			answer = facade.extract_signing_payload(transaction)
			self.add('mutate', dict(args, check='payload'), wrap + hx(answer), wrap + hx(payload),
				f'payload_nem {hx(current)}' if 'nem' == network else f'payload_symbol {hx(seed)} {hx(current)}',
				f'signing payload of one transaction object {note} is not that of its current serialization')
			signature = self._signed(facade.sign_transaction, key_pair, transaction)
			self.add('mutate', dict(args, check='sign'), signature, 'ok ' + hx(ref_sign(network, secret, payload)),
				f'sign_tx_nem {hx(secret)} {hx(current)}' if 'nem' == network else f'sign_tx_symbol {hx(seed)} {hx(secret)} {hx(current)}',
				f'signature of one transaction object {note} != reference signature of its current payload')
			reference = ref_sign(network, secret, payload)
			for index, (old_payload, old_signature) in enumerate(earlier + [(payload, reference)]):
				required = 'accept' if old_payload == payload else 'reject'
				verdict = self.impl.verify_transaction(network, seed, transaction, old_signature)
				self.add('mutate', dict(args, check=f'verify-signature-of-stage-{index}'), wrap + verdict, wrap + required,
					f'verify_tx_nem {hx(current)} {hx(old_signature)}' if 'nem' == network else f'verify_tx_symbol {hx(seed)} {hx(current)} {hx(old_signature)}',
					f'verify_transaction {note}: the signature made at stage {index} must be {required}ed for the current content')
			earlier.append((payload, reference))
			hashed = facade.hash_transaction(transaction).bytes
			if hashed != self.reference_hash(network, seed, current):
				self.ctx.fail('property', f'hash_transaction of one transaction object {note} is not the hash of its current serialization', {
					'op': 'mutate', 'args': dict(args, check='hash'), 'implementation': hx(hashed), 'required': hx(self.reference_hash(network, seed, current))})
			if 'nem' != network:
				detached = 1 == stage % 2
				cosignature = facade.cosign_transaction(key_pair, transaction, detached).serialize()
				expected_hash = self.reference_hash(network, seed, current)
				required = bytes(8) + ref_public_key('symbol', secret) + ref_sign('symbol', secret, expected_hash) + (expected_hash if detached else b'')
				self.add('mutate', dict(args, check='cosign'), 'ok ' + hx(cosignature), 'ok ' + hx(required),
					f'cosign {hx(secret)} {hx(expected_hash)} {1 if detached else 0}',
					f'cosignature of one transaction object {note} is not over the hash of its current serialization')

	def cosign_set(self, seed, buffer, secrets, hashes):
		"""Several cosignatures obtained in one go and ALL kept: `secrets` cosign the aggregate `buffer` (attached and detached,
		through the facade's cosign_transaction / cosign_transaction_hash and through account objects), and the first secret
		cosigns each of `hashes`. Only after the last call of a group is every kept result compared with the reference for ITS
		signer and hash; the results must be pairwise distinct objects, unchanged since they were returned, and - attached to the
		aggregate - serialize to as many distinct entries."""
		from symbolchain import sc
		facade = self.impl.symbol(seed)
		hash_class = self.impl.types[0]
		transaction = facade.transaction_factory.deserialize(buffer)
		own_hash = self.reference_hash('symbol', seed, buffer)
		args = {'seed': seed, 'transaction': buffer, 'secrets': list(secrets), 'hashes': list(hashes)}
		groups = []
		for detached in (False, True):
			groups.append((f'cosign_transaction:{int(detached)}', detached, [(secret, own_hash) for secret in secrets],
				lambda secret, _hash, flag=detached: facade.cosign_transaction(self.impl.key_pair('symbol', secret), transaction, flag)))
			groups.append((f'cosign_transaction_hash:{int(detached)}', detached, [(secret, own_hash) for secret in secrets],
				lambda secret, value, flag=detached: facade.cosign_transaction_hash(self.impl.key_pair('symbol', secret), hash_class(value), flag)))
			groups.append((f'account.cosign_transaction:{int(detached)}', detached, [(secret, own_hash) for secret in secrets],
				lambda secret, _hash, flag=detached: facade.create_account(self.impl.types[1](secret)).cosign_transaction(transaction, flag)))
			one = facade.create_account(self.impl.types[1](secrets[0]))
			groups.append((f'one-account.cosign_transaction_hash:{int(detached)}', detached, [(secrets[0], value) for value in [own_hash] + list(hashes)],
				lambda _secret, value, flag=detached, account=one: account.cosign_transaction_hash(hash_class(value), flag)))
		for label, detached, jobs, call in groups:
			results, snapshots = [], []
			for secret, value in jobs:
				result = call(secret, value)
				results.append(result)
				snapshots.append(result.serialize())
			# everything below happens after the last call of the group
			for index, ((secret, value), result, taken) in enumerate(zip(jobs, results, snapshots)):
				required = bytes(8) + ref_public_key('symbol', secret) + ref_sign('symbol', secret, value) + (value if detached else b'')
				note = f'{label}: cosignature #{index + 1} of {len(jobs)} kept until all were made'
				self.add('cosign_set', dict(args, group=label, index=index), 'ok ' + hx(result.serialize()), 'ok ' + hx(required),
					f'cosign {hx(secret)} {hx(value)} {1 if detached else 0}', f'{note} is not version 0 + its signer + the reference signature of its hash')
				if result.serialize() != taken:
					self.ctx.fail('property', f'{note} changed after it was returned', {
						'op': 'cosign_set', 'args': dict(args, group=label, index=index), 'implementation': hx(result.serialize()), 'required': hx(taken)})
				if 0 != result.version or result.signer_public_key.bytes != ref_public_key('symbol', secret):
					self.ctx.fail('property', f'{note} has version {result.version} / signer {hx(result.signer_public_key.bytes)}', {
						'op': 'cosign_set', 'args': dict(args, group=label, index=index)})
				self.verify('symbol', result.signer_public_key.bytes, value, result.signature.bytes, 'accept', f'{note} does not verify for its hash under its signer', 'codec')
				for other in range(index):
					if results[other] is result:
						self.ctx.fail('property', f'{label}: calls #{other + 1} and #{index + 1} returned the same object', {
							'op': 'cosign_set', 'args': dict(args, group=label, index=index)})
			if not detached and label.startswith('cosign_transaction:'):
				# attached to the aggregate, the k cosignatures are k distinct entries at the end of its serialization
				transaction.cosignatures = list(results)
				expected = [bytes(8) + ref_public_key('symbol', secret) + ref_sign('symbol', secret, value) for secret, value in jobs]
				serialized = transaction.serialize()
				entries = [bytes(entry.serialize()) for entry in transaction.cosignatures]
				if not serialized.endswith(b''.join(expected)) or entries != expected or len(set(entries)) != len(set(secrets[:len(entries)])):
					self.ctx.fail('property', f'the aggregate with {len(jobs)} attached cosignatures does not end with one entry per cosigner', {
						'op': 'cosign_set', 'args': dict(args, group='attached-to-aggregate', index=len(jobs)),
						'implementation': hx(b''.join(entries)), 'required': hx(b''.join(expected))})
				if self.reference_hash('symbol', seed, serialized) != own_hash:
					self.ctx.notes.append('attaching cosignatures changed the reference hash of an aggregate')
				transaction.cosignatures = []

	def verify_history(self, network, public_key, pairs, expected):
		"""One Verifier object judges the (message, signature) pairs in order; a refusal in between must not change later verdicts."""
		import nacl.exceptions
		facade_class = self.impl.nem if 'nem' == network else self.impl.symbol(SYMBOL_SEEDS['testnet'])
		verifier = facade_class.Verifier(self.impl.types[2](public_key))
		for index, ((message, signature), required) in enumerate(zip(pairs, expected)):
			try:
				answer = 'accept' if verifier.verify(message, self.impl.types[3](signature)) else 'reject'
			except nacl.exceptions.RuntimeError:
				answer = 'libraryError'
			except Exception as ex:  # pylint: disable=broad-except
				answer = f'error:{type(ex).__name__}'
			self.add('verify_history', {
				'network': network, 'public_key': public_key, 'pairs': [list(pair) for pair in pairs[:index + 1]], 'expected': ','.join(expected[:index + 1]),
				'index': index}, answer, required, f'verify {network} {hx(public_key)} {hx(message)} {hx(signature)}',
				f'verdict #{index + 1} of one Verifier object (after {index} earlier verifications) is not {required}')

	# --- settle

	def settle(self):
		ctx = self.ctx
		answers = ctx.driver.ask_many([op[4] for op in self.ops]) if ctx.driver else [None] * len(self.ops)
		for (name, args, impl_answer, required, line, what), model_answer in zip(self.ops, answers):
			sample = {'op': name, 'args': args, 'implementation': impl_answer, 'required': required, 'model': model_answer}
			ctx.case((name, line), {'request': line[:300], 'implementation': impl_answer[:200], 'model': (model_answer or '')[:200]})
			ctx.count(f'op:{name}')
			if impl_answer != required:
				ctx.fail('property', f'{what}: {name} -> implementation {impl_answer[:140]}, required {required[:140]}', sample)
			elif model_answer is not None and model_answer != impl_answer:
				ctx.fail('corr', f'model and implementation differ on {name}: model {model_answer[:140]}, implementation {impl_answer[:140]}', sample)
		self.ops = []

# endregion


def _perturb_signature(checker, rng, network, public_key, message, signature, bits):
	"""Single-bit flips of R, S and the key; S + L; zero S; the zero key: all must be refused."""
	ctx = checker.ctx
	for bit in bits['R']:
		checker.verify(network, public_key, message, flip(signature, bit), 'reject', f'signature with bit {bit} of R flipped is not refused')
		ctx.count('perturb:R-bit')
	for bit in bits['S']:
		checker.verify(network, public_key, message, flip(signature, 256 + bit), 'reject', f'signature with bit {bit} of S flipped is not refused')
		ctx.count('perturb:S-bit')
	for bit in bits['key']:
		flipped = flip(public_key, bit)
		if bytes(32) != flipped:
			checker.verify(network, flipped, message, signature, 'reject', f'signature verifies under the public key with bit {bit} flipped')
			ctx.count('perturb:key-bit')
	for bit in bits['message']:
		if message:
			position = bit % (8 * len(message))
			checker.verify(network, public_key, flip(message, position), signature, 'reject', f'signature verifies for the message with bit {position} flipped')
			ctx.count('perturb:message-bit')
	scalar = int.from_bytes(signature[32:], 'little')
	for multiple in (1, 2):
		if scalar + multiple * _L < (1 << 256):
			checker.verify(
				network, public_key, message, signature[:32] + (scalar + multiple * _L).to_bytes(32, 'little'), 'reject',
				f'non-reduced S (S + {multiple}L) is accepted')
			ctx.count('perturb:S-plus-L')
	checker.verify(network, public_key, message, signature[:32] + bytes(32), 'reject', 'zero S is not refused cleanly')
	checker.verify(network, public_key, message, bytes(64), 'reject', 'all-zero signature is not refused cleanly')
	checker.verify(network, bytes(32), message, signature, 'zeroKey', 'the all-zero public key is not refused')
	ctx.count('perturb:zero-S-and-key', 3)
	# the same through the key class of the codec (what signer_public_key of a deserialized transaction is)
	checker.verify(network, public_key, message, signature, 'accept', 'a good signature is refused when the key is a codec PublicKey', 'codec')
	checker.verify(network, bytes(32), message, signature, 'zeroKey', 'the all-zero public key is not refused when it is a codec PublicKey', 'codec')
	# small-order forgery for the zero key (order 4 point): R = [r]B, S = r verifies under A = 0 wherever the key is not refused
	forged = _ref_encode(_ref_base_mul(7)) + (7).to_bytes(32, 'little')
	for key_type in ('crypto', 'codec'):
		checker.verify(network, bytes(32), message, forged, 'zeroKey', f'the all-zero public key ({key_type} class) is not refused for a forged signature', key_type)
	ctx.count('perturb:codec-key-class', 4)


def _sample_bits(rng, count, width):
	return sorted(rng.sample(range(width), min(count, width)))


def _transaction_round(checker, rng, network, all_bits=False):
	"""One key pair x one transaction; an exception escaping from the SDK on a transaction it built itself is a failure of the property
	(the signature cannot even be produced), reported with the transaction kind as the concrete input."""
	try:
		_transaction_round_body(checker, rng, network, all_bits)
	except Exception as ex:  # pylint: disable=broad-except
		import traceback
		frames = traceback.extract_tb(ex.__traceback__)
		inside_sdk = any('/symbolchain/' in frame.filename for frame in frames)
		checker.ctx.fail(
			'property' if inside_sdk else 'corr', f'{network}: the SDK raises while signing / verifying a transaction it built: {type(ex).__name__}: {ex}',
			{'network': network, 'trace': traceback.format_exc(limit=8)[-1200:]})


def _transaction_round_body(checker, rng, network, all_bits=False):
	"""One key pair x one transaction: payload, signature, verification, perturbations."""
	ctx = checker.ctx
	impl = checker.impl
	layout = checker.layout
	secret = gen_secret(rng)
	key_pair = impl.key_pair(network, secret)
	if 'nem' == network:
		seed = None
		facade = impl.nem
		transaction, shape = gen_nem_transaction(rng, facade, key_pair)
	else:
		seed = rng.choice([SYMBOL_SEEDS['mainnet'], SYMBOL_SEEDS['testnet'], rng.bytes_(32)])
		facade = impl.symbol(seed)
		transaction, shape = gen_symbol_transaction(rng, facade, key_pair)
	ctx.count(f'tx:{network}:{shape.split(":")[0]}')
	ctx.count(f'shape:{network}:{shape}')
	buffer = transaction.serialize()
	if facade.transaction_factory.deserialize(buffer).serialize() != buffer:
		ctx.notes.append(f'generated {shape} does not round-trip through deserialize (skipped)')
		return

	payload = checker.payload(network, seed, buffer, transaction)
	signature = checker.sign_transaction(network, seed, secret, buffer, transaction)
	checker.public_key(network, secret)
	checker.verify_transaction(network, seed, buffer, transaction, signature, 'accept', 'the transaction signature does not verify')
	checker.verify(network, key_pair.public_key.bytes, payload, signature, 'accept', 'the signature does not verify for the documented payload')

	# a transaction whose signer is the all-zero key (a default-constructed signer) is refused, whatever the signature
	signer_start = layout.nem_signer[0] if 'nem' == network else layout.signer[0]
	zero_signer_buffer = buffer[:signer_start] + bytes(32) + buffer[signer_start + 32:]
	zero_signer = impl.deserialize(network, seed, zero_signer_buffer)
	if zero_signer is not None:
		forged = _ref_encode(_ref_base_mul(11)) + (11).to_bytes(32, 'little')
		for candidate in (signature, forged):
			checker.verify_transaction(network, seed, zero_signer_buffer, zero_signer, candidate, 'zeroKey', 'a transaction signed by the all-zero public key is not refused')
		ctx.count('object:zero-signer', 2)

	# the signature field itself and (Symbol) the size field do not enter the payload: attaching the signature keeps it valid
	facade.transaction_factory.attach_signature(transaction, impl.types[3](signature))
	signed_buffer = transaction.serialize()
	checker.payload(network, seed, signed_buffer, transaction)
	checker.verify_transaction(network, seed, signed_buffer, transaction, signature, 'accept', 'attaching the signature changes the signed payload')

	# single-bit flips of the serialized transaction. Re-deserializing is attempted only inside fixed-layout value fields
	# (a flipped count/size/type field can send the generated deserializers into reading millions of empty elements);
	# everywhere else the flipped payload is put to the Verifier directly.
	if 'nem' == network:
		safe = [(8, 12), (16, 48), (52, 116), (116, 124), (124, 128)]  # timestamp, signer, signature, fee, deadline
		signer_start = layout.nem_signer[0]
	else:
		safe = [(8, 72), (72, 104), (112, 120), (120, 128)]  # signature, signer, fee, deadline
		if 'aggregate' in shape:
			safe.append((128, 160))  # transactions hash
		signer_start = layout.signer[0]
	safe_bits = [8 * byte + bit for first, last in safe for byte in range(first, last) for bit in range(8)]
	if all_bits:
		# every bit of the fixed-layout covered fields and of the signer key; the signature field is sampled (it is not covered)
		signature_bits = set(range(8 * (8 if 'nem' != network else 52), 8 * (72 if 'nem' != network else 116)))
		positions = sorted((set(safe_bits) - signature_bits) | set(rng.sample(sorted(signature_bits), 16)))
	else:
		positions = sorted(set(_sample_bits(rng, 8, 8 * len(signed_buffer))) | set(rng.sample(safe_bits, 8)))
		if 'nem' != network:
			start, end = layout.symbol_covered(signed_buffer)
			positions = sorted(set(positions) | {8 * rng.randrange(start, end) + rng.randrange(8) for _ in range(3)})
	for position in positions:
		flipped = flip(signed_buffer, position)
		byte = position // 8
		in_signer = signer_start <= byte < signer_start + 32
		if 'nem' == network:
			covered = layout.nem_is_covered(signed_buffer, byte)
			new_payload = layout.nem_payload(flipped)
		else:
			start, end = layout.symbol_covered(signed_buffer)
			covered = start <= byte < end
			new_payload = layout.symbol_payload(seed, flipped)
		mutated = impl.deserialize(network, seed, flipped) if any(first <= byte < last for first, last in safe) else None
		if mutated is None:
			ctx.count('txflip:payload-level')
			if new_payload != payload:
				checker.verify(
					network, key_pair.public_key.bytes, new_payload, signature, 'reject',
					f'signature verifies for the payload of the transaction with bit {position} flipped')
			continue
		changed = new_payload != payload or in_signer
		required = 'reject' if changed else 'accept'
		if in_signer and bytes(32) == flipped[signer_start:signer_start + 32]:
			required = 'zeroKey'
		ctx.count('txflip:' + ('signer' if in_signer else 'covered' if covered else 'uncovered'))
		what = (
			f'verification still succeeds with bit {position} (byte {byte}, covered) of the transaction flipped' if changed
			else f'flipping bit {position} (byte {byte}, outside the signed region) changes the verdict')
		checker.verify_transaction(network, seed, flipped, mutated, signature, required, what)

	# object-level changes outside the signed region keep the signature valid; inside they break it
	if 'nem' != network and 'aggregate' in shape:
		extra = facade.cosign_transaction(impl.key_pair('symbol', rng.bytes_(32)), transaction)
		transaction.cosignatures.append(extra)
		checker.payload(network, seed, transaction.serialize(), transaction)
		checker.verify_transaction(network, seed, transaction.serialize(), transaction, signature, 'accept', 'adding a cosignature invalidates the aggregate signature')
		transaction.cosignatures.pop()
		ctx.count('object:aggregate-extra-cosignature')
	elif 'nem' == network and shape.startswith('multisig'):
		if transaction.cosignatures:
			removed = transaction.cosignatures.pop()
			checker.payload(network, seed, transaction.serialize(), transaction)
			checker.verify_transaction(network, seed, transaction.serialize(), transaction, signature, 'accept', 'removing a cosignature invalidates the multisig signature')
			transaction.cosignatures.append(removed)
			ctx.count('object:multisig-less-cosignatures')

	count = 5
	bits = {
		'R': range(256) if all_bits else _sample_bits(rng, count, 256), 'S': range(256) if all_bits else _sample_bits(rng, count, 256),
		'key': range(256) if all_bits else _sample_bits(rng, count, 256), 'message': _sample_bits(rng, 3, 1 << 16)}
	_perturb_signature(checker, rng, network, key_pair.public_key.bytes, payload, signature, bits)

	if 'nem' != network and 'aggregate' in shape:
		for detached in (False, True):
			cosignature = checker.cosign(seed, secret, signed_buffer, transaction, detached)
			transaction_hash = facade.hash_transaction(transaction).bytes
			embedded_signature = cosignature[40:104]
			checker.verify('symbol', cosignature[8:40], transaction_hash, embedded_signature, 'accept', 'cosignature does not verify for the transaction hash')
			bit = rng.randrange(256)
			checker.verify('symbol', cosignature[8:40], flip(transaction_hash, bit), embedded_signature, 'reject', 'cosignature verifies for another hash')
			checker.verify('symbol', cosignature[8:40], transaction_hash, flip(embedded_signature, rng.randrange(512)), 'reject', 'perturbed cosignature verifies')
			ctx.count('cosign:' + ('detached' if detached else 'attached'))


def attach_check(checker, network, seed, buffer, signature):
	"""`transaction_factory.attach_signature(transaction, signature)`: the JSON it returns carries the exact 128-digit upper-case hex
	of the signature (NEM) and the hex of the serialization (Symbol: with the signature inside; NEM: the non-verifiable bytes)."""
	ctx = checker.ctx
	impl = checker.impl
	facade = impl.facade(network, seed)
	transaction = facade.transaction_factory.deserialize(buffer)
	sample = {'op': 'attach', 'args': {'network': network, 'seed': seed, 'transaction': buffer, 'signature': signature}}
	try:
		document = json.loads(facade.transaction_factory.attach_signature(transaction, impl.types[3](signature)))
	except Exception as ex:  # pylint: disable=broad-except
		ctx.fail('property', f'{network} attach_signature does not return a JSON document: {type(ex).__name__}: {ex}', sample)
		return
	current = transaction.serialize()
	ctx.case(('attach', network, buffer, signature), None)
	ctx.count(f'attach:{network}:first-signature-byte-' + ('below-0x10' if signature[0] < 0x10 else 'other'))
	if bytes(transaction.signature.bytes) != signature:
		ctx.fail('property', f'{network} attach_signature does not store the signature in the transaction', sample)
	if 'nem' == network:
		text = document.get('signature')
		if text != signature.hex().upper():
			ctx.fail('property', (
				f'nem attach_signature announces signature {text!r} ({len(text or "")} digits), not the 128-digit hex {signature.hex().upper()}'),
				dict(sample, implementation=str(text), required=signature.hex().upper()))
		if document.get('data') != checker.layout.nem_payload(current).hex().upper():
			ctx.fail('property', 'nem attach_signature: data is not the hex of the non-verifiable serialization', sample)
	else:
		if document.get('payload') != current.hex().upper():
			ctx.fail('property', 'symbol attach_signature: payload is not the hex of the serialization', sample)
		if current[checker.layout.signature[0]:checker.layout.signature[0] + 64] != signature:
			ctx.fail('property', 'symbol attach_signature: the announced payload does not carry the signature', sample)


def _attach_round(checker, rng, network):
	"""Signatures whose first byte is below 0x10 (leading zero hex digits) must occur: the deadline is varied until one does."""
	impl = checker.impl
	secret = gen_secret(rng)
	key_pair = impl.key_pair(network, secret)
	seed = None if 'nem' == network else rng.choice(list(SYMBOL_SEEDS.values()))
	facade = impl.facade(network, seed)
	transaction = (gen_nem_transaction if 'nem' == network else gen_symbol_transaction)(rng, facade, key_pair, False)[0]
	if facade.transaction_factory.deserialize(transaction.serialize()).serialize() != transaction.serialize():
		return
	low = None
	for attempt in range(96):
		Checker.apply_edit(transaction, 'deadline', (rng.randrange(1 << 30) + attempt) % (1 << 31))
		buffer = transaction.serialize()
		payload = checker.layout.nem_payload(buffer) if 'nem' == network else checker.layout.symbol_payload(seed, buffer)
		signature = facade.sign_transaction(key_pair, transaction).bytes
		if signature != ref_sign(network, secret, payload):
			break  # reported by the other rounds
		if 0 == attempt:
			attach_check(checker, network, seed, buffer, signature)
		if signature[0] < 0x10:
			low = (buffer, signature, payload)
			break
	if low is not None:
		attach_check(checker, network, seed, low[0], low[1])
		checker.verify(network, key_pair.public_key.bytes, low[2], low[1], 'accept', 'a signature with a leading zero digit does not verify')
	else:
		checker.ctx.count(f'attach:{network}:no-leading-zero-signature-found')
	# crafted signature bytes with leading zero digits (attach_signature does not verify what it attaches)
	for first in (0x00, 0x0F, 0x10, 0xFF):
		attach_check(checker, network, seed, transaction.serialize(), bytes([first]) + (bytes(63) if 0 == first else rng.bytes_(63)))


def _network_round(checker, rng):
	"""Facades built from Network OBJECTS that collide with a shipped network in name and/or identifier but carry their own
	generation hash seed (and the control cases): everything the facade signs, verifies, hashes and cosigns is over the seed that
	was PASSED IN, and `facade.network` carries that seed."""
	ctx = checker.ctx
	shipped = {'testnet': 0x98, 'mainnet': 0x68}
	cases = [
		('testnet', 0x98, rng.bytes_(32), 'same-name-same-identifier-own-seed'), ('mainnet', 0x68, rng.bytes_(32), 'same-name-same-identifier-own-seed'),
		('testnet', 0x68, rng.bytes_(32), 'same-name-other-identifier'), ('mainnet', 0x98, rng.bytes_(32), 'same-name-other-identifier'),
		(rng.choice(['private', 'custom', 'Testnet', 'testnet2']), rng.choice([0x98, 0x68]), rng.bytes_(32), 'other-name-same-identifier'),
		('devnet', rng.choice([0x98, 0x68]), rng.bytes_(32), 'other-name-same-identifier'),  # the codecs know only 0x68 / 0x98
		('testnet', 0x98, SYMBOL_SEEDS['testnet'], 'everything-equal'), ('mainnet', 0x68, SYMBOL_SEEDS['mainnet'], 'everything-equal'),
		('testnet', None, SYMBOL_SEEDS['testnet'], 'by-name'), ('mainnet', None, SYMBOL_SEEDS['mainnet'], 'by-name')]
	for name, identifier, seed, label in cases:
		with checker.with_facade(name, identifier, seed) as (facade, network):
			carried = facade.network.generation_hash_seed.bytes
			sample = {'op': 'network', 'args': {'network_name': name, 'network_identifier': -1 if identifier is None else identifier, 'seed': seed}}
			if carried != seed:
				ctx.fail('property', (
					f'SymbolFacade built from Network({name!r}, {identifier}, seed {hx(seed)[:16]}..) works with another generation hash seed '
					f'({hx(carried)[:16]}..)'), dict(sample, implementation=hx(carried), required=hx(seed)))
			if identifier is not None and (facade.network.name != name or facade.network.identifier != identifier):
				ctx.fail('property', f'SymbolFacade built from Network({name!r}, {identifier}) reports {facade.network.name!r}, {facade.network.identifier}', sample)
			ctx.count(f'network:{label}')
			ctx.count('network:facade.network-is-the-object-passed:' + ('n/a' if network is None else 'yes' if facade.network is network else 'no'))
			secret = gen_secret(rng)
			key_pair = checker.impl.key_pair('symbol', secret)
			for aggregate in (False, True):
				transaction, _ = gen_symbol_transaction(rng, facade, key_pair, aggregate=aggregate)
				buffer = transaction.serialize()
				if facade.transaction_factory.deserialize(buffer).serialize() != buffer:
					continue
				payload = checker.payload('symbol', seed, buffer, transaction)
				signature = checker.sign_transaction('symbol', seed, secret, buffer, transaction)
				checker.verify_transaction('symbol', seed, buffer, transaction, signature, 'accept', 'the transaction signature does not verify')
				checker.verify_transaction(
					'symbol', seed, buffer, transaction, ref_sign('symbol', secret, payload), 'accept',
					'the reference signature over the passed-in seed + body is not accepted')
				for other_name, other_seed in SYMBOL_SEEDS.items():
					if other_seed != seed:
						checker.verify_transaction(
							'symbol', seed, buffer, transaction, ref_sign('symbol', secret, checker.layout.symbol_payload(other_seed, buffer)), 'reject',
							f'a signature over the public {other_name} seed + body is accepted by a facade with its own seed')
				hashed = facade.hash_transaction(transaction).bytes
				if hashed != checker.reference_hash('symbol', seed, buffer):
					ctx.fail('property', f'hash_transaction of a facade built from Network({name!r}, {identifier}, own seed) is not over the passed-in seed', {
						'op': 'sign_tx', 'args': {'network': 'symbol', 'seed': seed, 'secret': secret, 'transaction': buffer, 'network_name': name,
							'network_identifier': -1 if identifier is None else identifier}, 'implementation': hx(hashed),
						'required': hx(checker.reference_hash('symbol', seed, buffer))})
				if aggregate:
					for detached in (False, True):
						checker.cosign(seed, secret, buffer, transaction, detached)
						expected_hash = checker.reference_hash('symbol', seed, buffer)
						produced = facade.cosign_transaction(key_pair, transaction, detached).serialize()
						required = bytes(8) + ref_public_key('symbol', secret) + ref_sign('symbol', secret, expected_hash) + (expected_hash if detached else b'')
						checker.add('cosign_seed', {'seed': seed, 'secret': secret, 'transaction': buffer, 'detached': detached}, 'ok ' + hx(produced),
							'ok ' + hx(required), f'cosign {hx(secret)} {hx(expected_hash)} {1 if detached else 0}',
							'cosignature is not over the transaction hash computed with the passed-in seed')
			checker.settle()


def _history_round(checker, rng, network):
	"""Objects used more than once: a KeyPair signing a sequence of messages, key pairs created in another order and used
	alternately, one facade / key pair / account signing several transactions, one Verifier judging several signatures."""
	ctx = checker.ctx
	impl = checker.impl
	secret, other = gen_secret(rng), rng.bytes_(32)
	first = rng.bytes_(rng.choice([1, 32, 33, 100]))
	second = rng.bytes_(rng.choice([1, 64, 72, 200]))
	messages = [first, second, first, first, b'', first, rng.bytes_(rng.choice([71, 72, 73, 144])), b'', second]
	checker.sign_history(network, secret, messages[:rng.choice([6, 9])])
	ctx.count(f'history:{network}:one-key-pair-many-messages')
	checker.sign_history(network, secret, [first, second, first], companions=[other])
	checker.sign_history(network, other, [second, first], companions=[secret, rng.bytes_(32)])
	ctx.count(f'history:{network}:creation-order-and-interleaving', 2)
	checker.settle()

	# one facade, one key pair object, one account object, several transactions
	key_pair = impl.key_pair(network, secret)
	if 'nem' == network:
		seed = None
		facade = impl.nem
		generated = [gen_nem_transaction(rng, facade, key_pair, multisig=flag)[0] for flag in (False, True, False, True)]
	else:
		seed = rng.choice([SYMBOL_SEEDS['mainnet'], SYMBOL_SEEDS['testnet'], rng.bytes_(32)])
		facade = impl.symbol(seed)
		generated = [gen_symbol_transaction(rng, facade, key_pair, aggregate=flag)[0] for flag in (False, True, True, False)]
	transactions = [(transaction.serialize(), transaction) for transaction in generated]
	transactions = [(buffer, transaction) for buffer, transaction in transactions if facade.transaction_factory.deserialize(buffer).serialize() == buffer]
	if len(transactions) >= 2:
		order = ['sign', 'account_sign', 'sign', 'sign', 'account_sign', 'sign']
		picks = [transactions[0], transactions[1], transactions[0], transactions[-1], transactions[0], transactions[1 % len(transactions)]]
		steps = [(kind, buffer, transaction) for kind, (buffer, transaction) in zip(order, picks)]
		if 'nem' != network:
			aggregates = [pair for pair in transactions if 'Aggregate' in type(pair[1]).__name__] or transactions[:1]
			steps[2:2] = [('cosign', *aggregates[0]), ('account_cosign', *aggregates[-1]), ('cosign_detached', *aggregates[0])]
			steps.append(('cosign', *aggregates[0]))
		checker.transaction_history(network, seed, secret, steps)
		ctx.count(f'history:{network}:one-account-many-transactions')
	checker.settle()

	# one transaction object edited in place between two uses
	if transactions:
		for buffer, made in (transactions[0], transactions[-1]):
			fresh = facade.transaction_factory.deserialize(buffer)
			edits = []
			for field in rng.sample(['deadline', 'fee', 'timestamp', 'amount', 'message', 'transactions_hash'], 6):
				if getattr(fresh, field, None) is None:
					continue
				current = getattr(fresh, field)
				if field in ('message',):
					value = rng.bytes_(rng.choice([1, 7, 40]))
				elif 'transactions_hash' == field:
					value = rng.bytes_(32)
				else:
					width = 32 if 'nem' == network and field in ('deadline', 'timestamp') else 64
					value = (getattr(current, 'value', current) + 1 + rng.randrange(1000)) % (1 << width)
				edits.append((field, value))
				if len(edits) >= 3:
					break
			# control: the signature field is not covered, an old signature must survive this edit
			edits.insert(rng.randrange(len(edits) + 1), ('signature', rng.bytes_(64)))
			checker.mutation_history(network, seed, secret, buffer, edits)
			ctx.count(f'history:{network}:one-transaction-edited-in-place')
			for field, _ in edits:
				ctx.count(f'history:{network}:edited-field:{field}')
		checker.settle()

	# several cosignatures obtained before any of them is looked at
	if 'nem' != network:
		aggregate = next((pair for pair in transactions if 'Aggregate' in type(pair[1]).__name__), None)
		if aggregate is None:
			made = gen_symbol_transaction(rng, facade, key_pair, aggregate=True)[0]
			aggregate = (made.serialize(), made)
		count = rng.choice([1, 2, 3, 4])
		cosigners = [secret] + [rng.bytes_(32) for _ in range(count - 1)]
		checker.cosign_set(seed, aggregate[0], cosigners, [rng.bytes_(32) for _ in range(rng.choice([1, 2, 3]))])
		ctx.count(f'history:symbol:cosignatures-kept:{count}-cosigners')
		checker.settle()

	# one Verifier object
	public_key = ref_public_key(network, secret)
	good_first, good_second = ref_sign(network, secret, first), ref_sign(network, secret, second)
	pairs = [
		(first, good_first), (first, flip(good_first, rng.randrange(512))), (second, good_second), (second, good_first), (first, good_first),
		(first, good_first[:32] + bytes(32)), (b'', ref_sign(network, secret, b'')), (second, good_second)]
	# (a signature made for the first message is good for the second exactly when the two messages are the same bytes)
	# the verdict required for a pair is a function of the pair: the reference signature of the message is accepted, anything
	# else with these R halves is refused (S_unique) - so coinciding random messages cannot make an expectation wrong
	expected = ['accept' if signature == ref_sign(network, secret, message) else 'reject' for message, signature in pairs]
	checker.verify_history(network, public_key, pairs, expected)
	ctx.count(f'history:{network}:verifier-verdicts:accept', expected.count('accept'))
	ctx.count(f'history:{network}:verifier-verdicts:reject', expected.count('reject'))
	ctx.count(f'history:{network}:one-verifier-many-signatures')
	checker.settle()


def _message_round(checker, rng, network):
	secret = gen_secret(rng)
	message = rng.bytes_(rng.choice([0, 1, 31, 32, 33, 63, 64, 65, 111, 112, 127, 128, 129, 200]))
	public_key = checker.public_key(network, secret)
	signature = checker.sign(network, secret, message)
	checker.ctx.count(f'message:{network}')
	if signature is None:
		return
	checker.verify(network, public_key, message, signature, 'accept', 'signature of a raw message does not verify')
	bits = {'R': _sample_bits(rng, 2, 256), 'S': _sample_bits(rng, 2, 256), 'key': _sample_bits(rng, 2, 256), 'message': _sample_bits(rng, 2, 1 << 16)}
	_perturb_signature(checker, rng, network, public_key, message, signature, bits)


def _voting_round(checker, rng, number=None):
	secret = gen_secret(rng)
	start = rng.choice([0, 1, 7, rng.boundary_int(40)])
	length = rng.choice([0, 1, 2, 3, 5])
	if number is not None and number < 3:
		# the first rounds of every run: a tree that starts at epoch 0 (key identifier 0 is a genuine identifier, not "none"), with
		# several entries, one entry and the degenerate range
		start, length = 0, [3, 1, 0][number]
	stop = start + length - 1 if start + length >= 1 else 0
	if rng.random() < 0.1:
		start, stop = rng.choice([(1 << 64, (1 << 64) + 1), (5, 1 << 64), (9, 3)])
	count = max(0, stop + 1 - start) if stop < (1 << 64) and start < (1 << 64) else 0
	child_keys = [rng.bytes_(32) for _ in range(count)]
	answer = checker.voting(secret, start, stop, child_keys)
	checker.ctx.count(f'voting:{count}-entries' if count < 4 else 'voting:4+entries')
	if answer.startswith('ok ') and count:
		tree = bytes.fromhex(answer[3:])
		root_public = tree[32:64]
		index = rng.randrange(count)
		entry = tree[80 + 96 * index:80 + 96 * (index + 1)]
		identifier = stop - index
		signed = ref_public_key('symbol', entry[:32]) + identifier.to_bytes(8, 'little')
		checker.verify('symbol', root_public, signed, entry[32:], 'accept', f'voting tree entry {index} is not certified by the root key')
		other = identifier + 1 if identifier + 1 <= stop or identifier == start else identifier - 1
		checker.verify(
			'symbol', root_public, ref_public_key('symbol', entry[:32]) + other.to_bytes(8, 'little'), entry[32:], 'reject',
			'voting tree certificate verifies for another epoch')


class _Fib:
	def __init__(self, fill):
		self.fill = fill
		self.values = (1, 2)

	def next(self):
		value = sum(self.values)
		self.values = (self.values[1], value)
		seed = value % 256
		return bytes((seed + index) % 256 for index in range(32)) if self.fill else seed.to_bytes(32, 'big')


def _vectors(checker, rng):
	"""Known-answer vectors shipped in /repo/tests/vectors (2.test-sign.json is zero-length in this tree and skipped)."""
	from .common import REPO
	ctx = checker.ctx
	for network in ('symbol', 'nem'):
		path = os.path.join(REPO, 'tests/vectors', network, 'crypto/1.test-keys.json')
		if not os.path.exists(path) or 0 == os.path.getsize(path):
			ctx.notes.append(f'{path}: missing or empty, skipped')
			continue
		with open(path, 'rt', encoding='utf8') as infile:
			vectors = json.load(infile)
		for vector in rng.sample(vectors, min(len(vectors), ctx.scale(40, 1500))):
			secret = bytes.fromhex(vector['privateKey'])
			answer = checker.impl.key_pair(network, secret).public_key.bytes
			checker.add('pubkey', {'network': network, 'secret': secret, 'vector': True}, hx(answer), vector['publicKey'].upper(),
				f'pubkey {network} {hx(secret)}', 'public key != shipped test vector')
			ctx.count(f'vector:keys:{network}')
		sign_path = os.path.join(REPO, 'tests/vectors', network, 'crypto/2.test-sign.json')
		if not os.path.exists(sign_path) or 0 == os.path.getsize(sign_path):
			ctx.count(f'vector:sign:{network}:empty-file-skipped')
		else:
			with open(sign_path, 'rt', encoding='utf8') as infile:
				vectors = json.load(infile)
			for vector in rng.sample(vectors, min(len(vectors), ctx.scale(40, 1500))):
				secret, message = bytes.fromhex(vector['privateKey']), bytes.fromhex(vector['data'])
				answer = checker.impl.key_pair(network, secret).sign(message).bytes
				checker.add('sign', {'network': network, 'secret': secret, 'message': message, 'vector': True}, 'ok ' + hx(answer),
					'ok ' + vector['signature'].upper(), f'sign {network} {hx(secret)} {hx(message)}', 'signature != shipped test vector')
				ctx.count(f'vector:sign:{network}')
	path = os.path.join(REPO, 'tests/vectors/symbol/crypto/7.test-voting-keys-generation.json')
	if os.path.exists(path) and os.path.getsize(path):
		with open(path, 'rt', encoding='utf8') as infile:
			vectors = json.load(infile)
		seeded = [
			'12F98B7CB64A6D840931A2B624FB1EACAFA2C25C3EF0018CD67E8D470A248B2F', 'B5593870940F28DAEE262B26367B69143AD85E43048D23E624F4ED8008C0427F',
			'6CFC879ABCCA78F5A4C9739852C7C643AEC3990E93BF4C6F685EB58224B16A59']
		for vector in vectors:
			count = vector['endEpoch'] + 1 - vector['startEpoch']
			if 'test_vector_3' == vector['name']:
				child_keys = [bytes.fromhex(value) for value in seeded[:count]]
			else:
				fib = _Fib('test_vector_2' == vector['name'])
				child_keys = [fib.next() for _ in range(count)]
			if len(child_keys) != count:
				continue
			answer = checker.voting(bytes.fromhex(vector['rootPrivateKey']), vector['startEpoch'], vector['endEpoch'], child_keys)
			if answer != 'ok ' + vector['expectedFileHex'].upper():
				ctx.fail('property', f'voting key tree != shipped vector {vector["name"]}', {'vector': vector['name'], 'implementation': answer[:200]})
			ctx.count('vector:voting')


def _raw_buffers(checker, rng):
	"""The data-buffer rule on raw buffers, including ones too short to hold a type (IndexError) - model vs implementation vs slices."""
	from symbolchain.facade.SymbolFacade import SymbolFacade
	layout = checker.layout
	for _ in range(checker.ctx.scale(30, 600)):
		length = rng.choice([0, 1, 107, 108, 110, 111, 112, 113, 159, 160, 161, 200])
		buffer = bytearray(rng.bytes_(length))
		if length >= 112 and rng.random() < 0.6:
			buffer[110:112] = rng.choice(sorted(layout.aggregate_types) + [0x4154, 0x4142, 0x4241 ^ 0x0100]).to_bytes(2, 'little')
		buffer = bytes(buffer)
		try:
			answer = 'ok ' + hx(SymbolFacade._transaction_data_buffer(buffer))  # pylint: disable=protected-access
		except IndexError:
			answer = 'none'
		if length < layout.type_offset + 2:
			required = 'none'
		else:
			start, end = layout.symbol_covered(buffer)
			required = 'ok ' + hx(buffer[start:end])
		checker.add('data_buffer', {'buffer': buffer}, answer, required, f'payload_symbol - {hx(buffer)}', 'data buffer != bytes after the header (aggregate: 52-byte window)')
		checker.ctx.count('raw-buffer:' + ('short' if 'none' == required else 'long'))


def run(ctx):
	rng = ctx.rng
	checker = Checker(ctx)
	_vectors(checker, rng)
	_raw_buffers(checker, rng)
	checker.settle()
	for network in ('symbol', 'nem'):
		for _ in range(ctx.scale(44, 350)):
			_transaction_round(checker, rng, network)
			checker.settle()
		for _ in range(ctx.scale(14, 200)):
			_message_round(checker, rng, network)
		checker.settle()
		for _ in range(ctx.scale(5, 60)):
			_history_round(checker, rng, network)
	for _ in range(ctx.scale(1, 8)):
		_network_round(checker, rng)
	for network in ('symbol', 'nem'):
		for _ in range(ctx.scale(3, 40)):
			_attach_round(checker, rng, network)
		checker.settle()
	for number in range(ctx.scale(8, 150)):
		_voting_round(checker, rng, number)
	checker.settle()
	if ctx.thorough:
		# every single-bit flip of transaction, signature and key for a number of signatures
		for network in ('symbol', 'nem'):
			for _ in range(10 if 'thorough' == ctx.tier else 2):
				_transaction_round(checker, rng, network, all_bits=True)
				checker.settle()


def _unhex(value):
	if isinstance(value, dict) and 'hex' in value:
		return bytes.fromhex(value['hex'])
	if isinstance(value, list):
		return [_unhex(item) for item in value]
	return value


def replay(ctx, payload):
	"""Re-evaluates the recorded operation on the implementation, the oracle and the model."""
	print(payload['what'])
	case = payload.get('case') or {}
	name = case.get('op')
	args = {key: _unhex(value) for key, value in (case.get('args') or {}).items()}
	checker = Checker(ctx)
	impl = checker.impl
	if args.get('network_name') is not None and args.get('seed') is not None:
		# the case was produced through a facade built from a Network object (or a network name): rebuild exactly that facade
		identifier = args['network_identifier']
		with checker.with_facade(args['network_name'], None if identifier < 0 else identifier, args['seed']) as (facade, _):
			carried = facade.network.generation_hash_seed.bytes
			print(f'  facade.network carries seed {hx(carried)}, passed in {hx(args["seed"])}')
			if name in ('network', 'cosign_seed'):
				print('  reproduced' if carried != args['seed'] else '  not reproduced on this tree')
				return
			_replay_dispatch(ctx, checker, payload, case, name, args)
		return
	_replay_dispatch(ctx, checker, payload, case, name, args)


def _replay_dispatch(ctx, checker, payload, case, name, args):
	impl = checker.impl
	if 'pubkey' == name:
		checker.public_key(args['network'], args['secret'])
	elif 'sign' == name:
		checker.sign(args['network'], args['secret'], args['message'])
	elif 'verify' == name:
		key_type = args['key_type'].decode('utf8') if isinstance(args.get('key_type'), bytes) else (args.get('key_type') or 'crypto')
		checker.verify(args['network'], args['public_key'], args['message'], args['signature'], case['required'], payload['what'], key_type)
	elif name in ('payload', 'sign_tx', 'verify_tx', 'cosign'):
		network = args.get('network', 'symbol')
		seed = args.get('seed')
		transaction = impl.facade(network, seed).transaction_factory.deserialize(args['transaction'])
		if 'payload' == name:
			checker.payload(network, seed, args['transaction'], transaction)
		elif 'sign_tx' == name:
			checker.sign_transaction(network, seed, args['secret'], args['transaction'], transaction)
		elif 'verify_tx' == name:
			required = case['required'][3:] if case['required'].startswith('ok ') else case['required']
			checker.verify_transaction(network, seed, args['transaction'], transaction, args['signature'], required, payload['what'])
		else:
			checker.cosign(seed, args['secret'], args['transaction'], transaction, args['detached'])
	elif 'voting' == name:
		checker.voting(args['secret'], args['start'], args['stop'], args['child_keys'])
	elif 'sign_history' == name:
		checker.sign_history(args['network'], args['secret'], args['messages'], args.get('companions') or [])
	elif 'sign_tx_history' == name:
		network, seed = args['network'], args.get('seed')
		factory = impl.facade(network, seed).transaction_factory
		steps = [(kind, buffer, factory.deserialize(buffer)) for kind, buffer in zip(args['kinds'].split(','), args['transactions'])]
		checker.transaction_history(network, seed, args['secret'], steps)
	elif 'attach' == name:
		attach_check(checker, args['network'], args.get('seed'), args['transaction'], args['signature'])
	elif 'cosign_set' == name:
		checker.cosign_set(args.get('seed'), args['transaction'], args['secrets'], args['hashes'])
	elif 'mutate' == name:
		edits = []
		for part in [item for item in (args.get('edits') or '').split(';') if item]:
			field, _, text = part.partition('=')
			edits.append((field, int(text) if field in ('deadline', 'fee', 'timestamp', 'amount') else bytes.fromhex(text)))
		checker.mutation_history(args['network'], args.get('seed'), args['secret'], args['transaction'], edits)
	elif 'verify_history' == name:
		checker.verify_history(args['network'], args['public_key'], [tuple(pair) for pair in args['pairs']], args['expected'].split(','))
	else:
		run(ctx)
		return
	checker.settle()
	for failure in ctx.failures:
		print(f'  reproduced: {failure.what[:300]}')
	if not ctx.failures:
		print('  not reproduced on this tree')


MANIFEST = {
	'level_text': (
		'Lean theorems over the models, for all keys, messages, transactions, hashes and any abelian group with L*B = 0: the signing payload '
		'is the seed plus the bytes after the 108-byte header (52-byte window for the two aggregate types) and ignores header and aggregate '
		'tail (payload_symbol_def, payload_ignores_header, payload_aggregate_ignores_tail, payload_injective_on_covered); the NEM payload is '
		'the serialization minus the signature field (payload_nem_def, payload_nem_multisig); sign is the RFC 8032 computation (sign_def) '
		'and what it returns verifies (verify_sign), is reduced (sign_S_reduced); zero/non-reduced S and the zero key are refused '
		'(verify_rejects_zero_S, verify_rejects_unreduced_S, zero_public_key_refused); with B of order L and injective encoding the S half '
		'is unique (S_unique) and a second accepted key/message yields a challenge-hash relation (forgery_yields_collision, '
		'forgery_same_key_collision); cosignature and voting-tree corollaries. Constants are re-read from the facades and schemas each run '
		'(source_constants_tied); the models are tied to the SDK by differential execution with a Lean edwards25519 and native Lean hashes, '
		'and the property is evaluated directly on the implementation against an independent RFC 8032 reference and schema-offset slicing.'),
	'level_note': (
		'partial: unforgeability is a reduction, not a theorem; the edwards25519 group laws, order of B and injectivity of point encoding are '
		'hypotheses; hashes are parameters; in this sandbox the Symbol signer/verifier and the libsodium calls behind the NEM one are '
		'/verif/shims stand-ins; bit-flip refusal on the implementation is sampled (all 512+ bits for some signatures in the thorough tier).'),
	'technique': 'Lean 4 theorems over hand-written models + differential correspondence and direct property evaluation on the Python SDK',
}

"""C09 - transaction hashes, Merkle roots, audit paths and Patricia state proofs match their definitions.

Correspondence: Model/Sdk/{Merkle,Patricia,TxHash}.lean (through the driver, H := native Lean SHA3-256 / Keccak-256)
against symbolchain.symbol.Merkle, facade.SymbolFacade, facade.NemFacade, BufferReader; direct evaluation of the
property on the implementation against an independent statement of the definitions written here with hashlib
(and a 30-line Keccak-f[1600] for Keccak-256, self-checked against hashlib.sha3_256 on every run).

The model's functions are pure, the implementation's objects are mutable: besides single calls the run plays *histories* (use an
object, edit it in place, use it again: tree nodes, MerkleHashBuilder, prove_merkle arguments, transactions) and requires the last
answer to be the definition's answer for the current contents (= fresh objects with those contents = the model).
"""
import hashlib
import importlib
import os

from .common import hx

RULE = (
	'Merkle: leaf counts 0..130, 255..258, 1023..1025, 4095..4097 (thorough: plus random counts up to 5000) with random 32-byte leaves '
	'from VERIF_SEED; 32 positions per count incl. first/last/neighbours (thorough: every position); for each position the honest audit '
	'path and single-bit corruptions of leaf, path element, side flag and root, a dropped and an extra path element. Patricia: canonical '
	'trees over <= 4 keys of 2 nibbles from the alphabet {0,1,F} with values from a pool of 2 (thorough: all of them; quick: all with <= 2 keys '
	'and a sample of the rest), random canonical trees over keys of 4, 6 and 64 nibbles (thorough: up to 6 keys), random non-canonical trees; '
	'for each tree every present key, every absent key of the universe, every truncation of the honest proof and single corruptions (state '
	'hash, roots, node path bit, link bit, leaf value, key nibble, tested value, dropped node), the wire form, its truncations and byte '
	'replacements, random malformed proofs and buffers. Subcache roots: 1-9 per proof, zero roots (empty subcaches) often several times, '
	'the tree root at one to three positions, equal non-zero roots; the state hash is taken over the list as given, forged ones over the '
	'de-duplicated / sorted / reversed / shuffled / truncated / extended list (or those lists under the genuine state hash) must be '
	'STATE_HASH_DOES_NOT_MATCH_ROOTS. The verdict expected is the one the tree implies (positions known by construction, '
	'never found by hash search). Transactions: every descriptor of '
	'/repo/sdk/python/examples/descriptors (Symbol and NEM) plus aggregates (complete/bonded, v1-v2, 0-3 cosignatures, 0-5 embedded), '
	'signed; single-bit flips at every field class (covered/uncovered) of the serialized bytes. Histories (state carried between calls): '
	'Patricia node objects proved or hashed once (also for another key, also deserialized ones), then one node edited in place (leaf value, '
	'link flipped/pruned/added, two links swapped, path nibble) and hashed/proved again, edit-and-restore, no-edit repeats; MerkleHashBuilder '
	'update/final/update/final(/final); prove_merkle arguments changed in place between calls (part replaced, Hash256.bytes of part/leaf/root '
	'overwritten, part deleted, flag flipped, change undone); transactions of every catalogue descriptor hashed, a field edited in place '
	'(deadline, fee, signature object or its bytes, cosignature popped/duplicated, transactions hash) and hashed again. A case is distinct by its '
	'(operation, arguments) tuple; non-trivial = it reached the implementation and the oracle (and the model when the driver runs).')
TRUSTED_BASE = [
	'Lean 4.33 kernel; axioms of the property theorems: subset of {propext, Classical.choice, Quot.sound}',
	'hand-written models SymbolVerif/Model/Sdk/{Merkle,Patricia,TxHash}.lean, tied to the code by this differential run and by the '
	'constants re-read from SymbolFacade.py / sc/__init__.py / CryptoTypes.py on every run (source_constants_tied)',
	'SHA3-256 and Keccak-256 are parameters of every theorem (the only law used is a fixed digest length, an explicit hypothesis of '
	'prove_sound_or_collision); the driver instantiates them with SymbolVerif/Model/Hash/Keccak.lean (unverified, compared with '
	'hashlib / the harness Keccak on every case)',
	'soundness of audit paths and Patricia proofs is a reduction: a second verifying proof yields an explicit H-collision; collision '
	'resistance itself is not proved',
	'shims (pure-Python stand-ins for sha3, cryptography, nacl, ripemd) are executed by the facades; the hash oracle of this harness does not use them',
	'the wire writer for Patricia nodes is the harness\'s/model\'s inverse of deserialize_patricia_tree_nodes (the SDK ships no writer)',
]
ASSUMPTIONS = [
	'Python str/hex formatting of nibbles is injective (one upper-case hex character per nibble), as in the model\'s nibble lists',
	'hashlib.sha3_256().update(a); update(b) equals hashing a+b',
	'Hash256 objects are truthy (no __bool__/__len__ on ByteArray), so `if child_hash` only tests for None',
	'serialized transactions handed to the model are exactly transaction.serialize() of the objects hashed by the facades',
	'the models are pure functions of their arguments; that the implementation answers for the current contents of mutable objects is '
	'exercised by the histories (finite sample of edit kinds), not proved',
]

EQUAL_SIBLING_SIGNATURE = 'prove_patricia_merkle:links.index:equal-sibling-hashes'

# region independent oracle: hashes


def sha3(data):
	return hashlib.sha3_256(data).digest()


_RC = [
	0x0000000000000001, 0x0000000000008082, 0x800000000000808A, 0x8000000080008000, 0x000000000000808B, 0x0000000080000001,
	0x8000000080008081, 0x8000000000008009, 0x000000000000008A, 0x0000000000000088, 0x0000000080008009, 0x000000008000000A,
	0x000000008000808B, 0x800000000000008B, 0x8000000000008089, 0x8000000000008003, 0x8000000000008002, 0x8000000000000080,
	0x000000000000800A, 0x800000008000000A, 0x8000000080008081, 0x8000000000008080, 0x0000000080000001, 0x8000000080008008]
_ROT = [[0, 36, 3, 41, 18], [1, 44, 10, 45, 2], [62, 6, 43, 15, 61], [28, 55, 25, 21, 56], [27, 20, 39, 8, 14]]
_M64 = (1 << 64) - 1


def _rol(value, shift):
	return ((value << shift) | (value >> (64 - shift))) & _M64 if shift else value


def _keccak_f(lanes):
	for rc in _RC:
		c = [lanes[x][0] ^ lanes[x][1] ^ lanes[x][2] ^ lanes[x][3] ^ lanes[x][4] for x in range(5)]
		d = [c[(x - 1) % 5] ^ _rol(c[(x + 1) % 5], 1) for x in range(5)]
		lanes = [[lanes[x][y] ^ d[x] for y in range(5)] for x in range(5)]
		b = [[0] * 5 for _ in range(5)]
		for x in range(5):
			for y in range(5):
				b[y][(2 * x + 3 * y) % 5] = _rol(lanes[x][y], _ROT[x][y])
		lanes = [[b[x][y] ^ ((~b[(x + 1) % 5][y]) & b[(x + 2) % 5][y]) for y in range(5)] for x in range(5)]
		lanes[0][0] ^= rc
	return lanes


def sponge256(data, suffix):
	rate = 136
	padded = bytearray(data) + bytes([suffix])
	padded += bytes(-len(padded) % rate)
	padded[-1] |= 0x80
	lanes = [[0] * 5 for _ in range(5)]
	for start in range(0, len(padded), rate):
		block = padded[start:start + rate]
		for index in range(rate // 8):
			lanes[index % 5][index // 5] ^= int.from_bytes(block[8 * index:8 * index + 8], 'little')
		lanes = _keccak_f(lanes)
	return b''.join(lanes[index % 5][index // 5].to_bytes(8, 'little') for index in range(4))


def keccak256(data):
	return sponge256(data, 0x01)


# endregion

# region independent oracle: merkle


def o_levels(leaves):
	levels = [list(leaves)]
	while len(levels[-1]) > 1:
		level = levels[-1]
		if len(level) % 2:
			level = level + [level[-1]]
		levels.append([sha3(level[index] + level[index + 1]) for index in range(0, len(level), 2)])
	return levels


def o_root(leaves):
	return bytes(32) if not leaves else o_levels(leaves)[-1][0]


def o_path(levels, position):
	"""honest audit path leaf -> root: (sibling hash, sibling-is-left)"""
	path = []
	for level in levels[:-1]:
		if position % 2:
			path.append((level[position - 1], True))
		else:
			path.append((level[position + 1] if position + 1 < len(level) else level[position], False))
		position //= 2
	return path


def o_fold(leaf, path):
	working = leaf
	for part, is_left in path:
		working = sha3(part + working) if is_left else sha3(working + part)
	return working


def flip(data, bit):
	out = bytearray(data)
	out[bit // 8] ^= 1 << (bit % 8)
	return bytes(out)


def fmt_hashes(hashes):
	return ','.join(hx(item) for item in hashes) if hashes else '-'


def fmt_path(path):
	return ','.join(f'{hx(part)}:{"L" if is_left else "R"}' for part, is_left in path) if path else '-'


# endregion

# region independent oracle: patricia trees
# tree := None | ('L', nibbles tuple, value bytes) | ('B', nibbles tuple, [16 subtrees])


def o_encode(nibbles, is_leaf):
	first = 0x20 if is_leaf else 0x00
	rest = list(nibbles)
	if len(rest) % 2:
		first |= 0x10 | rest.pop(0)
	return bytes([first] + [16 * rest[index] + rest[index + 1] for index in range(0, len(rest), 2)])


def o_tree_hash(tree):
	if tree is None:
		return None
	if 'L' == tree[0]:
		return sha3(o_encode(tree[1], True) + tree[2])
	return sha3(o_encode(tree[1], False) + b''.join(o_tree_hash(sub) or bytes(32) for sub in tree[2]))


def pack(nibbles):
	padded = list(nibbles) + ([0] if len(nibbles) % 2 else [])
	return bytes(16 * padded[index] + padded[index + 1] for index in range(0, len(padded), 2))


def o_node(tree):
	"""wire-level node of a tree node: ('L', pathbytes, size, value) | ('B', pathbytes, size, [links])"""
	if 'L' == tree[0]:
		return ('L', pack(tree[1]), len(tree[1]), tree[2])
	return ('B', pack(tree[1]), len(tree[1]), [o_tree_hash(sub) for sub in tree[2]])


def build_canonical(items):
	"""compact Patricia tree of distinct equal-length keys (nibble tuples) -> values"""
	if not items:
		return None
	if 1 == len(items):
		return ('L', tuple(items[0][0]), items[0][1])
	common = 0
	while all(len(key) > common for key, _ in items) and 1 == len({key[common] for key, _ in items}):
		common += 1
	groups = [[] for _ in range(16)]
	for key, value in items:
		groups[key[common]].append((key[common + 1:], value))
	return ('B', tuple(items[0][0][:common]), [build_canonical(group) for group in groups])


def o_lookup(tree, key):
	"""walks the tree along key. Returns (visited tree nodes root first, steps) where steps[i] = (nibble chosen at node i or None,
	the slot `links.index` would report for that child: the first slot carrying the same hash)."""
	visited = []
	steps = []
	remaining = list(key)
	while tree is not None:
		visited.append(tree)
		steps.append((None, None))
		if 'L' == tree[0]:
			break
		path = list(tree[1])
		if remaining[:len(path)] != path or len(remaining) == len(path):
			break
		nibble = remaining[len(path)]
		sub = tree[2][nibble]
		if sub is None:
			break
		chosen = o_tree_hash(sub)
		first = next(other for other in range(16) if tree[2][other] is not None and o_tree_hash(tree[2][other]) == chosen)
		steps[-1] = (nibble, first)
		remaining = remaining[len(path) + 1:]
		tree = sub
	return visited, steps


def o_trace(visited, steps, cut, by_index=False):
	"""the nibble string spelled by the first `cut` visited nodes and the links between them: branch path, then the nibble of the
	link taken. by_index reproduces the recorded `links.index` defect of the verifier (slot = first one carrying the same hash) and
	is used only to tell that recorded finding from a fresh failure."""
	trace = []
	for index in range(cut):
		trace += list(visited[index][1])
		if index + 1 < cut:
			trace.append(steps[index][1 if by_index else 0])
	return trace


VERDICTS = {
	'VALID_POSITIVE': 0x0001, 'VALID_NEGATIVE': 0x0002, 'INCONCLUSIVE': 0x4001, 'STATE_HASH_DOES_NOT_MATCH_ROOTS': 0x8001,
	'UNANCHORED_PATH_TREE': 0x8002, 'LEAF_VALUE_MISMATCH': 0x8003, 'UNLINKED_NODE': 0x8004, 'PATH_MISMATCH': 0x8005}


def o_implied(visited, trace, key, value):
	"""the verdict the tree implies for an intact proof consisting of `visited` (a prefix of a lookup), or 'raise'."""
	last = visited[-1]
	key = list(key)
	if 'L' == last[0]:
		if value != last[2]:
			return VERDICTS['LEAF_VALUE_MISMATCH']
		return VERDICTS['VALID_POSITIVE'] if trace == key else VERDICTS['PATH_MISMATCH']
	if key[:len(trace)] != trace:
		return VERDICTS['PATH_MISMATCH']
	if len(trace) >= len(key):
		return 'raise'
	return VERDICTS['INCONCLUSIVE'] if last[2][key[len(trace)]] is not None else VERDICTS['VALID_NEGATIVE']


def fmt_node(node):
	if 'L' == node[0]:
		return f'L:{hx(node[1])}:{node[2]}:{hx(node[3])}'
	links = '/'.join('_' if link is None else hx(link) for link in node[3]) if node[3] else '~'
	return f'B:{hx(node[1])}:{node[2]}:{links}'


def fmt_nodes(nodes):
	return ';'.join(fmt_node(node) for node in nodes) if nodes else '-'


def fmt_nibbles(nibbles):
	return ''.join(f'{nibble:X}' for nibble in nibbles) if nibbles else '-'


def fmt_tree(tree):
	if tree is None:
		return 'E'
	if 'L' == tree[0]:
		return f'L:{fmt_nibbles(tree[1])}:{hx(tree[2])}'
	return ','.join([f'B:{fmt_nibbles(tree[1])}'] + [fmt_tree(sub) for sub in tree[2]])


def wire(nodes):
	out = bytearray()
	for node in nodes:
		if 'L' == node[0]:
			out += bytes([0xFF, node[2] & 0xFF]) + node[1] + node[3]
		else:
			mask = sum(1 << index for index, link in enumerate(node[3]) if link is not None)
			out += bytes([0x00, node[2] & 0xFF]) + node[1] + mask.to_bytes(2, 'little') + b''.join(link for link in node[3] if link is not None)
	return bytes(out)


def o_deserialize(buffer):
	"""independent reading of the wire format: ('ok', nodes) | ('valueError',) | ('diverges',) (reader ran past the end inside a branch)"""
	nodes = []
	offset = 0
	size = len(buffer)
	while offset != size:
		if offset > size:
			return ('diverges',)
		marker = buffer[offset]
		offset += 1
		if marker not in (0x00, 0xFF):
			return ('valueError',)
		nibbles = buffer[offset] if offset < size else 0
		offset += 1
		count = (nibbles + 1) // 2
		path = buffer[offset:offset + count] if offset < size else b''
		offset += count
		if 0xFF == marker:
			value = buffer[offset:offset + 32] if offset <= size else b''
			if 32 != len(value):
				return ('valueError',)
			offset += 32
			nodes.append(('L', path, nibbles, value))
		else:
			mask = int.from_bytes(buffer[offset:offset + 2], 'little') if offset <= size else 0
			offset += 2
			links = [None] * 16
			for index in range(16):
				if mask & (1 << index):
					link = buffer[offset:offset + 32] if offset <= size else b''
					if 32 != len(link):
						return ('valueError',)
					offset += 32
					links[index] = link
			nodes.append(('B', path, nibbles, links))
	return ('ok', nodes)


class Hang(Exception):
	pass


class GuardedBuffer(bytes):
	"""bytes whose slicing is counted, so that a reader loop that never ends is cut off deterministically"""

	def __getitem__(self, key):
		self.reads = getattr(self, 'reads', 0) + 1
		if self.reads > 8 * len(self) + 400:
			raise Hang()
		return bytes.__getitem__(self, key)


# endregion

# region translator


def translate(_ctx):
	"""Generated/C09Consts.lean: header/window constants and aggregate type codes of the working tree.

	Read off the behaviour of SymbolFacade.extract_signing_payload on crafted buffers (see harness/c07.py) and off the values of
	public names (translate/pyruntime.py) - not off the spelling of the source, so that renaming a local or naming a constant
	does not break the tie."""
	from translate import pyconst, pyruntime

	from . import c07
	from .common import LEAN, REPO, write_if_changed
	problems = []
	constants = {}
	type_offset_delta = None
	codes = []
	try:
		facade = c07._facade_constants(REPO)  # pylint: disable=protected-access
		constants = {name: facade[name] for name in ('TRANSACTION_HEADER_SIZE', 'AGGREGATE_HASHED_SIZE')}
		type_offset_delta = facade['type_offset_delta']
		names = facade['aggregate_type_names']
		values = pyruntime.values(REPO, 'symbolchain.sc', [f'TransactionType.{name}.value' for name in names])
		codes = [values[f'TransactionType.{name}.value'] for name in names]
	except Exception as ex:  # pylint: disable=broad-except
		problems.append(f'translator: the framing constants cannot be read off SymbolFacade: {type(ex).__name__}: {ex}')
	sizes = {'Hash256': None, 'Signature': None, 'PublicKey': None}
	try:
		values = pyruntime.values(REPO, 'symbolchain.CryptoTypes', [f'{name}.SIZE' for name in sizes])
		sizes = {name: values[f'{name}.SIZE'] for name in sizes}
	except ValueError as ex:
		problems.append(f'translator: {ex}')
	# the window kept for an aggregate starts at the header and ends HASHED bytes later: that is how the two constants were read
	window_start = window_end_delta = 0
	text = (
		'/- generated by harness/c09.py from sdk/python/symbolchain/{facade/SymbolFacade,CryptoTypes,sc/__init__}.py; do not edit -/\n'
		'namespace SymbolVerif.Generated.C09\n'
		f'def TRANSACTION_HEADER_SIZE : Nat := {constants.get("TRANSACTION_HEADER_SIZE", 0)}\n'
		f'def AGGREGATE_HASHED_SIZE : Nat := {constants.get("AGGREGATE_HASHED_SIZE", 0)}\n'
		f'def typeOffsetDelta : Nat := {type_offset_delta or 0}\n'
		f'def windowStartDelta : Nat := {window_start or 0}\n'
		f'def windowEndDelta : Nat := {window_end_delta or 0}\n'
		f'def aggregateTypeCodes : List Nat := {pyconst.lean_nat_list(codes)}\n'
		f'def hash256Size : Nat := {sizes["Hash256"] or 0}\n'
		f'def signatureSize : Nat := {sizes["Signature"] or 0}\n'
		f'def publicKeySize : Nat := {sizes["PublicKey"] or 0}\n'
		'end SymbolVerif.Generated.C09\n')
	write_if_changed(os.path.join(LEAN, 'SymbolVerif', 'Generated', 'C09Consts.lean'), text)
	return problems


# endregion


class Ops:
	"""collects (driver line, implementation answer, direct verdict, case key, what) and settles them in batches"""

	def __init__(self, ctx):
		self.ctx = ctx
		self.items = []

	def add(self, line, impl_answer, direct_ok, what, signature=None, corr_only=False, history=None):
		self.items.append((line, impl_answer, direct_ok, what, signature, corr_only, history))

	def settle(self):
		ctx = self.ctx
		lines = [item[0] for item in self.items]
		answers = ask_batched(ctx.driver, lines) if ctx.driver else [None] * len(lines)
		for (line, impl_answer, direct_ok, what, signature, _, history), model_answer in zip(self.items, answers):
			short = line if len(line) < 700 else line[:340] + ' ... ' + line[-340:]
			sample = {'request': short, 'implementation': impl_answer, 'model': model_answer}
			ctx.case(line if history is None else (line, repr(history)), sample)
			if history is not None and direct_ok is False:
				ctx.fail('property', f'{what}: implementation gives {impl_answer} on {short}', {
					'request': line, 'implementation': impl_answer, 'model': model_answer, 'history': history})
				continue
			if direct_ok is False:
				if signature is not None:
					# a recorded finding: registered twice per signature, counted beyond that (the failure list is bounded)
					ctx.count(f'known-finding:{signature}')
					if ctx.counters[f'known-finding:{signature}'] > 2:
						if model_answer is not None and model_answer != impl_answer:
							ctx.fail('corr', f'model and implementation differ on {short}: model {model_answer}, implementation {impl_answer}', sample)
						continue
				ctx.fail('property', f'{what}: implementation gives {impl_answer} on {short}', {
					'request': line, 'implementation': impl_answer, 'model': model_answer}, signature)
			elif model_answer is not None and impl_answer is not None and model_answer != impl_answer:
				ctx.fail('corr', f'model and implementation differ on {short}: model {model_answer}, implementation {impl_answer}', {
					'request': line, 'implementation': impl_answer, 'model': model_answer})
		self.items = []


def ask_batched(driver, lines):
	"""pipelines requests without ever having more than a pipe buffer of unread input/output in flight"""
	answers = []
	batch = []
	volume = 0
	for line in lines:
		if batch and (volume + len(line) > 24000 or len(batch) >= 200):
			answers += driver.ask_many(batch)
			batch, volume = [], 0
		batch.append(line)
		volume += len(line) + 1
	if batch:
		answers += driver.ask_many(batch)
	return answers


def attempt(function, *args):
	try:
		return ('ok', function(*args))
	except (IndexError, AttributeError, ValueError, TypeError, KeyError, AssertionError, OverflowError) as ex:
		return ('raise', type(ex).__name__)


def attempt_bounded(function, *args, seconds=1.0):
	"""attempt() with a wall-clock bound: the generated codecs may loop (and allocate) for a very long time on a flipped count field;
	such inputs are skipped, never judged"""
	import signal

	def on_alarm(_signum, _frame):
		raise Hang()
	previous = signal.signal(signal.SIGALRM, on_alarm)
	signal.setitimer(signal.ITIMER_REAL, seconds)
	try:
		return attempt(function, *args)
	except (Hang, MemoryError):
		return ('raise', 'Hang')
	finally:
		signal.setitimer(signal.ITIMER_REAL, 0)
		signal.signal(signal.SIGALRM, previous)


# region merkle


def merkle_counts(ctx):
	counts = list(range(0, 131)) + [255, 256, 257, 258, 1023, 1024, 1025, 4095, 4096, 4097]
	if ctx.thorough:
		counts += [ctx.rng.randrange(131, 5001) for _ in range(12)] + [2047, 2048, 2049, 5000]
	return counts


def run_merkle(ctx):
	# pylint: disable=too-many-locals,too-many-statements,too-many-branches
	from symbolchain.CryptoTypes import Hash256
	from symbolchain.symbol.Merkle import MerkleHashBuilder, MerklePart, prove_merkle

	rng = ctx.rng
	ops = Ops(ctx)

	def impl_prove(leaf, path, root):
		return prove_merkle(Hash256(leaf), [MerklePart(Hash256(part), is_left) for part, is_left in path], Hash256(root))

	for count in merkle_counts(ctx):
		leaves = [rng.bytes_(32) for _ in range(count)]
		if count >= 2 and rng.random() < 0.2:
			leaves[rng.randrange(count)] = leaves[rng.randrange(count)]  # repeated leaves are legal
		builder = MerkleHashBuilder()
		for leaf in leaves:
			builder.update(Hash256(leaf))
		impl_root = builder.final().bytes
		levels = o_levels(leaves) if leaves else [[]]
		spec_root = o_root(leaves)
		ctx.count('merkle:count-' + ('0' if 0 == count else '1' if 1 == count else 'odd' if count % 2 else 'even'))
		what = f'Merkle root of {count} leaves is not the pairwise SHA3-256 tree with last-node duplication'
		big = count > 1100
		ops.add(f'merkle_build {fmt_hashes(leaves)}', hx(impl_root), impl_root == spec_root, what)
		if not big or ctx.thorough:
			ops.add(f'merkle_root {fmt_hashes(leaves)}', hx(impl_root), None, what)
		if count <= 40:
			ops.add(f'merkle_state {fmt_hashes(leaves)}', fmt_hashes(builder.hashes), None, 'state of the builder after final()')
		if 0 == count:
			continue

		if ctx.thorough or count <= 32:
			positions = list(range(count))
		else:
			positions = sorted({0, 1, 2, count - 1, count - 2, count - 3, count // 2, count // 2 + 1} | {rng.randrange(count) for _ in range(24)})
			positions = [position for position in positions if 0 <= position < count]
		for order, position in enumerate(positions):
			leaf = leaves[position]
			path = o_path(levels, position)
			honest = impl_prove(leaf, path, impl_root)
			to_driver = ctx.thorough or order < 32
			line = f'prove_merkle {hx(leaf)} {fmt_path(path)} {hx(impl_root)}'
			what = f'honest audit path of leaf {position} of {count} does not verify'
			if to_driver:
				ops.add(line, 'true' if honest else 'false', honest is True, what)
			else:
				ctx.case(line)
				if honest is not True:
					ctx.fail('property', what, {'request': line})
			ctx.count('merkle:honest-path')
			if count <= (1100 if ctx.thorough else 258) and (order < 6 or ctx.thorough and count <= 130):
				ops.add(f'audit_path {fmt_hashes(leaves)} {position}', fmt_path(path), None, 'audit path construction', corr_only=True)

			# single-bit corruptions
			corrupt = order < (32 if ctx.thorough else 10) or (ctx.thorough and count <= 130)
			if not corrupt:
				continue
			variants = [('leaf', flip(leaf, rng.randrange(256)), path, impl_root), ('root', leaf, path, flip(impl_root, rng.randrange(256)))]
			if path:
				index = rng.randrange(len(path))
				variants.append(('path-element', leaf, path[:index] + [(flip(path[index][0], rng.randrange(256)), path[index][1])] + path[index + 1:], impl_root))
				index = rng.randrange(len(path))
				variants.append(('side-flag', leaf, path[:index] + [(path[index][0], not path[index][1])] + path[index + 1:], impl_root))
				variants.append(('dropped-element', leaf, path[:-1], impl_root))
				variants.append(('extra-element', leaf, path + [(rng.bytes_(32), rng.random() < 0.5)], impl_root))
			for kind, leaf2, path2, root2 in variants:
				verdict = impl_prove(leaf2, path2, root2)
				# what the definition says: the fold of the (corrupted) path equals the (corrupted) root
				expected = o_fold(leaf2, path2) == root2
				# a flipped side flag is immaterial exactly where the sibling is the node itself (duplicated last node)
				must_fail = 'side-flag' != kind or o_fold(leaf2, path2) != o_fold(leaf, path)
				direct = verdict == expected and (not must_fail or verdict is False)
				ops.add(
					f'prove_merkle {hx(leaf2)} {fmt_path(path2)} {hx(root2)}', 'true' if verdict else 'false', direct,
					f'audit path with corrupted {kind} (leaf {position} of {count}) verifies / verdict differs from the fold')
				ctx.count(f'merkle:corrupt-{kind}:' + ('accepted' if verdict else 'rejected'))
		if len(ops.items) > 3000:
			ops.settle()
	ops.settle()


# endregion

# region patricia


class ByteKey:
	"""stand-in for an encoded key of any byte length (the verifier only uses `.bytes` and `str()`)"""

	def __init__(self, data):
		self.bytes = data

	def __str__(self):
		return self.bytes.hex().upper()


def key_nibbles(data):
	return [nibble for byte in data for nibble in (byte >> 4, byte & 0xF)]


def gen_trees(ctx):
	"""yields (label, tree, universe of key nibble-tuples to try)"""
	rng = ctx.rng
	value_pool = [hashlib.sha3_256(bytes([index])).digest() for index in range(2)]
	# exhaustive: keys of 2 nibbles over {0, 1, F}, <= 4 keys, values from a pool of 2 (equal values make equal sibling hashes possible)
	alphabet = [0, 1, 15]
	universe = [(a, b) for a in alphabet for b in alphabet]
	import itertools
	subsets = []
	for size in range(1, 5):
		subsets += list(itertools.combinations(universe, size))
	if not ctx.thorough:
		rng.shuffle(subsets)
		subsets = [subset for subset in subsets if len(subset) <= 2] + [subset for subset in subsets if len(subset) > 2][:60]
	for subset in subsets:
		assignments = list(itertools.product(range(2), repeat=len(subset))) if ctx.thorough or len(subset) <= 2 else [tuple(rng.randrange(2) for _ in subset), (0,) * len(subset)]
		for assignment in assignments:
			items = [(key, value_pool[choice]) for key, choice in zip(subset, assignment)]
			yield 'exhaustive-2', build_canonical(items), universe + [(7, 7), (0, 7)]
	# random canonical trees over longer keys
	for length, trees in ((4, ctx.scale(40, 600)), (6, ctx.scale(40, 600)), (64, ctx.scale(25, 300))):
		for _ in range(trees):
			letters = rng.sample(range(16), rng.choice([2, 2, 3, 16]))
			keys = {tuple(rng.choice(letters) for _ in range(length)) for _ in range(rng.choice([1, 2, 3, 4, 4, 6 if ctx.thorough else 4]))}
			if length >= 6 and rng.random() < 0.5:  # long shared prefixes
				prefix = tuple(rng.choice(letters) for _ in range(rng.randrange(1, length - 1)))
				keys = {(prefix + key)[:length] for key in keys}
			distinct_values = rng.random() < 0.7
			items = [(key, rng.bytes_(32) if distinct_values else rng.choice(value_pool)) for key in sorted(keys)]
			tree = build_canonical(items)
			tries = set(keys)
			for key in list(keys):
				for _ in range(2):
					position = rng.randrange(length)
					tries.add(key[:position] + (rng.randrange(16),) + key[position + 1:])
			tries.add(tuple(rng.randrange(16) for _ in range(length)))
			yield f'canonical-{length}', tree, sorted(tries)
	# non-canonical trees (single-child branches, branches under empty paths, leaves of any depth)
	for _ in range(ctx.scale(40, 600)):
		def random_tree(depth):
			if depth <= 0 or rng.random() < 0.35:
				return ('L', tuple(rng.randrange(16) for _ in range(rng.randrange(0, 4))), rng.choice(value_pool + [rng.bytes_(32)]))
			children = [None] * 16
			for nibble in rng.sample(range(16), rng.choice([1, 2, 2, 3])):
				children[nibble] = random_tree(depth - 1)
			return ('B', tuple(rng.randrange(16) for _ in range(rng.randrange(0, 3))), children)
		tree = random_tree(rng.randrange(1, 4))
		tries = set()

		def leaf_keys(sub, prefix):
			if 'L' == sub[0]:
				tries.add(tuple(prefix + list(sub[1])))
				return
			for nibble, below in enumerate(sub[2]):
				if below is not None:
					leaf_keys(below, prefix + list(sub[1]) + [nibble])
		leaf_keys(tree, [])
		for key in list(tries):
			if key:
				position = rng.randrange(len(key))
				tries.add(key[:position] + (rng.randrange(16),) + key[position + 1:])
			tries.add(key + (rng.randrange(16),))
			tries.add(key[:-1])
		tries = [key for key in tries if 0 == len(key) % 2]
		yield 'non-canonical', tree, sorted(tries)


def gen_roots(rng, root_hash):
	"""subcache merkle roots as a block header carries them: 1-9 hashes, empty subcaches as zero hashes (often several), the proven
	tree's root at one or several positions, equal non-zero roots"""
	count = rng.choice([1, 2, 3, 4, 5, 6, 7, 8, 9, 9])
	pool = [rng.bytes_(32) for _ in range(rng.choice([1, 2, 3]))]
	zero_rate = rng.choice([0.0, 0.3, 0.6])
	roots = [bytes(32) if rng.random() < zero_rate else rng.choice(pool) if rng.random() < 0.5 else rng.bytes_(32) for _ in range(count)]
	for _ in range(rng.choice([1, 1, 1, 2, 3])):
		roots[rng.randrange(count)] = root_hash
	return roots


def forged_root_lists(rng, roots):
	"""(label, other list) pairs: the same roots de-duplicated, re-ordered, truncated, with one more zero root"""
	out = [('deduplicated', list(dict.fromkeys(roots))), ('sorted', sorted(roots)), ('reversed', roots[::-1]), ('truncated', roots[:-1]), ('extra-zero', roots + [bytes(32)])]
	shuffled = list(roots)
	rng.shuffle(shuffled)
	out.append(('shuffled', shuffled))
	if len(roots) > 1:
		spot = rng.randrange(len(roots))
		out.append(('one-dropped', roots[:spot] + roots[spot + 1:]))
		out.append(('one-doubled', roots[:spot] + [roots[spot]] + roots[spot:]))
	return [(label, other) for label, other in out if b''.join(other) != b''.join(roots)]


def run_patricia(ctx):
	# pylint: disable=too-many-locals,too-many-statements,too-many-branches
	from symbolchain.CryptoTypes import Hash256
	from symbolchain.symbol.Merkle import (
		BranchNode,
		LeafNode,
		PatriciaTreePath,
		_encode_path,
		deserialize_patricia_tree_nodes,
		prove_patricia_merkle
	)

	rng = ctx.rng
	ops = Ops(ctx)

	def impl_node(node):
		if 'L' == node[0]:
			return LeafNode(PatriciaTreePath(node[1], node[2]), Hash256(node[3]) if 32 == len(node[3]) else ByteKey(node[3]))
		return BranchNode(PatriciaTreePath(node[1], node[2]), [None if link is None else Hash256(link) for link in node[3]])

	def impl_prove(key, value, nodes, state_hash, roots):
		key_object = Hash256(key) if 32 == len(key) else ByteKey(key)
		result = attempt(
			prove_patricia_merkle, key_object, Hash256(value), [impl_node(node) for node in nodes], Hash256(state_hash),
			[Hash256(root) for root in roots])
		return f'ok {result[1].value}' if 'ok' == result[0] else 'none'

	def prove_line(key, value, nodes, state_hash, roots):
		return f'prove_patricia {hx(key)} {hx(value)} {fmt_nodes(nodes)} {hx(state_hash)} {fmt_hashes(roots)}'

	def check(label, key, value, nodes, state_hash, roots, expected, what, defects=None):
		"""expected: the verdict the tree implies (None: correspondence only). defects: [(signature, verdict the recorded defect
		predicts)]; an answer equal to such a prediction (and different from `expected`) is that recorded finding, anything else is
		a fresh failure."""
		answer = impl_prove(key, value, nodes, state_hash, roots)

		def text(verdict):
			return 'none' if 'raise' == verdict else f'ok {verdict}'
		signature = None
		if expected is not None and answer != text(expected):
			for name, predicted in defects or []:
				if answer == text(predicted):
					signature = name
					break
		ops.add(
			prove_line(key, value, nodes, state_hash, roots), answer, None if expected is None else answer == text(expected),
			f'{what} (the tree implies {text(expected)})', signature)
		ctx.count(f'patricia:{label}:{answer}')
		return answer

	def defect_predictions(visited, steps, cut, key, value):
		return [(EQUAL_SIBLING_SIGNATURE, o_implied(visited[:cut], o_trace(visited, steps, cut, by_index=True), key, value))]

	# path encoding and node hashes
	for _ in range(ctx.scale(300, 6000)):
		size = rng.choice([0, 1, 2, 3, 4, 5, 6, 7, 8, 63, 64, rng.randrange(0, 70)])
		nibbles = [rng.randrange(16) for _ in range(size)]
		packed = pack(nibbles)
		is_leaf = rng.random() < 0.5
		mode = rng.random()
		if mode < 0.15 and packed:
			packed = packed[:-1]  # too short: IndexError
		elif mode < 0.3:
			packed += rng.bytes_(rng.randrange(1, 3))  # trailing bytes are ignored
		result = attempt(_encode_path, PatriciaTreePath(packed, size), is_leaf)
		expected_ok = 2 * len(packed) >= size
		direct = ('ok' == result[0] and result[1] == o_encode(key_nibbles(packed)[:size], is_leaf)) if expected_ok else 'raise' == result[0]
		ops.add(
			f'encode_path {hx(packed)} {size} {1 if is_leaf else 0}', f'ok {hx(result[1])}' if 'ok' == result[0] else 'none', direct,
			'compact path encoding differs from leaf/odd flags + packed nibbles')
		ctx.count('patricia:encode_path:' + ('odd' if size % 2 else 'even') + (':leaf' if is_leaf else ':branch'))

	tree_count = 0
	for label, tree, universe in gen_trees(ctx):
		tree_count += 1
		root_hash = o_tree_hash(tree)
		for key in universe:
			key = tuple(key)
			visited, steps = o_lookup(tree, key)
			trace = o_trace(visited, steps, len(visited))
			if o_trace(visited, steps, len(visited), by_index=True) != trace:
				ctx.count('patricia:equal-sibling-hash-on-path')
			if any(sub[1] for sub in visited[:-1]):
				ctx.count('patricia:non-empty-branch-path-above-last-node')
				ctx.count(f'patricia:non-empty-branch-path-above-last-node:{label}')
			key_bytes = pack(key)
			nodes = [o_node(sub) for sub in visited]
			roots = gen_roots(rng, root_hash)
			state_hash = sha3(b''.join(roots))  # over the list as given: in order, with multiplicity
			ctx.count(f'patricia:roots:count-{len(roots)}')
			if len(set(roots)) < len(roots):
				ctx.count('patricia:roots:repeated-' + ('zero' if roots.count(bytes(32)) > 1 else 'tree-root' if roots.count(root_hash) > 1 else 'other'))
			last = visited[-1]
			leaf_value = last[2] if 'L' == last[0] else rng.bytes_(32)
			expected = o_implied(visited, trace, key, leaf_value)
			kind = {1: 'present', 2: 'absent-dead-end', 0x8005: 'absent-mismatch', 0x4001: 'inconclusive', 'raise': 'key-exhausted'}[expected]
			answer = check(
				f'{label}:{kind}', key_bytes, leaf_value, nodes, state_hash, roots, expected, f'intact proof of a {kind} key',
				defect_predictions(visited, steps, len(visited), key, leaf_value))
			if any(sub[1] for sub in visited[:-1]):
				ctx.count(f'patricia:branch-path-above-last-node:intact:{answer}')
			# the specification-side functions of the model on the same tree
			if ctx.driver and (ctx.thorough or rng.random() < 0.5):
				lookup = f'ok {hx(last[2])}' if 'L' == last[0] and trace == list(key) else 'none'
				dead = 'B' == last[0] and list(key[:len(trace)]) == trace and len(trace) < len(key) and last[2][key[len(trace)]] is None
				ops.add(
					f'tree {fmt_tree(tree)} {fmt_nibbles(key)}',
					f'hash={hx(root_hash)} proof={fmt_nodes(nodes)} trace={fmt_nibbles(trace)} lookup={lookup} deadEnd={"true" if dead else "false"}',
					None, 'tree-level specification functions', corr_only=True)
			if 'L' == last[0]:
				wrong = flip(leaf_value, rng.randrange(256))
				check(f'{label}:wrong-value', key_bytes, wrong, nodes, state_hash, roots, VERDICTS['LEAF_VALUE_MISMATCH'], 'proof tested with another value')
			# truncations of the honest proof: the cut ends at a branch with a continuing link
			for cut in range(1, len(nodes)):
				answer = check(
					f'{label}:truncated', key_bytes, leaf_value, nodes[:cut], state_hash, roots,
					o_implied(visited[:cut], o_trace(visited, steps, cut), key, leaf_value), 'truncated proof (continuing link)',
					defect_predictions(visited, steps, cut, key, leaf_value))
				if any(sub[1] for sub in visited[:cut - 1]):
					ctx.count(f'patricia:branch-path-above-last-node:truncated:{answer}')
			# single corruptions
			for _ in range(ctx.scale(3, 8)):
				corruption = rng.choice(['state-hash', 'forged-state-hash', 'forged-state-hash', 'roots', 'node-path', 'link', 'leaf-value', 'key', 'drop-middle', 'drop-first'])
				if 'forged-state-hash' == corruption:
					# a state hash derived from another arrangement of the same roots (or the roots re-arranged under the genuine state hash)
					forged = forged_root_lists(rng, roots)
					if not forged:
						continue
					how, other = rng.choice(forged)
					if rng.random() < 0.5:
						check(
							f'{label}:state-hash-over-{how}-roots', key_bytes, leaf_value, nodes, sha3(b''.join(other)), roots,
							VERDICTS['STATE_HASH_DOES_NOT_MATCH_ROOTS'], f'state hash computed over the {how} roots, not over the roots as given')
					elif other:
						check(
							f'{label}:{how}-roots-under-genuine-state-hash', key_bytes, leaf_value, nodes, state_hash, other,
							VERDICTS['STATE_HASH_DOES_NOT_MATCH_ROOTS'], f'{how} roots presented under the genuine state hash')
				elif 'state-hash' == corruption:
					check(
						f'{label}:bad-state-hash', key_bytes, leaf_value, nodes, flip(state_hash, rng.randrange(256)), roots,
						VERDICTS['STATE_HASH_DOES_NOT_MATCH_ROOTS'], 'state hash not derived from the roots')
				elif 'roots' == corruption:
					bad_root = flip(root_hash, rng.randrange(256))
					bad_roots = [bad_root if root == root_hash else root for root in roots]
					check(
						f'{label}:unanchored', key_bytes, leaf_value, nodes, sha3(b''.join(bad_roots)), bad_roots, VERDICTS['UNANCHORED_PATH_TREE'],
						'tree root is not a subcache root')
				elif corruption in ('node-path', 'link', 'leaf-value'):
					index = rng.randrange(len(nodes))
					node = nodes[index]
					if 'node-path' == corruption:
						if node[2] <= 0:
							continue
						bit = rng.randrange(4 * node[2])  # a bit of a nibble that is part of the path
						changed = (node[0], flip(node[1], 8 * (bit // 8) + 7 - bit % 8), node[2], node[3])
					elif 'link' == corruption:
						present = [slot for slot, link in enumerate(node[3]) if link is not None] if 'B' == node[0] else []
						if not present:
							continue
						links = list(node[3])
						slot = rng.choice(present)
						links[slot] = flip(links[slot], rng.randrange(256))
						changed = (node[0], node[1], node[2], links)
					else:
						if 'L' != node[0]:
							continue
						changed = (node[0], node[1], node[2], flip(node[3], rng.randrange(256)))
					bad_nodes = nodes[:index] + [changed] + nodes[index + 1:]
					if 0 == index:
						expected = VERDICTS['UNANCHORED_PATH_TREE']  # the root node no longer hashes to a subcache root
					elif 'leaf-value' == corruption:
						expected = VERDICTS['LEAF_VALUE_MISMATCH']  # tested against the genuine value
					elif o_wire_hash(changed) in nodes[index - 1][3]:
						expected = None  # the corrupted node happens to be another genuine child of its parent (small alphabets): correspondence only
					else:
						expected = VERDICTS['UNLINKED_NODE']  # the node no longer hashes to a link of its parent (or its child to its link)
					check(f'{label}:corrupt-{corruption}', key_bytes, leaf_value, bad_nodes, state_hash, roots, expected, f'proof with corrupted {corruption} in node {index}')
				elif 'key' == corruption:
					if not key:
						continue
					bad_key = list(key)
					bad_key[rng.randrange(len(key))] ^= 1 << rng.randrange(4)
					check(
						f'{label}:other-key', pack(bad_key), leaf_value, nodes, state_hash, roots, o_implied(visited, trace, bad_key, leaf_value),
						'proof presented for another key', defect_predictions(visited, steps, len(visited), bad_key, leaf_value))
				elif 'drop-middle' == corruption:
					if len(nodes) < 3:
						continue
					index = rng.randrange(1, len(nodes) - 1)
					if o_tree_hash(visited[index + 1]) in nodes[index - 1][3]:
						continue  # the grandparent happens to link the grandchild's hash too
					check(
						f'{label}:dropped-node', key_bytes, leaf_value, nodes[:index] + nodes[index + 1:], state_hash, roots, VERDICTS['UNLINKED_NODE'],
						'proof with a node removed')
				else:
					if len(nodes) < 2:
						continue
					check(f'{label}:dropped-root', key_bytes, leaf_value, nodes[1:], state_hash, roots, VERDICTS['UNANCHORED_PATH_TREE'], 'proof without its root node')

			# wire form: round trip and truncations
			if rng.random() < ctx.scale(0.25, 1.0) and all(node[2] < 256 for node in nodes):
				buffer = wire(nodes)
				deserialize_case(ctx, ops, buffer, ('ok', nodes), deserialize_patricia_tree_nodes, 'round-trip')
				if rng.random() < 0.3:
					cut = rng.randrange(1, len(buffer))
					deserialize_case(ctx, ops, buffer[:cut], None, deserialize_patricia_tree_nodes, 'truncated')
				if rng.random() < 0.2:
					spot = rng.randrange(len(buffer))
					deserialize_case(ctx, ops, buffer[:spot] + bytes([rng.randrange(256)]) + buffer[spot + 1:], None, deserialize_patricia_tree_nodes, 'byte-replaced')
		if len(ops.items) > 3000:
			ops.settle()
	ctx.count('patricia:trees', tree_count)

	# malformed proofs: exceptions are part of the modelled behaviour
	for _ in range(ctx.scale(300, 6000)):
		def random_node():
			size = rng.choice([0, 1, 2, 3, 4])
			packed = rng.bytes_(rng.choice([(size + 1) // 2, (size + 1) // 2, max(0, (size + 1) // 2 - 1), (size + 1) // 2 + 1]))
			if rng.random() < 0.4:
				return ('L', packed, size, rng.bytes_(32))
			return ('B', packed, size, [rng.bytes_(32) if rng.random() < 0.3 else None for _ in range(rng.choice([16, 16, 16, 0, 3, 17, 40]))])
		nodes = [random_node() for _ in range(rng.choice([0, 1, 1, 2, 3]))]
		# link the nodes bottom-up where possible so that the walk gets past the link check
		for index in range(len(nodes) - 2, -1, -1):
			if 'B' == nodes[index][0] and nodes[index][3] and rng.random() < 0.8:
				below = o_wire_hash(nodes[index + 1])
				if below is not None:
					links = list(nodes[index][3])
					links[rng.randrange(len(links))] = below
					if rng.random() < 0.3:
						links[rng.randrange(len(links))] = below
					nodes[index] = (nodes[index][0], nodes[index][1], nodes[index][2], links)
		first_hash = o_wire_hash(nodes[0]) if nodes else None
		roots = gen_roots(rng, first_hash if first_hash is not None and rng.random() < 0.9 else rng.bytes_(32))
		if rng.random() < 0.1:
			roots = []
		state_hash = sha3(b''.join(roots if rng.random() < 0.8 else list(dict.fromkeys(roots))))
		key = rng.bytes_(rng.choice([0, 1, 2, 3, 32]))
		if nodes and rng.random() < 0.6:  # a key that follows the nodes' own paths
			guess = []
			for node in nodes:
				guess += key_nibbles(node[1])[:node[2]] + [rng.randrange(16)]
			guess = guess[:-1] if rng.random() < 0.5 else guess
			key = pack(guess)
		value = nodes[-1][3] if nodes and 'L' == nodes[-1][0] and rng.random() < 0.8 else rng.bytes_(32)
		check('malformed', key, value, nodes, state_hash, roots, None, 'malformed proof')
	for _ in range(ctx.scale(200, 4000)):
		buffer = bytes(rng.choice([0x00, 0xFF, 0x00, 0xFF, 0x01, rng.randrange(256)]) if rng.random() < 0.3 else rng.randrange(256) for _ in range(rng.randrange(0, 80)))
		deserialize_case(ctx, ops, buffer, None, deserialize_patricia_tree_nodes, 'random-bytes')
	ops.settle()


def o_wire_hash(node):
	nibbles = key_nibbles(node[1])
	if len(nibbles) < node[2]:
		return None
	if 'L' == node[0]:
		return sha3(o_encode(nibbles[:node[2]], True) + node[3])
	return sha3(o_encode(nibbles[:node[2]], False) + b''.join(link or bytes(32) for link in node[3]))


def deserialize_case(ctx, ops, buffer, expected, deserialize, label):
	def describe(nodes):
		out = []
		for node in nodes:
			if hasattr(node, 'value'):
				out.append(('L', bytes(node.path.path), node.path.size, node.value.bytes))
			else:
				out.append(('B', bytes(node.path.path), node.path.size, [None if link is None else link.bytes for link in node.links]))
		return out

	try:
		answer = 'ok ' + fmt_nodes(describe(deserialize(GuardedBuffer(buffer))))
	except Hang:
		answer = 'diverges'
	except ValueError:
		answer = 'valueError'
	oracle = o_deserialize(buffer)
	oracle_text = 'ok ' + fmt_nodes(oracle[1]) if 'ok' == oracle[0] else oracle[0]
	direct = answer == oracle_text
	if expected is not None:
		direct = direct and answer == 'ok ' + fmt_nodes(expected[1])
	ops.add(f'deserialize {hx(buffer)}', answer, direct, f'deserialized nodes differ from the wire format ({label})')
	ctx.count(f'patricia:deserialize:{label}:{answer.split(" ")[0]}')
	if 'diverges' == answer:
		note = 'deserialize_patricia_tree_nodes never returns on a buffer that ends inside a branch node (BufferReader.eof is `offset == len`); modelled as `diverges`'
		if note not in ctx.notes:
			ctx.notes.append(note)


# endregion

# region transactions


def symbol_window(buffer, header_size=108, hashed_size=52):
	"""the property's statement of the signed data: everything after the header, for aggregates only the 52-byte head"""
	type_code = int.from_bytes(buffer[110:112], 'little')
	return buffer[header_size:header_size + hashed_size] if type_code in (0x4141, 0x4241) else buffer[header_size:]


class FakeTransaction:
	"""carrier of arbitrary serialized bytes for hash_transaction (which only uses signature, signer_public_key, serialize())"""

	def __init__(self, buffer, signature, signer):
		from symbolchain.CryptoTypes import PublicKey, Signature
		self.signature = Signature(signature)
		self.signer_public_key = PublicKey(signer)
		self._buffer = buffer

	def serialize(self):
		return self._buffer


def load_descriptors(prefix):
	names = {
		'symbol': ['alias', 'key_link', 'lock', 'metadata', 'mosaic', 'namespace', 'restriction_account', 'restriction_mosaic', 'transfer'],
		'nem': ['account_key_link', 'mosaic', 'multisig_account', 'namespace', 'transfer'],
	}[prefix]
	descriptors = []
	for name in names:
		module = importlib.import_module(f'examples.descriptors.{prefix}_{name}')
		descriptors += module.descriptor_factory()
	return descriptors


def run_symbol_transactions(ctx):
	# pylint: disable=too-many-locals,too-many-statements
	from symbolchain import sc
	from symbolchain.CryptoTypes import Hash256, PrivateKey
	from symbolchain.facade.SymbolFacade import SymbolFacade

	rng = ctx.rng
	ops = Ops(ctx)
	descriptors = load_descriptors('symbol')
	for network in ('testnet', 'mainnet'):
		facade = SymbolFacade(network)
		seed = facade.network.generation_hash_seed.bytes
		key_pairs = [facade.KeyPair(PrivateKey(rng.bytes_(32))) for _ in range(4)]

		def common(descriptor, embedded=False):
			out = dict(descriptor)
			out['signer_public_key'] = rng.choice(key_pairs).public_key
			if not embedded:
				out['fee'] = rng.boundary_int(64)
				out['deadline'] = rng.boundary_int(64)
			return out

		transactions = []
		for descriptor in descriptors:
			transactions.append((descriptor['type'], facade.transaction_factory.create(common(descriptor))))
		# aggregates with 0-5 embedded transactions and 0-3 cosignatures
		for _ in range(ctx.scale(12, 150)):
			embedded = [facade.transaction_factory.create_embedded(common(rng.choice(descriptors), True)) for _ in range(rng.choice([0, 1, 1, 2, 3, 5]))]
			merkle_hash = facade.hash_embedded_transactions(embedded)
			embedded_hashes = [sha3(item.serialize()) for item in embedded]
			line = f'embedded_hash {fmt_hashes([item.serialize() for item in embedded])}'
			ops.add(line, hx(merkle_hash.bytes), merkle_hash.bytes == o_root(embedded_hashes), 'embedded-transactions hash is not the Merkle root of the SHA3-256 hashes of the embedded transactions')
			ctx.count(f'tx:embedded_hash:{len(embedded)}')
			name = rng.choice(['aggregate_complete_transaction_v2', 'aggregate_bonded_transaction_v2', 'aggregate_complete_transaction_v1', 'aggregate_bonded_transaction_v1'])
			aggregate = facade.transaction_factory.create(common({'type': name, 'transactions_hash': merkle_hash.bytes, 'transactions': embedded}))
			transactions.append((name, aggregate))

		for name, transaction in transactions:
			signer = next(pair for pair in key_pairs if pair.public_key.bytes == transaction.signer_public_key.bytes)
			signature = facade.sign_transaction(signer, transaction)
			facade.transaction_factory.attach_signature(transaction, signature)
			is_aggregate = name.startswith('aggregate')
			cosignature_count = 0
			if is_aggregate:
				cosignature_count = rng.choice([0, 1, 2, 3])
				hash_before = facade.hash_transaction(transaction)
				for _ in range(cosignature_count):
					transaction.cosignatures.append(facade.cosign_transaction(rng.choice(key_pairs), transaction))
				if facade.hash_transaction(transaction) != hash_before:
					ctx.fail('property', f'{name}: hash changed when {cosignature_count} cosignatures were attached', {'transaction': transaction.serialize()})
			buffer = transaction.serialize()
			impl_hash = facade.hash_transaction(transaction).bytes
			expected = sha3(signature.bytes + transaction.signer_public_key.bytes + seed + symbol_window(buffer))
			kind = f'{name}:cosignatures={cosignature_count}' if is_aggregate else name
			ops.add(
				f'symbol_hash {hx(signature.bytes)} {hx(transaction.signer_public_key.bytes)} {hx(seed)} {hx(buffer)}', f'ok {hx(impl_hash)}', impl_hash == expected,
				f'{kind}: hash is not SHA3-256(signature || signer || generation-hash seed || signed data)')
			ops.add(f'symbol_hash_serialized {hx(seed)} {hx(buffer)}', f'ok {hx(impl_hash)}', buffer[8:72] == signature.bytes and buffer[72:104] == transaction.signer_public_key.bytes, f'{kind}: serialized signature/signer are not at offsets 8/72')
			payload = facade.extract_signing_payload(transaction)
			ops.add(f'signing_payload {hx(seed)} {hx(buffer)}', f'ok {hx(payload)}', payload == seed + symbol_window(buffer), f'{kind}: signing payload is not seed || signed data')
			if not facade.verify_transaction(transaction, signature):
				ctx.fail('property', f'{kind}: signature over the signing payload does not verify', {'transaction': buffer})
			ctx.count(f'tx:symbol:{kind}')

			# single-bit flips by field class, through deserialize where the flipped bytes still parse, and on the raw bytes always
			covered_end = 160 if is_aggregate else len(buffer)
			regions = [('size', 0, 4, False), ('reserved1', 4, 8, False), ('signature', 8, 72, True), ('signer', 72, 104, True), ('reserved2', 104, 108, False), ('body', 108, covered_end, True)]
			if covered_end < len(buffer):
				regions.append(('aggregate-tail', covered_end, len(buffer), False))
			for region, start, end, covered in regions:
				for _ in range(ctx.scale(2, 6)):
					bit = rng.randrange(8 * start, 8 * end)
					changed = flip(buffer, bit)
					fake = FakeTransaction(changed, changed[8:72], changed[72:104])
					result = attempt(facade.hash_transaction, fake)
					answer = f'ok {hx(result[1].bytes)}' if 'ok' == result[0] else 'none'
					spec = sha3(changed[8:72] + changed[72:104] + seed + symbol_window(changed))
					direct = 'ok' == result[0] and result[1].bytes == spec and ((result[1].bytes != impl_hash) == covered or (bit // 8) in (110, 111))
					ops.add(
						f'symbol_hash_serialized {hx(seed)} {hx(changed)}', answer, direct,
						f'{kind}: flipping bit {bit} ({region}, {"covered" if covered else "not covered"}) ' + ('left the hash unchanged' if covered else 'changed the hash') + ' or the hash left its definition')
					ctx.count(f'tx:symbol:flip-{region}:' + ('changed' if 'ok' == result[0] and result[1].bytes != impl_hash else 'same'))
			# the same flips on real objects where the bytes still deserialize
			if is_aggregate and covered_end < len(buffer):
				for _ in range(ctx.scale(2, 6)):
					bit = rng.randrange(8 * covered_end, 8 * len(buffer))
					result = attempt_bounded(facade.transaction_factory.deserialize, flip(buffer, bit))
					if 'ok' != result[0]:
						ctx.count('tx:symbol:flip-tail-object:unparseable')
						continue
					result2 = attempt(lambda: (result[1].serialize(), facade.hash_transaction(result[1]).bytes))
					if 'ok' != result2[0] or result2[1][0] != flip(buffer, bit):
						ctx.count('tx:symbol:flip-tail-object:unparseable')
						continue
					ctx.count('tx:symbol:flip-tail-object:parsed')
					ctx.case(('flip-tail-object', buffer, bit))
					if result2[1][1] != impl_hash:
						ctx.fail('property', f'{kind}: hash depends on bit {bit} after the 52-byte aggregate head (cosignatures/embedded payload)', {'transaction': buffer, 'bit': bit})
		# short and odd buffers: the IndexError of _is_aggregate_transaction is modelled
		for _ in range(ctx.scale(40, 400)):
			length = rng.choice([0, 1, 107, 108, 109, 110, 111, 112, 113, 159, 160, 161, rng.randrange(0, 200)])
			buffer = bytearray(rng.bytes_(length))
			if length >= 112 and rng.random() < 0.6:
				buffer[110:112] = rng.choice([0x4141, 0x4241, 0x4142, 0x4140, 0x4341, 0x4154]).to_bytes(2, 'little')
			buffer = bytes(buffer)
			signature, signer = rng.bytes_(64), rng.bytes_(32)
			result = attempt(facade.hash_transaction, FakeTransaction(buffer, signature, signer))
			answer = f'ok {hx(result[1].bytes)}' if 'ok' == result[0] else 'none'
			direct = ('ok' == result[0] and result[1].bytes == sha3(signature + signer + seed + symbol_window(buffer))) if length >= 112 else 'raise' == result[0]
			ops.add(f'symbol_hash {hx(signature)} {hx(signer)} {hx(seed)} {hx(buffer)}', answer, direct, 'hash of raw bytes is not SHA3-256 over signature, signer, seed and the data window')
			ctx.count('tx:symbol:raw:' + ('short' if length < 112 else 'aggregate' if buffer[110:112] in (b'\x41\x41', b'\x41\x42') else 'plain'))
		ops.settle()
	_ = (sc, Hash256)


def run_nem_transactions(ctx):
	# pylint: disable=too-many-locals
	from symbolchain import nc
	from symbolchain.CryptoTypes import PrivateKey
	from symbolchain.facade.NemFacade import NemFacade
	from symbolchain.nem.TransactionFactory import TransactionFactory

	rng = ctx.rng
	ops = Ops(ctx)
	if sponge256(b'abc', 0x06) != sha3(b'abc') or sponge256(bytes(range(200)), 0x06) != sha3(bytes(range(200))):
		ctx.fail('corr', 'harness Keccak-f self-check against hashlib.sha3_256 failed', {})
		return
	descriptors = load_descriptors('nem')
	for network in ('testnet', 'mainnet'):
		facade = NemFacade(network)
		key_pairs = [facade.KeyPair(PrivateKey(rng.bytes_(32))) for _ in range(3)]

		def common(descriptor):
			out = dict(descriptor)
			out['signer_public_key'] = rng.choice(key_pairs).public_key
			out['deadline'] = rng.boundary_int(32)
			out['timestamp'] = rng.boundary_int(32)
			out['fee'] = rng.boundary_int(64)
			return out

		transactions = [(descriptor['type'], facade.transaction_factory.create(common(descriptor))) for descriptor in descriptors for _ in range(ctx.scale(1, 4))]
		# multisig wrappers: the inner transaction is embedded in non-verifiable form
		for _ in range(ctx.scale(4, 40)):
			inner_descriptor = rng.choice([descriptor for descriptor in descriptors if not descriptor['type'].startswith('cosignature')])
			inner = TransactionFactory.to_non_verifiable_transaction(facade.transaction_factory.create(common(inner_descriptor)))
			cosignatures = [{'cosignature': {
				'type': 'cosignature_v1', 'network': facade.network.identifier, 'timestamp': rng.boundary_int(32), 'fee': rng.boundary_int(64),
				'deadline': rng.boundary_int(32), 'signer_public_key': rng.choice(key_pairs).public_key, 'signature': nc.Signature(rng.bytes_(64)),
				'other_transaction_hash': rng.bytes_(32).hex().upper(), 'multisig_account_address': str(facade.network.public_key_to_address(key_pairs[0].public_key))
			}} for _ in range(rng.choice([0, 1, 2]))]
			for descriptor in cosignatures:
				del descriptor['cosignature']['type']
			transactions.append(('multisig_transaction_v1', facade.transaction_factory.create(common({
				'type': 'multisig_transaction_v1', 'inner_transaction': inner, 'cosignatures': cosignatures}))))
			ctx.count(f'tx:nem:multisig-cosignatures:{len(cosignatures)}')
		for name, transaction in transactions:
			signer = next(pair for pair in key_pairs if pair.public_key.bytes == transaction.signer_public_key.bytes)
			signature = facade.sign_transaction(signer, transaction)
			TransactionFactory.attach_signature(transaction, signature)
			buffer = transaction.serialize()
			impl_hash = facade.hash_transaction(transaction).bytes
			non_verifiable = TransactionFactory.to_non_verifiable_transaction(transaction).serialize()
			# the non-verifiable form drops the signature field (size + 64 bytes at offset 48); a multisig wrapper also drops its trailing
			# cosignature section (count + cosignatures), which is therefore not covered either
			is_multisig = name.startswith('multisig_transaction')
			stripped = buffer[:48] + buffer[116:]
			covered_end = 116 + len(non_verifiable) - 48
			direct = impl_hash == keccak256(non_verifiable) and buffer[52:116] == signature.bytes
			direct = direct and (stripped[:len(non_verifiable)] == non_verifiable if is_multisig else stripped == non_verifiable)
			if is_multisig:
				ctx.count('tx:nem:multisig-uncovered-tail-bytes', len(stripped) - len(non_verifiable))
			if is_multisig:
				ops.add(f'nem_hash {hx(non_verifiable)}', hx(impl_hash), direct, f'{name}: hash is not Keccak-256 of the non-verifiable serialization (wrapper without signature and cosignatures)')
			else:
				ops.add(f'nem_hash_serialized {hx(buffer)}', hx(impl_hash), direct, f'{name}: hash is not Keccak-256 of the serialization without the signature field')
				ops.add(f'nem_hash {hx(non_verifiable)}', hx(impl_hash), impl_hash == keccak256(non_verifiable), f'{name}: hash is not Keccak-256 of the non-verifiable serialization')
				ops.add(f'nem_non_verifiable {hx(buffer)}', hx(non_verifiable), None, 'non-verifiable serialization')
			if not facade.verify_transaction(transaction, signature):
				ctx.fail('property', f'{name}: signature over the non-verifiable serialization does not verify', {'transaction': buffer})
			ctx.count(f'tx:nem:{name}')
			# flips through real objects: signature bits are not covered, every other bit that still parses is
			for _ in range(ctx.scale(6, 20)):
				bit = rng.randrange(8 * len(buffer))
				covered = not 48 <= bit // 8 < 116 and bit // 8 < covered_end
				changed = flip(buffer, bit)
				result = attempt_bounded(lambda: facade.transaction_factory.deserialize(changed))  # pylint: disable=cell-var-from-loop
				if 'ok' != result[0]:
					ctx.count('tx:nem:flip:unparseable')
					continue
				result2 = attempt(lambda: (result[1].serialize(), facade.hash_transaction(result[1]).bytes, TransactionFactory.to_non_verifiable_transaction(result[1]).serialize()))  # pylint: disable=cell-var-from-loop
				if 'ok' != result2[0] or result2[1][0] != changed:
					ctx.count('tx:nem:flip:unparseable')
					continue
				new_hash = result2[1][1]
				direct = new_hash == keccak256(result2[1][2]) and (new_hash != impl_hash) == covered
				what = f'{name}: flipping bit {bit} ({"covered" if covered else "signature/cosignature section, not covered"}) ' + ('left the hash unchanged' if covered else 'changed the hash')
				if is_multisig:
					direct = direct and result2[1][2] == (changed[:48] + changed[116:])[:len(result2[1][2])]
					ops.add(f'nem_hash {hx(result2[1][2])}', hx(new_hash), direct, what)
				else:
					direct = direct and result2[1][2] == changed[:48] + changed[116:]
					ops.add(f'nem_hash_serialized {hx(changed)}', hx(new_hash), direct, what)
				ctx.count('tx:nem:flip:' + ('covered' if covered else 'signature'))
		ops.settle()


# endregion


# region histories: objects that are used, edited in place and used again
# The model's functions are pure: every answer is a function of the current contents of the arguments. The implementation works on
# mutable objects (tree nodes, builders, Hash256 values, transactions); a history uses an object, edits it in place and uses it again,
# and the last answer must be the one the definitions give for the *current* contents - the same as for freshly built objects with
# those contents and the same as the model's. A history is a list of steps (lists of strings), kept with a failure for replay.


def play_patricia(steps):
	"""returns (answer of the last step on the re-used objects, the same step on freshly built objects, oracle or None, driver request)"""
	# pylint: disable=too-many-locals,too-many-branches,too-many-statements
	from symbolchain.CryptoTypes import Hash256
	from symbolchain.symbol import Merkle

	def build(node):
		if 'L' == node[0]:
			return Merkle.LeafNode(Merkle.PatriciaTreePath(node[1], node[2]), Hash256(node[3]))
		return Merkle.BranchNode(Merkle.PatriciaTreePath(node[1], node[2]), [None if link is None else Hash256(link) for link in node[3]])

	def prove(objects, step):
		key = unhx(step[1])
		result = attempt(
			Merkle.prove_patricia_merkle, Hash256(key) if 32 == len(key) else ByteKey(key), Hash256(unhx(step[2])), objects, Hash256(unhx(step[3])),
			[Hash256(root) for root in parse_hashes(step[4])])
		return f'ok {result[1].value}' if 'ok' == result[0] else 'none'

	def node_hash(node):
		result = attempt(node.calculate_hash)
		return f'ok {hx(result[1].bytes)}' if 'ok' == result[0] else 'none'

	objects = []
	shadow = []
	answer = None
	for step in steps:
		op = step[0]
		if 'nodes' == op:
			shadow = parse_nodes(step[1])
			objects = [build(node) for node in shadow]
		elif 'wire' == op:
			objects = Merkle.deserialize_patricia_tree_nodes(unhx(step[1]))
			shadow = o_deserialize(unhx(step[1]))[1]
		elif 'prove' == op:
			answer = prove(objects, step)
		elif 'hash' == op:
			answer = node_hash(objects[int(step[1])])
		elif 'set_value' == op:
			index = int(step[1])
			objects[index].value = Hash256(unhx(step[2]))
			shadow[index] = (shadow[index][0], shadow[index][1], shadow[index][2], unhx(step[2]))
		elif 'set_link' == op:
			index, slot = int(step[1]), int(step[2])
			link = None if '_' == step[3] else unhx(step[3])
			objects[index].links[slot] = None if link is None else Hash256(link)
			links = list(shadow[index][3])
			links[slot] = link
			shadow[index] = (shadow[index][0], shadow[index][1], shadow[index][2], links)
		elif 'swap_links' == op:
			index, first, second = int(step[1]), int(step[2]), int(step[3])
			links = objects[index].links
			links[first], links[second] = links[second], links[first]
			links = list(shadow[index][3])
			links[first], links[second] = links[second], links[first]
			shadow[index] = (shadow[index][0], shadow[index][1], shadow[index][2], links)
		elif 'set_path' == op:
			index = int(step[1])
			objects[index].path = Merkle.PatriciaTreePath(unhx(step[2]), int(step[3]))
			shadow[index] = (shadow[index][0], unhx(step[2]), int(step[3]), shadow[index][3])
		else:
			raise ValueError(f'unknown step {op}')
	last = steps[-1]
	fresh_objects = [build(node) for node in shadow]
	if 'prove' == last[0]:
		return answer, prove(fresh_objects, last), None, f'prove_patricia {last[1]} {last[2]} {fmt_nodes(shadow)} {last[3]} {last[4]}'
	index = int(last[1])
	expected = o_wire_hash(shadow[index])
	return answer, node_hash(fresh_objects[index]), ('none' if expected is None else f'ok {hx(expected)}'), f'node_hash {fmt_node(shadow[index])}'


def play_builder(steps):
	from symbolchain.CryptoTypes import Hash256
	from symbolchain.symbol.Merkle import MerkleHashBuilder
	builder = MerkleHashBuilder()
	answer = None
	contents = []
	for step in steps:
		if 'update' == step[0]:
			builder.update(Hash256(unhx(step[1])))
		else:
			contents = [bytes(item) for item in builder.hashes]
			answer = hx(builder.final().bytes)
	fresh = MerkleHashBuilder()
	for item in contents:
		fresh.update(Hash256(item))
	return answer, hx(fresh.final().bytes), hx(o_root(contents)), f'merkle_build {fmt_hashes(contents)}'


def play_prove_merkle(steps):
	from symbolchain.CryptoTypes import Hash256
	from symbolchain.symbol.Merkle import MerklePart, prove_merkle
	leaf = root = None
	path = []
	answer = None
	for step in steps:
		op = step[0]
		if 'make' == op:
			leaf, root = Hash256(unhx(step[1])), Hash256(unhx(step[3]))
			path = [MerklePart(Hash256(part), is_left) for part, is_left in parse_path(step[2])]
		elif 'call' == op:
			answer = 'true' if prove_merkle(leaf, path, root) else 'false'
		elif 'set_part' == op:
			path[int(step[1])] = MerklePart(Hash256(unhx(step[2])), 'L' == step[3])
		elif 'set_part_bytes' == op:
			path[int(step[1])].hash.bytes = unhx(step[2])
		elif 'del_part' == op:
			del path[int(step[1])]
		elif 'set_leaf_bytes' == op:
			leaf.bytes = unhx(step[1])
		elif 'set_root_bytes' == op:
			root.bytes = unhx(step[1])
		else:
			raise ValueError(f'unknown step {op}')
	now_leaf, now_root = bytes(leaf.bytes), bytes(root.bytes)
	now_path = [(bytes(part.hash.bytes), part.is_left) for part in path]
	fresh = prove_merkle(Hash256(now_leaf), [MerklePart(Hash256(part), is_left) for part, is_left in now_path], Hash256(now_root))
	return (
		answer, 'true' if fresh else 'false', 'true' if o_fold(now_leaf, now_path) == now_root else 'false',
		f'prove_merkle {hx(now_leaf)} {fmt_path(now_path)} {hx(now_root)}')


def play_transaction(steps):
	# pylint: disable=too-many-branches
	facade = None
	transaction = None
	answer = None
	is_nem = False
	for step in steps:
		op = step[0]
		if 'load' == op:
			is_nem = 'nem' == step[1]
			if is_nem:
				from symbolchain.facade.NemFacade import NemFacade
				facade = NemFacade(step[2])
			else:
				from symbolchain.facade.SymbolFacade import SymbolFacade
				facade = SymbolFacade(step[2])
			transaction = facade.transaction_factory.deserialize(unhx(step[3]))
		elif 'hash' == op:
			answer = hx(facade.hash_transaction(transaction).bytes)
		elif 'set' == op:
			current = getattr(transaction, step[1])
			if isinstance(current, (bytes, bytearray)):
				setattr(transaction, step[1], unhx(step[2]))
			elif hasattr(current, 'bytes'):
				setattr(transaction, step[1], type(current)(unhx(step[2])))
			else:
				setattr(transaction, step[1], type(current)(int(step[2])))
		elif 'set_bytes_in_place' == op:
			getattr(transaction, step[1]).bytes = unhx(step[2])
		elif 'pop_cosignature' == op:
			transaction.cosignatures.pop()
		elif 'dup_cosignature' == op:
			transaction.cosignatures.append(transaction.cosignatures[0])
		else:
			raise ValueError(f'unknown step {op}')
	buffer = transaction.serialize()
	fresh = hx(facade.hash_transaction(facade.transaction_factory.deserialize(buffer)).bytes)
	if is_nem:
		return answer, fresh, hx(keccak256(buffer[:48] + buffer[116:])), f'nem_hash_serialized {hx(buffer)}'
	seed = facade.network.generation_hash_seed.bytes
	signature, signer = transaction.signature.bytes, transaction.signer_public_key.bytes
	oracle = sha3(signature + signer + seed + symbol_window(buffer))
	return answer, fresh, hx(oracle), f'symbol_hash {hx(signature)} {hx(signer)} {hx(seed)} {hx(buffer)}'


PLAYERS = {'patricia': play_patricia, 'builder': play_builder, 'prove_merkle': play_prove_merkle, 'transaction': play_transaction}


def judge_history(ops, ctx, domain, steps, what, expect=None):
	"""plays a history; the last answer must equal the one for fresh objects with the current contents, the oracle's (when the
	definition is a function of the request alone) and `expect` (the verdict implied by construction), and the model's."""
	answer, fresh, oracle, request = PLAYERS[domain](steps)
	if 'transaction' == domain and request.startswith('symbol_hash'):
		answer, fresh, oracle = f'ok {answer}', f'ok {fresh}', f'ok {oracle}'  # the driver's answer format for an Option
	direct = answer == fresh and (oracle is None or answer == oracle) and (expect is None or answer == expect)
	detail = f'{what}: after the history {steps[:-1]!r} the call {steps[-1]!r} must answer for the current contents (fresh objects: {fresh}' \
		+ (f', definition: {oracle}' if oracle is not None else '') + (f', implied by construction: {expect}' if expect is not None else '') + ')'
	ops.add(request, answer, direct, detail[:1500], history={'domain': domain, 'steps': steps, 'expect': expect})
	ctx.count(f'history:{domain}:' + ('as-current-contents' if direct else 'STALE'))
	return answer


def run_histories(ctx):
	# pylint: disable=too-many-locals,too-many-statements,too-many-branches
	rng = ctx.rng
	ops = Ops(ctx)

	# Patricia nodes: use (prove / hash), edit one node in place, use again
	for _ in range(ctx.scale(250, 4000)):
		length = rng.choice([4, 6, 64])
		letters = rng.sample(range(16), rng.choice([2, 3, 16]))
		keys = sorted({tuple(rng.choice(letters) for _ in range(length)) for _ in range(rng.choice([2, 3, 4, 5]))})
		items = [(key, rng.bytes_(32)) for key in keys]
		tree = build_canonical(items)
		key = rng.choice(keys) if rng.random() < 0.7 else tuple(rng.choice(letters) for _ in range(length))
		visited, steps_taken = o_lookup(tree, key)
		nodes = [o_node(sub) for sub in visited]
		root_hash = o_tree_hash(tree)
		roots = gen_roots(rng, root_hash)
		state_hash = sha3(b''.join(roots))
		last = visited[-1]
		value = last[2] if 'L' == last[0] else rng.bytes_(32)
		prove_step = ['prove', hx(pack(key)), hx(value), hx(state_hash), fmt_hashes(roots)]
		start = ['nodes', fmt_nodes(nodes)] if rng.random() < 0.7 or any(node[2] > 255 for node in nodes) else ['wire', hx(wire(nodes))]
		first_use = rng.choice(['prove', 'prove', 'hash-all', 'hash-one', 'prove-other-key'])
		steps = [start]
		if 'prove' == first_use:
			steps.append(prove_step)
		elif 'prove-other-key' == first_use:
			steps.append(['prove', hx(pack(rng.choice(keys))), hx(rng.bytes_(32)), hx(state_hash), fmt_hashes(roots)])
		elif 'hash-all' == first_use:
			steps += [['hash', str(index)] for index in range(len(nodes))]
		# no edit at all: the same objects proved twice (and for another key) answer as the first time
		if rng.random() < 0.15:
			other = rng.choice(keys)
			steps.append(['prove', hx(pack(other)), hx(value), hx(state_hash), fmt_hashes(roots)])
			steps.append(prove_step)
			judge_history(ops, ctx, 'patricia', steps, 'proof repeated on the same node objects')
			ctx.count('history:patricia:no-edit')
			continue
		index = rng.randrange(len(nodes))
		if 'hash-one' == first_use:
			steps.append(['hash', str(index)])
		node = nodes[index]
		tested = value
		kinds = ['set_value'] if 'L' == node[0] else ['set_link', 'prune_link', 'swap_links', 'add_link']
		if node[2] > 0:
			kinds.append('set_path')
		kind = rng.choice(kinds)
		changed = True
		if 'set_value' == kind:
			forged = rng.bytes_(32)
			steps.append(['set_value', str(index), hx(forged)])
			if rng.random() < 0.7:
				tested = forged  # the forged value is also the value presented
		elif kind in ('set_link', 'prune_link', 'add_link'):
			present = [slot for slot, link in enumerate(node[3]) if link is not None]
			absent = [slot for slot, link in enumerate(node[3]) if link is None]
			if 'add_link' == kind and absent:
				steps.append(['set_link', str(index), str(rng.choice(absent)), hx(rng.bytes_(32))])
			elif 'prune_link' == kind:
				steps.append(['set_link', str(index), str(rng.choice(present)), '_'])
			else:
				slot = rng.choice(present)
				steps.append(['set_link', str(index), str(slot), hx(flip(node[3][slot], rng.randrange(256)))])
		elif 'swap_links' == kind:
			first, second = rng.sample(range(16), 2)
			changed = node[3][first] != node[3][second]
			steps.append(['swap_links', str(index), str(first), str(second)])
		else:
			bit = rng.randrange(4 * node[2])
			steps.append(['set_path', str(index), hx(flip(node[1], 8 * (bit // 8) + 7 - bit % 8)), str(node[2])])
		ctx.count(f'history:patricia:edit-{kind}:after-{first_use}')
		# the hash of the edited node is the hash of its current contents
		judge_history(ops, ctx, 'patricia', steps + [['hash', str(index)]], f'node hash after an in-place {kind}')
		# and the proof answers for the edited nodes: the edited node no longer hashes to what anchors / links it
		final = ['prove', hx(pack(key)), hx(tested), hx(state_hash), fmt_hashes(roots)]
		expect = None
		if changed:
			if 0 == index:
				expect = f'ok {VERDICTS["UNANCHORED_PATH_TREE"]}'
			elif 'L' == nodes[-1][0] and tested != (unhx(steps[-1][2]) if 'set_value' == kind else nodes[-1][3]):
				expect = f'ok {VERDICTS["LEAF_VALUE_MISMATCH"]}'
			else:
				expect = f'ok {VERDICTS["UNLINKED_NODE"]}'
		judge_history(ops, ctx, 'patricia', steps + [final], f'proof after an in-place {kind} of node {index}', expect)
		# edit and restore: the original answer comes back
		if rng.random() < 0.3 and 'set_value' == kind:
			restored = steps + [final, ['set_value', str(index), hx(node[3])], prove_step]
			judge_history(ops, ctx, 'patricia', restored, 'proof after an in-place edit was undone')
			ctx.count('history:patricia:edit-and-restore')
		if len(ops.items) > 2000:
			ops.settle()

	# MerkleHashBuilder: update, final, update again, final again (final() overwrites the list it holds; the next answer is the
	# root of what the builder holds then)
	for _ in range(ctx.scale(120, 1500)):
		first = rng.choice([0, 1, 2, 3, 4, 5, 7, 8, 9, 16, 17, rng.randrange(1, 40)])
		second = rng.choice([0, 1, 1, 2, 3, 5, 8])
		steps = [['update', hx(rng.bytes_(32))] for _ in range(first)] + [['final']]
		steps += [['update', hx(rng.bytes_(32))] for _ in range(second)] + [['final']]
		if rng.random() < 0.3:
			steps += [['update', hx(rng.bytes_(32))] for _ in range(rng.randrange(0, 4))] + [['final']]
		judge_history(ops, ctx, 'builder', steps, 'root of a builder that is used again after final()')
		ctx.count(f'history:builder:second-batch-{min(second, 3)}')

	# prove_merkle: the same objects verified, changed in place, verified again
	for _ in range(ctx.scale(150, 2000)):
		count = rng.choice([1, 2, 3, 4, 5, 6, 7, 8, 9, 15, 16, 17, 33])
		leaves = [rng.bytes_(32) for _ in range(count)]
		levels = o_levels(leaves)
		position = rng.randrange(count)
		path = o_path(levels, position)
		root = levels[-1][0]
		steps = [['make', hx(leaves[position]), fmt_path(path), hx(root)], ['call']]
		kind = rng.choice(['set_part', 'set_part_bytes', 'set_leaf_bytes', 'set_root_bytes', 'del_part', 'flip_flag', 'restore'])
		if not path and kind in ('set_part', 'set_part_bytes', 'del_part', 'flip_flag'):
			kind = 'set_leaf_bytes'
		if 'set_part' == kind:
			spot = rng.randrange(len(path))
			steps.append(['set_part', str(spot), hx(flip(path[spot][0], rng.randrange(256))), 'L' if path[spot][1] else 'R'])
		elif 'flip_flag' == kind:
			spot = rng.randrange(len(path))
			steps.append(['set_part', str(spot), hx(path[spot][0]), 'R' if path[spot][1] else 'L'])
		elif 'set_part_bytes' == kind:
			spot = rng.randrange(len(path))
			steps.append(['set_part_bytes', str(spot), hx(flip(path[spot][0], rng.randrange(256)))])
		elif 'del_part' == kind:
			steps.append(['del_part', str(rng.randrange(len(path)))])
		elif 'set_root_bytes' == kind:
			steps.append(['set_root_bytes', hx(flip(root, rng.randrange(256)))])
		elif 'set_leaf_bytes' == kind:
			steps.append(['set_leaf_bytes', hx(flip(leaves[position], rng.randrange(256)))])
		else:
			steps += [['set_leaf_bytes', hx(flip(leaves[position], 3))], ['call'], ['set_leaf_bytes', hx(leaves[position])]]
		judge_history(ops, ctx, 'prove_merkle', steps + [['call']], f'audit path verified again after an in-place {kind}')
		ctx.count(f'history:prove_merkle:{kind}')
	ops.settle()

	# transactions: hash, edit a field in place, hash again
	try:
		from symbolchain.CryptoTypes import PrivateKey
		from symbolchain.facade.NemFacade import NemFacade
		from symbolchain.facade.SymbolFacade import SymbolFacade
	except ImportError:
		return
	for chain, facade_class in (('symbol', SymbolFacade), ('nem', NemFacade)):
		descriptors = load_descriptors(chain)
		for network in ('testnet', 'mainnet'):
			facade = facade_class(network)
			key_pair = facade.KeyPair(PrivateKey(rng.bytes_(32)))
			candidates = list(descriptors)
			rng.shuffle(candidates)
			for descriptor in candidates[:ctx.scale(8, len(candidates))]:
				full = dict(descriptor)
				full.update({'signer_public_key': key_pair.public_key, 'deadline': rng.boundary_int(32), 'fee': rng.boundary_int(32)})
				if 'nem' == chain:
					full['timestamp'] = rng.boundary_int(32)
				transaction = facade.transaction_factory.create(full)
				signature = facade.sign_transaction(key_pair, transaction)
				facade.transaction_factory.attach_signature(transaction, signature)
				buffer = transaction.serialize()
				for kind in ('deadline', 'fee', 'signature', 'signature-in-place', 'twice'):
					steps = [['load', chain, network, hx(buffer)], ['hash']]
					if 'deadline' == kind:
						steps.append(['set', 'deadline', str(rng.boundary_int(32))])
					elif 'fee' == kind:
						steps.append(['set', 'fee', str(rng.boundary_int(32))])
					elif 'signature' == kind:
						steps.append(['set', 'signature', hx(rng.bytes_(64))])
					elif 'signature-in-place' == kind:
						steps.append(['set_bytes_in_place', 'signature', hx(rng.bytes_(64))])
					else:
						steps += [['set', 'deadline', str(rng.boundary_int(32))], ['hash'], ['set', 'fee', str(rng.boundary_int(32))]]
					judge_history(ops, ctx, 'transaction', steps + [['hash']], f'{chain} {descriptor["type"]}: hash after an in-place change of {kind}')
					ctx.count(f'history:transaction:{chain}:{kind}')
			if 'symbol' == chain:
				# aggregates: cosignatures added / removed between two hash calls, transactions hash replaced
				for _ in range(ctx.scale(4, 40)):
					embedded = [facade.transaction_factory.create_embedded({**rng.choice(descriptors), 'signer_public_key': key_pair.public_key}) for _ in range(rng.choice([1, 2, 3]))]
					aggregate = facade.transaction_factory.create({
						'type': rng.choice(['aggregate_complete_transaction_v2', 'aggregate_bonded_transaction_v2']), 'signer_public_key': key_pair.public_key,
						'fee': rng.boundary_int(32), 'deadline': rng.boundary_int(32), 'transactions_hash': facade.hash_embedded_transactions(embedded).bytes,
						'transactions': embedded})
					facade.transaction_factory.attach_signature(aggregate, facade.sign_transaction(key_pair, aggregate))
					aggregate.cosignatures.append(facade.cosign_transaction(key_pair, aggregate))
					buffer = aggregate.serialize()
					for kind, edit in (
							('pop-cosignature', ['pop_cosignature']), ('dup-cosignature', ['dup_cosignature']),
							('transactions-hash', ['set', 'transactions_hash', hx(rng.bytes_(32))])):
						steps = [['load', 'symbol', network, hx(buffer)], ['hash'], edit, ['hash']]
						judge_history(ops, ctx, 'transaction', steps, f'symbol aggregate: hash after an in-place {kind}')
						ctx.count(f'history:transaction:symbol:aggregate-{kind}')
	ops.settle()


# endregion


def run(ctx):
	run_merkle(ctx)
	run_patricia(ctx)
	run_histories(ctx)
	try:
		importlib.import_module('symbolchain.facade.SymbolFacade')
		importlib.import_module('symbolchain.facade.NemFacade')
	except ImportError as ex:
		ctx.fail('corr', f'facades cannot be imported (third-party stand-ins missing?): {ex}', {})
		return
	run_symbol_transactions(ctx)
	run_nem_transactions(ctx)


def unhx(text):
	return b'' if '-' == text else bytes.fromhex(text)


def parse_hashes(text):
	return [] if '-' == text else [unhx(item) for item in text.split(',')]


def parse_path(text):
	return [] if '-' == text else [(unhx(item.split(':')[0]), 'L' == item.split(':')[1]) for item in text.split(',')]


def parse_nodes(text):
	nodes = []
	for item in ([] if '-' == text else text.split(';')):
		kind, path, size, tail = item.split(':')
		if 'L' == kind:
			nodes.append(('L', unhx(path), int(size), unhx(tail)))
		else:
			nodes.append(('B', unhx(path), int(size), [] if '~' == tail else [None if '_' == link else unhx(link) for link in tail.split('/')]))
	return nodes


def evaluate_request(line):
	"""runs one recorded driver request on the real implementation and on the harness oracle.
	Returns (implementation answer, oracle answer or None when the expectation is not a function of the request alone)."""
	# pylint: disable=too-many-locals,too-many-return-statements,too-many-branches,too-many-statements
	from symbolchain.CryptoTypes import Hash256
	from symbolchain.symbol import Merkle

	op, *args = line.split(' ')
	if op in ('merkle_build', 'merkle_root', 'merkle_state'):
		leaves = parse_hashes(args[0])
		builder = Merkle.MerkleHashBuilder()
		for leaf in leaves:
			builder.update(Hash256(leaf))
		root = builder.final().bytes
		if 'merkle_state' == op:
			return fmt_hashes(builder.hashes), None
		return hx(root), hx(o_root(leaves))
	if 'prove_merkle' == op:
		leaf, path, root = unhx(args[0]), parse_path(args[1]), unhx(args[2])
		verdict = Merkle.prove_merkle(Hash256(leaf), [Merkle.MerklePart(Hash256(part), is_left) for part, is_left in path], Hash256(root))
		return ('true' if verdict else 'false'), ('true' if o_fold(leaf, path) == root else 'false')
	if 'audit_path' == op:
		leaves = parse_hashes(args[0])
		return fmt_path(o_path(o_levels(leaves), int(args[1]))), None
	if 'encode_path' == op:
		packed, size, is_leaf = unhx(args[0]), int(args[1]), '0' != args[2]
		result = attempt(Merkle._encode_path, Merkle.PatriciaTreePath(packed, size), is_leaf)  # pylint: disable=protected-access
		oracle = f'ok {hx(o_encode(key_nibbles(packed)[:size], is_leaf))}' if 2 * len(packed) >= size else 'none'
		return (f'ok {hx(result[1])}' if 'ok' == result[0] else 'none'), oracle
	if 'deserialize' == op:
		buffer = unhx(args[0])
		holder = Ops(type('C', (), {'count': lambda *_: None, 'notes': []})())
		deserialize_case(holder.ctx, holder, buffer, None, Merkle.deserialize_patricia_tree_nodes, 'replay')
		oracle = o_deserialize(buffer)
		return holder.items[0][1], ('ok ' + fmt_nodes(oracle[1]) if 'ok' == oracle[0] else oracle[0])
	if 'prove_patricia' == op:
		key, value, nodes, state_hash, roots = unhx(args[0]), unhx(args[1]), parse_nodes(args[2]), unhx(args[3]), parse_hashes(args[4])

		def impl_node(node):
			if 'L' == node[0]:
				return Merkle.LeafNode(Merkle.PatriciaTreePath(node[1], node[2]), Hash256(node[3]) if 32 == len(node[3]) else ByteKey(node[3]))
			return Merkle.BranchNode(Merkle.PatriciaTreePath(node[1], node[2]), [None if link is None else Hash256(link) for link in node[3]])
		result = attempt(
			Merkle.prove_patricia_merkle, Hash256(key) if 32 == len(key) else ByteKey(key), Hash256(value), [impl_node(node) for node in nodes],
			Hash256(state_hash), [Hash256(root) for root in roots])
		return (f'ok {result[1].value}' if 'ok' == result[0] else 'none'), None
	if op in ('symbol_hash', 'symbol_hash_serialized', 'signing_payload', 'symbol_window'):
		from symbolchain.facade.SymbolFacade import SymbolFacade
		if 'symbol_window' == op:
			buffer = unhx(args[0])
			result = attempt(SymbolFacade._transaction_data_buffer, buffer)  # pylint: disable=protected-access
			return (f'ok {hx(result[1])}' if 'ok' == result[0] else 'none'), (f'ok {hx(symbol_window(buffer))}' if len(buffer) >= 112 else 'none')
		seed = unhx(args[2] if 'symbol_hash' == op else args[0])
		facade = next((SymbolFacade(name) for name in ('testnet', 'mainnet') if SymbolFacade(name).network.generation_hash_seed.bytes == seed), None)
		if facade is None:
			return None, None
		buffer = unhx(args[-1])
		if 'signing_payload' == op:
			result = attempt(facade.extract_signing_payload, FakeTransaction(buffer, bytes(64), bytes(32)))
			return (f'ok {hx(result[1])}' if 'ok' == result[0] else 'none'), (f'ok {hx(seed + symbol_window(buffer))}' if len(buffer) >= 112 else 'none')
		signature, signer = (unhx(args[0]), unhx(args[1])) if 'symbol_hash' == op else (buffer[8:72], buffer[72:104])
		if 64 != len(signature) or 32 != len(signer):
			return None, None
		result = attempt(facade.hash_transaction, FakeTransaction(buffer, signature, signer))
		oracle = f'ok {hx(sha3(signature + signer + seed + symbol_window(buffer)))}' if len(buffer) >= 112 else 'none'
		return (f'ok {hx(result[1].bytes)}' if 'ok' == result[0] else 'none'), oracle
	if 'embedded_hash' == op:
		from symbolchain.facade.SymbolFacade import SymbolFacade
		buffers = parse_hashes(args[0])
		result = SymbolFacade.hash_embedded_transactions([FakeTransaction(buffer, bytes(64), bytes(32)) for buffer in buffers])
		return hx(result.bytes), hx(o_root([sha3(buffer) for buffer in buffers]))
	if op in ('nem_hash', 'nem_hash_serialized', 'nem_non_verifiable'):
		from symbolchain import nc
		from symbolchain.facade.NemFacade import NemFacade
		from symbolchain.nem.TransactionFactory import TransactionFactory
		buffer = unhx(args[0])
		factory = nc.NonVerifiableTransactionFactory if 'nem_hash' == op else nc.TransactionFactory
		result = attempt_bounded(factory.deserialize, buffer)
		if 'ok' != result[0]:
			return None, None
		if 'nem_non_verifiable' == op:
			return hx(TransactionFactory.to_non_verifiable_transaction(result[1]).serialize()), hx(buffer[:48] + buffer[116:])
		return hx(NemFacade.hash_transaction(result[1]).bytes), hx(keccak256(buffer if 'nem_hash' == op else buffer[:48] + buffer[116:]))
	return None, None


def replay(ctx, payload):
	"""re-runs the recorded request on the real implementation, the oracle and the model; the failure is reported again while the
	implementation still gives the recorded failing answer (or still disagrees with the oracle). Cases that were not a single request
	(or cannot be rebuilt from it) re-run the whole check with the recorded seed and tier."""
	print(payload.get('what', '')[:600])
	case = payload.get('case') or {}
	request = case.get('request') if isinstance(case, dict) else None
	history = case.get('history') if isinstance(case, dict) else None
	if history:
		ops = Ops(ctx)
		print('history:')
		for step in history['steps']:
			print('  ', ' '.join(step)[:200])
		answer = judge_history(ops, ctx, history['domain'], history['steps'], 'replayed history', history.get('expect'))
		print('implementation, recorded:', case.get('implementation'))
		print('implementation, now     :', answer)
		ops.settle()
		return
	if request:
		now, oracle = evaluate_request(request)
		if now is not None:
			model = ask_batched(ctx.driver, [request])[0] if ctx.driver else None
			print('request:', request[:300] + (' ...' if len(request) > 300 else ''))
			print('implementation, recorded:', case.get('implementation'))
			print('implementation, now     :', now)
			print('oracle (definition)     :', oracle if oracle is not None else '(the verdict the tree implies; see the description above)')
			print('model, now              :', model)
			ctx.case(request, {'request': request[:700], 'implementation': now, 'model': model})
			still = (oracle is not None and now != oracle) or (oracle is None and 'property' == payload.get('kind') and now == case.get('implementation'))
			if still:
				ctx.fail('property', f'replayed case still fails: implementation gives {now} on {request[:300]}', {'request': request, 'implementation': now, 'model': model})
			elif model is not None and model != now:
				ctx.fail('corr', f'model and implementation differ on the replayed request: model {model}, implementation {now}', {'request': request})
			return
	ctx.rng = type(ctx.rng)(f'{ctx.prop}:{payload.get("seed", ctx.seed)}')
	if 'thorough' == payload.get('tier'):
		ctx.search_mode = True
	run(ctx)


MANIFEST = {
	'level_text': (
		'Every clause is a Lean theorem over the models, for all inputs and any hash function: hash_symbol_def, window_plain/aggregate/short, '
		'hash_ignores_cosignatures, hash_preimage_injective, hash_covers, hash_nem_def, hash_nem_ignores_signature; merkle_final_eq_spec (the '
		'in-place loop of MerkleHashBuilder.final, with its num_remaining_hashes += 1 step, equals the textbook root for every leaf list, by '
		'induction on the loop invariant; both loops are defined by well-founded recursion on the measures n - i and n), root_empty, root_single, '
		'embedded_hash_def, prove_complete, audit_path_shape, prove_sound_or_collision, prove_iff_honest_or_collision; Patricia: encode_path_def, '
		'deserialize_serialize, deserialize_guard_unreachable and the verdict theorems verdict_state_hash, state_hash_counts_multiplicity, verdict_unanchored, '
		'verdict_leaf_value_mismatch, verdict_wrong_value, verdict_unlinked, verdict_wrong_key, verdict_inconclusive (full), walk_spells_trace and '
		'verdict_positive_partial, verdict_dead_end_partial, verdict_truncated_partial (with the explicit hypothesis IndexOK), '
		'branch_path_before_link_nibble (a branch with a non-empty path above the leaf: the order repaired by e003475f9), plus '
		'defect_equal_sibling_hashes, which shows for every hash function that the unrestricted positive statement is false of the code. The models are tied to Merkle.py / SymbolFacade.py / NemFacade.py / BufferReader.py by a differential '
		'run on generated inputs and by constants re-read from the source on every run (source_constants_tied).'),
	'level_note': (
		'Trusted: Lean kernel + {propext, Classical.choice, Quot.sound}; hand-written models tied by differential execution only; SHA3-256 / '
		'Keccak-256 are parameters (soundness statements are reductions to an explicit hash collision and assume a fixed digest length). The '
		'positive/negative/truncated Patricia verdict theorems are _partial: they assume that no earlier sibling link equals the chosen child '
		'hash (the verifier uses links.index); the excluded point is run on the real code, fails there and is an open entry of '
		'known_findings.jsonl. Facades run '
		'on pure-Python stand-ins for sha3/cryptography/nacl/ripemd; the Patricia wire writer is the inverse of the SDK reader (the SDK has none).'),
	'technique': 'Lean 4 theorems over hand-written models + differential correspondence with the Python implementation',
}

"""C08 - addresses derive from public keys per network and round-trip through text.

Correspondence: Model/Sdk/Address.lean + Base32.lean (through the driver: SHA3-256, Keccak-256 and RIPEMD-160 are the native Lean
implementations) against symbolchain.Network / symbol.Network / nem.Network; direct evaluation of the property on the
implementation against an independent statement written here: hashlib SHA3-256 / RIPEMD-160, a self-contained Keccak-256, and base32
as a bit string cut into 5-bit digits (no use of the base64 module).
"""
import datetime
import hashlib
import json
import os

from .c16 import spec_keccak
from .common import hx, sx

RULE = (
	'generation from VERIF_SEED: public keys (random, structured, and tests/vectors/*/crypto/1.test-address.json with their expected '
	'strings) x {Symbol, NEM} x {mainnet 0x68, testnet 0x98, vector identifiers 0x78/0xA8/0x60, random and boundary custom identifiers '
	'incl. 0, 255 and the refused 256+}; for every derived address: bytes, text, parse, validity on its own network and on other '
	'identifiers; a string stream built from valid texts by one edit each (character outside the alphabet, lower case, wrong length, characters inserted into / deleted from a valid string - separators, invisible characters, look-alikes, repeated characters, singly, several, at either end, grouped every 4/6/8 -, '
	'padding character, white space / line ends before, after and instead of the last character, other network kind, wrong identifier, each checksum byte perturbed, structured wrong checksums (every other window digest[k:k+n] of the checksum hash, rotations, reversal, swaps, XOR-cancelling and sum-preserving byte differences, the checksum of another network byte / without the network byte / under the other chain hash, zero-padded prefixes and suffixes, stray bytes before and after the right checksum) through text and bytes, each hash byte region perturbed, Symbol '
	'last-character aliases) plus random alphabet / non-alphabet strings; an address-bytes stream (derived, every checksum byte perturbed, '
	'identifier perturbed, random 24/25-byte arrays, odd lengths through a stub). histories of calls on shared objects (one Address object: str, assign .bytes - checksum flipped, another valid address, the address of another identifier or of the other chain -, str again, validity through both entry points, Address(str(a)); one Network object for several keys in a row; public_key_to_address twice with the key object mutated in between; copies), every answer compared with the specification on the bytes the object holds at that moment. A case is distinct by its (operation, arguments).')
TRUSTED_BASE = [
	'Lean 4.33 kernel; axioms of the property theorems: subset of {propext, Classical.choice, Quot.sound}',
	'hand-written models SymbolVerif/Model/Sdk/{Address,Base32}.lean, tied to the code by this differential run and by the constants '
	're-read from the source on every run (source_constants_tied)',
	'SHA3-256 / Keccak-256 / RIPEMD-160 are parameters of every theorem; the driver instantiates them with '
	'SymbolVerif/Model/Hash/{Keccak,Ripemd160}.lean (unverified; compared with hashlib and the harness Keccak on every case)',
	'the Python standard library base64.b32encode/b32decode under Address.__str__/__init__ (modelled, compared on every case)',
	'the sandbox stand-ins /verif/shims/{ripemd,sha3} executed underneath the real Network code',
	'translator in harness/c08.py (ast walk of Network.py, symbol/Network.py, nem/Network.py)',
]
ASSUMPTIONS = [
	'hash output lengths: address_def assumes RIPEMD-160 gives 20 bytes and the address hasher at least 4; the validity theorems assume '
	'only the 20 bytes',
	'strings restricted to valid Unicode scalar values; the address argument of is_valid_address is an object with a bytes attribute',
]

ALPHABET = 'ABCDEFGHIJKLMNOPQRSTUVWXYZ234567'
KINDS = {
	'symbol': {'size': 24, 'encoded': 39, 'checksum': 3},
	'nem': {'size': 25, 'encoded': 40, 'checksum': 4},
}
VECTOR_TAGS = {
	'symbol': {'Public': 0x68, 'PublicTest': 0x98, 'Private': 0x78, 'PrivateTest': 0xA8},
	'nem': {'Public': 0x68, 'PublicTest': 0x98, 'Mijin': 0x60},
}
EPOCH = datetime.datetime(2020, 1, 1, tzinfo=datetime.timezone.utc)

# region translator
#
# Every constant written to Generated/C08Consts.lean is read off the *running* code of the working tree, never off the spelling
# of its source: public names through translate/pyruntime.py (fresh interpreter), everything else by calling public functions
# on crafted inputs and identifying the one candidate that reproduces what they return. A behaviour-preserving refactoring
# therefore yields the same file; a change of a value yields a different file and breaks `source_constants_tied`.

_PROBE_KEYS = [bytes(range(32)), bytes((7 * index + 3) % 256 for index in range(32)), bytes([0xA5] * 32)]
_PROBE_IDENTIFIER = 0x5A


def _hash_candidates():
	"""name (as the specification spells the expected one) -> function; more than the two expected ones, so that a swap is named."""
	return {
		'hashlib.sha3_256': lambda data: hashlib.sha3_256(data).digest(),
		'sha3.keccak_256': lambda data: spec_keccak(data, 136, 32),
		'hashlib.sha256': lambda data: hashlib.sha256(data).digest(),
		'hashlib.sha3_512': lambda data: hashlib.sha3_512(data).digest(),
		'sha3.keccak_512': lambda data: spec_keccak(data, 72, 64),
		'hashlib.sha512': lambda data: hashlib.sha512(data).digest(),
	}


def _digest_candidates():
	return {
		'ripemd160': lambda data: hashlib.new('ripemd160', data).digest(),
		'sha1': lambda data: hashlib.sha1(data).digest(),
	}


def _probe_derivation(kind, network_module, problems):
	"""public_key_to_address on fixed keys: where the identifier byte is, which hash and 20-byte digest produce the middle part,
	at which offset the checksum starts, which hash of the bytes before it the checksum is the start of, and how many checksum
	bytes the public_key_to_address -> create_address hand-over carries (seen by a subclass that overrides create_address)."""
	from symbolchain.CryptoTypes import PublicKey
	result = {'hasher': '', 'ripemd_length': 0, 'hashed_prefix': 0, 'keep': 0, 'handed_over': 0}
	handed_over = []

	class Recording(network_module.Network):
		def create_address(self, address_without_checksum, checksum):
			handed_over.append((len(address_without_checksum), len(checksum)))
			return super().create_address(address_without_checksum, checksum)

	network = Recording('probe', _PROBE_IDENTIFIER, EPOCH)
	addresses = [bytes(network.public_key_to_address(PublicKey(key)).bytes) for key in _PROBE_KEYS]
	hashes = _hash_candidates()
	middles = set()
	for hash_name, hash_function in hashes.items():
		for digest_name, digest_function in _digest_candidates().items():
			positions = {address.find(digest_function(hash_function(key))) for key, address in zip(_PROBE_KEYS, addresses)}
			if 1 == len(positions) and -1 not in positions:
				middles.add((hash_name, digest_name, positions.pop(), len(digest_function(b''))))
	if 1 != len(middles):
		problems.append(f'translator: {kind}: {len(middles)} candidates (hash, digest) explain the middle part of a derived address {sorted(middles)[:3]}')
		return result
	hash_name, digest_name, start, digest_length = middles.pop()
	if 'ripemd160' != digest_name:
		problems.append(f'translator: {kind}: the key hash is digested with {digest_name}, not RIPEMD-160')
	if 1 != start or any(address[0] != _PROBE_IDENTIFIER for address in addresses):
		problems.append(f'translator: {kind}: the key digest starts at byte {start} and the identifier byte is {[address[0] for address in addresses]}')
	sizes = {len(address) for address in addresses}
	if 1 != len(sizes):
		problems.append(f'translator: {kind}: derived addresses have sizes {sorted(sizes)}')
		return result
	size = sizes.pop()
	checksums = set()
	for offset in range(1, size):
		for name, function in hashes.items():
			if all(address[offset:] == function(address[:offset])[:size - offset] for address in addresses):
				checksums.add((offset, name))
	if 1 != len(checksums):
		problems.append(f'translator: {kind}: {len(checksums)} candidates (offset, hash) explain the checksum of a derived address {sorted(checksums)[:3]}')
		return result
	offset, checksum_hash = checksums.pop()
	if checksum_hash != hash_name:
		problems.append(f'translator: {kind}: key hash is {hash_name} but checksum hash is {checksum_hash}')
	lengths = {entry[1] for entry in handed_over}
	result.update({'hasher': hash_name, 'ripemd_length': digest_length, 'hashed_prefix': offset, 'keep': size - offset})
	# when public_key_to_address no longer goes through create_address the hand-over is not observable; what is kept is
	result['handed_over'] = lengths.pop() if 1 == len(lengths) else size - offset
	return result


def _probe_validation(kind, network_module, hasher_name, problems):
	"""is_valid_address on crafted addresses: the one offset p such that bytes[p:] = start of hash(bytes[:p]) is accepted."""
	network = network_module.Network('probe', _PROBE_IDENTIFIER, EPOCH)
	size = network_module.Address.SIZE
	accepted = set()
	for name, function in _hash_candidates().items():
		for offset in range(1, size):
			verdicts = []
			for key in _PROBE_KEYS[:2]:
				prefix = (bytes([_PROBE_IDENTIFIER]) + key + key)[:offset]
				crafted = prefix + function(prefix)[:size - offset]
				verdicts.append(len(crafted) == size and network.is_valid_address(network_module.Address(crafted)))
			if all(verdicts):
				accepted.add((offset, name))
	if 1 != len(accepted):
		problems.append(f'translator: {kind}: {len(accepted)} candidates (offset, hash) describe what is_valid_address accepts {sorted(accepted)[:3]}')
		return 0
	offset, name = accepted.pop()
	if name != hasher_name:
		problems.append(f'translator: {kind}: addresses are derived with {hasher_name} but validated with {name}')
	return offset


def _probe_text(kind, address_class, problems):
	"""str(Address(bytes)) and Address(str) against base64: the least (zero bytes appended, characters cut) and the first
	(characters appended, bytes cut) in a fixed order that reproduce them. (Spellings that behave alike give the same answer.)"""
	import base64
	samples = [bytes((37 * index + 11) % 256 for index in range(address_class.SIZE)), bytes([0xFF] * address_class.SIZE), bytes(address_class.SIZE)]
	texts = [str(address_class(sample)) for sample in samples]

	def cut(value, count):
		return value[0:len(value) - count]

	printing = [
		(pad, drop) for pad in range(0, 3) for drop in range(0, 3)
		if all(cut(base64.b32encode(sample + bytes(pad)).decode('utf8'), drop) == text for sample, text in zip(samples, texts))]

	def parses(pad, drop):
		try:
			return all(cut(base64.b32decode(text + pad), drop) == bytes(address_class(text).bytes) == sample for sample, text in zip(samples, texts))
		except Exception:  # pylint: disable=broad-except
			return False

	parsing = [(pad, drop) for pad in [''] + list(ALPHABET) + ['AA', '='] for drop in range(0, 3) if parses(pad, drop)]
	if not printing or not parsing:
		problems.append(f'translator: {kind}: Address text form is not base32 with appended / cut filler (print {printing[:2]}, parse {parsing[:2]})')
		return (0, 0), ('', 0)
	return printing[0], parsing[0]


def translate(_ctx):
	"""Generated/C08Consts.lean: constants of the anchored code, obtained from the running code of the working tree on every run."""
	# pylint: disable=too-many-locals
	import importlib

	from translate import pyconst, pyruntime

	from .common import LEAN, REPO, setup_paths, write_if_changed
	problems = []
	alphabet = ''
	public = {kind: {'size': 0, 'encoded': 0, 'identifiers': []} for kind in KINDS}
	derived = {kind: {'hasher': '', 'ripemd_length': 0, 'hashed_prefix': 0, 'keep': 0, 'handed_over': 0} for kind in KINDS}
	validated = {kind: 0 for kind in KINDS}
	printing, parsing = (0, 0), ('', 0)
	try:
		setup_paths()
		alphabet = pyruntime.values(REPO, 'symbolchain.Network', ['BASE32_RFC4648_ALPHABET'])['BASE32_RFC4648_ALPHABET']
		for kind in KINDS:
			names = pyruntime.values(REPO, f'symbolchain.{kind}.Network', [
				'Address.SIZE', 'Address.ENCODED_SIZE', 'Network.MAINNET.identifier', 'Network.TESTNET.identifier'])
			public[kind] = {
				'size': names['Address.SIZE'], 'encoded': names['Address.ENCODED_SIZE'],
				'identifiers': [names['Network.MAINNET.identifier'], names['Network.TESTNET.identifier']]}
			network_module = importlib.import_module(f'symbolchain.{kind}.Network')
			derived[kind] = _probe_derivation(kind, network_module, problems)
			validated[kind] = _probe_validation(kind, network_module, derived[kind]['hasher'], problems)
			text_form = _probe_text(kind, network_module.Address, problems)
			if 'symbol' == kind:
				printing, parsing = text_form
			elif ((0, 0), ('', 0)) != text_form:
				problems.append(f'translator: nem Address text form is no longer plain base32: print {text_form[0]}, parse {text_form[1]}')
	except Exception as ex:  # pylint: disable=broad-except
		problems.append(f'translator: probing the implementation failed: {type(ex).__name__}: {str(ex)[:300]}')

	def common_value(name, values):
		if 1 != len(set(values)):
			problems.append(f'translator: {name} differs between the derivation / validation of the two address kinds: {values}')
		return values[0]

	hashed_prefix = common_value('checksum offset', [derived[kind]['hashed_prefix'] for kind in KINDS] + [validated[kind] for kind in KINDS])
	ripemd_length = common_value('key digest length', [derived[kind]['ripemd_length'] for kind in KINDS])
	checksum_length = common_value('checksum hand-over length', [derived[kind]['handed_over'] for kind in KINDS])
	text = (
		'/- generated by harness/c08.py from the behaviour of symbolchain.Network, symbol.Network, nem.Network in the working tree; do not edit -/\n'
		'namespace SymbolVerif.Generated.C08\n'
		f'def alphabet : String := {pyconst.lean_string(str(alphabet))}\n'
		f'def checksumLength : Nat := {checksum_length}\n'
		f'def hashedPrefixLength : Nat := {hashed_prefix}\n'
		f'def ripemdLength : Nat := {ripemd_length}\n'
		f'def symbolAddressSize : Nat := {public["symbol"]["size"]}\n'
		f'def symbolAddressEncodedSize : Nat := {public["symbol"]["encoded"]}\n'
		f'def symbolChecksumKeep : Nat := {derived["symbol"]["keep"]}\n'
		f'def symbolParsePad : String := {pyconst.lean_string(parsing[0])}\n'
		f'def symbolParseDrop : Nat := {parsing[1]}\n'
		f'def symbolPrintPadBytes : Nat := {printing[0]}\n'
		f'def symbolPrintDrop : Nat := {printing[1]}\n'
		f'def symbolHasher : String := {pyconst.lean_string(derived["symbol"]["hasher"])}\n'
		f'def symbolNetworkIdentifiers : List Nat := {pyconst.lean_nat_list(public["symbol"]["identifiers"])}\n'
		f'def nemAddressSize : Nat := {public["nem"]["size"]}\n'
		f'def nemAddressEncodedSize : Nat := {public["nem"]["encoded"]}\n'
		f'def nemChecksumKeep : Nat := {derived["nem"]["keep"]}\n'
		f'def nemHasher : String := {pyconst.lean_string(derived["nem"]["hasher"])}\n'
		f'def nemNetworkIdentifiers : List Nat := {pyconst.lean_nat_list(public["nem"]["identifiers"])}\n'
		'end SymbolVerif.Generated.C08\n')
	write_if_changed(os.path.join(LEAN, 'SymbolVerif', 'Generated', 'C08Consts.lean'), text)
	return problems

# endregion

# region independent oracle


def spec_hash(kind, data):
	return hashlib.sha3_256(data).digest() if 'symbol' == kind else spec_keccak(data, 136, 32)


def spec_ripemd160(data):
	return hashlib.new('ripemd160', data).digest()


def spec_address(kind, identifier, public_key):
	version = bytes([identifier]) + spec_ripemd160(spec_hash(kind, public_key))
	return version + spec_hash(kind, version)[:KINDS[kind]['checksum']]


def spec_text(data):
	"""Unpadded RFC 4648 base32: the bit string, zero-filled to a multiple of five, cut into 5-bit digits."""
	bits = ''.join(f'{byte:08b}' for byte in data)
	bits += '0' * (-len(bits) % 5)
	return ''.join(ALPHABET[int(bits[start:start + 5], 2)] for start in range(0, len(bits), 5))


def spec_parse(kind, text):
	"""Bytes of an address string, or None when it is not `encoded` characters of the alphabet."""
	if KINDS[kind]['encoded'] != len(text) or any(character not in ALPHABET for character in text):
		return None
	bits = ''.join(f'{ALPHABET.index(character):05b}' for character in text)
	size = KINDS[kind]['size']
	return bytes(int(bits[8 * index:8 * index + 8], 2) for index in range(size))


def spec_valid_bytes(kind, identifier, data):
	"""Identifier byte, then checksum = leading bytes of the hash of the first 21."""
	if not data:
		return None
	return data[0] == identifier and data[21:] == spec_hash(kind, data[:21])[:len(data[21:])]


def spec_valid_string(kind, identifier, text):
	data = spec_parse(kind, text)
	return data is not None and bool(spec_valid_bytes(kind, identifier, data))

# endregion

# region evaluation


class Evaluation:
	def __init__(self):
		self.requests = []
		self.property_failures = []
		self.branches = []

	def request(self, line, answer):
		self.requests.append((line, answer))

	def require(self, condition, what):
		if not condition:
			self.property_failures.append(what)


def attempt(function):
	try:
		return ('ok', function())
	except Exception as ex:  # pylint: disable=broad-except
		# binascii.Error and UnicodeEncodeError are ValueErrors; anything else is reported with its class name
		return ('none', type(ex).__name__)


def bool_text(value):
	return 'true' if value else 'false'


def make_network(modules, kind, identifier, shipped):
	network_class = modules[kind]['Network']
	if shipped:
		for network in network_class.NETWORKS:
			if network.identifier == identifier:
				return network
	return network_class(f'custom-{identifier}', identifier, EPOCH)


def stub(data):
	return type('AddressStub', (), {'bytes': data})()


def other_identifiers(identifier):
	candidates = [0x68, 0x98, 0x78, 0xA8, 0x60, identifier ^ 1, identifier ^ 0x80, (identifier + 1) % 256, (identifier - 1) % 256]
	return [candidate for candidate in dict.fromkeys(candidates) if candidate != identifier]


def evaluate(modules, case):
	# pylint: disable=too-many-locals,too-many-branches,too-many-statements
	out = Evaluation()
	operation, kind, identifier = case['op'], case['net'], case['id']
	address_class = modules[kind]['Address']
	sizes = KINDS[kind]
	if 'address' == operation:
		public_key = bytes.fromhex(case['pk'])
		network = make_network(modules, kind, identifier, case.get('shipped', False))
		holder = modules['PublicKey'](public_key) if 32 == len(public_key) else stub(public_key)
		result = attempt(lambda: network.public_key_to_address(holder))
		line = f'address {kind} {identifier} {hx(public_key)}'
		if not 0 <= identifier < 256:
			out.require('none' == result[0], f'identifier {identifier} is not a byte but an address was produced')
			out.request(line, 'none')
			out.branches.append('address:identifier-refused')
			return out
		if 'ok' != result[0]:
			out.require(False, f'public_key_to_address raised {result[1]}')
			out.request(line, 'none')
			return out
		address = result[1]
		expected = spec_address(kind, identifier, public_key)
		out.require(
			address.bytes == expected,
			f'{kind} address for identifier {identifier:#x} is {hx(address.bytes)}, expected id ‖ RIPEMD-160(hash(pk)) ‖ checksum = {hx(expected)}')
		out.require(sizes['size'] == len(address.bytes), f'{kind} address has {len(address.bytes)} bytes')
		out.require(isinstance(address, address_class), 'address is not of the network\'s address class')
		out.request(line, f'ok {hx(address.bytes)}')
		text = str(address)
		out.require(text == spec_text(address.bytes)[:sizes['encoded']], f'text form {text} is not the unpadded base32 of the address bytes')
		out.require(sizes['encoded'] == len(text), f'text form has {len(text)} characters')
		out.request(f'to_string {kind} {hx(address.bytes)}', sx(text))
		if case.get('expected_text'):
			out.require(text == case['expected_text'], f'text form {text} != vector address {case["expected_text"]}')
		parsed = attempt(lambda: address_class(text))
		out.require('ok' == parsed[0] and parsed[1].bytes == address.bytes and parsed[1] == address, f'Address(str(address)) != address for {text}')
		out.request(f'of_string {kind} {sx(text)}', f'ok {hx(parsed[1].bytes)}' if 'ok' == parsed[0] else 'none')
		own_bytes = attempt(lambda: network.is_valid_address(address))
		own_text = attempt(lambda: network.is_valid_address_string(text))
		out.require(('ok', True) == own_bytes, f'derived address {text} does not validate on its own network (identifier {identifier:#x})')
		out.require(('ok', True) == own_text, f'derived address string {text} does not validate on its own network (identifier {identifier:#x})')
		out.request(f'is_valid {kind} {identifier} {hx(address.bytes)}', 'ok ' + bool_text(own_bytes[1]) if 'ok' == own_bytes[0] else 'none')
		out.request(f'is_valid_string {kind} {identifier} {sx(text)}', 'ok ' + bool_text(own_text[1]) if 'ok' == own_text[0] else 'none')
		for other in other_identifiers(identifier)[:case.get('others', 3)]:
			other_network = make_network(modules, kind, other, case.get('shipped', False))
			other_bytes = attempt(lambda other_network=other_network: other_network.is_valid_address(address))
			other_text = attempt(lambda other_network=other_network: other_network.is_valid_address_string(text))
			out.require(('ok', False) == other_bytes, f'address {text} of identifier {identifier:#x} validates on identifier {other:#x}')
			out.require(('ok', False) == other_text, f'address string {text} of identifier {identifier:#x} validates on identifier {other:#x}')
			out.request(f'is_valid {kind} {other} {hx(address.bytes)}', 'ok ' + bool_text(other_bytes[1]) if 'ok' == other_bytes[0] else 'none')
		if case.get('shipped') and 32 == len(public_key):
			facades = modules.setdefault('facade-cache', {})
			if (kind, network.name) not in facades:
				facades[(kind, network.name)] = modules[kind]['Facade'](network.name)
			facade = facades[(kind, network.name)]
			account_address = facade.create_public_account(modules['PublicKey'](public_key)).address
			out.require(account_address == address, 'facade.create_public_account(pk).address != network.public_key_to_address(pk)')
		out.branches.append(f'address:{kind}:' + ('shipped' if case.get('shipped') else 'custom'))
	elif 'string' == operation:
		text = case['s']
		network = make_network(modules, kind, identifier, case.get('shipped', False))
		verdict = attempt(lambda: network.is_valid_address_string(text))
		expected = spec_valid_string(kind, identifier, text)
		reasons = []
		if sizes['encoded'] != len(text):
			reasons.append('length')
		if any(character not in ALPHABET for character in text):
			reasons.append('alphabet')
		data = spec_parse(kind, text)
		if data is not None and data[0] != identifier:
			reasons.append('identifier')
		if data is not None and data[21:] != spec_hash(kind, data[:21])[:len(data[21:])]:
			reasons.append('checksum')
		out.require(
			('ok', expected) == verdict,
			f'is_valid_address_string({text!r}) on {kind} identifier {identifier:#x} is {verdict}, expected {expected} ({"+".join(reasons) or "well formed"})')
		out.request(f'is_valid_string {kind} {identifier} {sx(text)}', 'ok ' + bool_text(verdict[1]) if 'ok' == verdict[0] else 'none')
		parsed = attempt(lambda: address_class(text))
		if data is not None:
			out.require('ok' == parsed[0] and parsed[1].bytes == data, f'Address({text!r}) != the first {sizes["size"]} bytes of its 5-bit digits')
		# what Address(...) does with a string that is not `encoded` alphabet characters is not part of the property (only of the
		# model: address_of_string_isSome_iff); the request below compares it with the model
		out.request(f'of_string {kind} {sx(text)}', f'ok {hx(parsed[1].bytes)}' if 'ok' == parsed[0] else 'none')
		if 'ok' == parsed[0]:
			# text -> bytes -> text (symbol_parse_print): the model says which spelling comes back
			out.request(f'to_string {kind} {hx(parsed[1].bytes)}', sx(str(parsed[1])))
		out.branches.append(f'string:{kind}:{case.get("edit", "?")}:' + ('valid' if expected else 'invalid'))
	elif 'bytes' == operation:
		data = bytes.fromhex(case['addr'])
		network = make_network(modules, kind, identifier, case.get('shipped', False))
		holder = address_class(data) if sizes['size'] == len(data) else stub(data)
		verdict = attempt(lambda: network.is_valid_address(holder))
		expected = spec_valid_bytes(kind, identifier, data)
		if expected is None:
			out.require('none' == verdict[0], 'is_valid_address on empty bytes did not raise')
		else:
			out.require(('ok', expected) == verdict, f'is_valid_address({hx(data)}) on {kind} identifier {identifier:#x} is {verdict}, expected {expected}')
		out.request(f'is_valid {kind} {identifier} {hx(data)}', 'ok ' + bool_text(verdict[1]) if 'ok' == verdict[0] else 'none')
		if sizes['size'] == len(data):
			text = str(holder)
			out.require(
				text == spec_text(data)[:sizes['encoded']] and sizes['encoded'] == len(text),
				f'str(Address({hx(data)})) = {text}, expected {spec_text(data)[:sizes["encoded"]]}')
			back = attempt(lambda: address_class(text))
			out.require('ok' == back[0] and back[1].bytes == data, f'Address(str(a)) != a for a = {hx(data)}')
			out.request(f'to_string {kind} {hx(data)}', sx(text))
			text_verdict = attempt(lambda: network.is_valid_address_string(text))
			out.require(('ok', bool(expected)) == text_verdict, f'is_valid_address_string(str(a)) is {text_verdict} but is_valid_address(a) should be {expected} for a = {hx(data)}')
		out.branches.append(f'bytes:{kind}:{case.get("edit", "?")}:' + ('valid' if expected else 'invalid'))
	elif 'history' == operation:
		# several calls on shared objects (one network, a few address and key objects, `bytes` being a public attribute that is
		# assigned): every answer is compared with the specification evaluated on the bytes the object holds NOW
		networks = {}

		def network_for(number):
			if number not in networks:
				networks[number] = make_network(modules, kind, number, case.get('shipped', False))
			return networks[number]

		addresses, current, keys, key_bytes = {}, {}, {}, {}
		for number, step in enumerate(case['steps']):
			action = step[0]
			where = f'step {number} {step}'
			if 'derive' == action:
				_, key_name, key_hex, target, on = step
				if key_name not in keys:
					keys[key_name] = modules['PublicKey'](bytes.fromhex(key_hex))
					key_bytes[key_name] = bytes.fromhex(key_hex)
				address = network_for(on).public_key_to_address(keys[key_name])
				expected = spec_address(kind, on, key_bytes[key_name])
				out.require(
					bytes(address.bytes) == expected,
					f'{where}: address derived for the key the object holds now ({hx(key_bytes[key_name])}) is {hx(bytes(address.bytes))}, expected {hx(expected)}')
				out.request(f'address {kind} {on} {hx(key_bytes[key_name])}', f'ok {hx(bytes(address.bytes))}')
				addresses[target], current[target] = address, expected
			elif 'mutate_key' == action:
				_, key_name, key_hex = step
				keys[key_name].bytes = bytes.fromhex(key_hex)
				key_bytes[key_name] = bytes.fromhex(key_hex)
			elif 'new' == action:
				_, target, data_hex = step
				addresses[target], current[target] = address_class(bytes.fromhex(data_hex)), bytes.fromhex(data_hex)
			elif 'copy' == action:
				_, source, target = step
				addresses[target], current[target] = address_class(addresses[source]), current[source]
			elif 'set' == action:
				_, target, data_hex = step
				addresses[target].bytes = bytes.fromhex(data_hex)
				current[target] = bytes.fromhex(data_hex)
			elif 'str' == action:
				_, target = step
				text = str(addresses[target])
				expected = spec_text(current[target])[:sizes['encoded']]
				out.require(text == expected, f'{where}: str of the address holding {hx(current[target])} is {text}, expected {expected}')
				out.request(f'to_string {kind} {hx(current[target])}', sx(text))
			elif 'roundtrip' == action:
				_, target = step
				back = attempt(lambda: address_class(str(addresses[target])))
				out.require(
					'ok' == back[0] and bytes(back[1].bytes) == current[target],
					f'{where}: Address(str(a)) holds {hx(bytes(back[1].bytes)) if "ok" == back[0] else back[1]} but a holds {hx(current[target])}')
				out.request(f'of_string {kind} {sx(spec_text(current[target])[:sizes["encoded"]])}', f'ok {hx(bytes(back[1].bytes))}' if 'ok' == back[0] else 'none')
			elif 'valid' == action:
				_, target, against = step
				verdict = attempt(lambda: network_for(against).is_valid_address(addresses[target]))
				expected = spec_valid_bytes(kind, against, current[target])
				out.require(('ok', expected) == verdict, f'{where}: is_valid_address of the address holding {hx(current[target])} on identifier {against:#x} is {verdict}, expected {expected}')
				out.request(f'is_valid {kind} {against} {hx(current[target])}', 'ok ' + bool_text(verdict[1]) if 'ok' == verdict[0] else 'none')
			elif 'valid_text' == action:
				_, target, against = step
				verdict = attempt(lambda: network_for(against).is_valid_address_string(str(addresses[target])))
				expected = spec_valid_string(kind, against, spec_text(current[target])[:sizes['encoded']])
				out.require(
					('ok', expected) == verdict,
					f'{where}: is_valid_address_string(str(a)) for a holding {hx(current[target])} on identifier {against:#x} is {verdict}, expected {expected} '
					f'(is_valid_address(a) should be {spec_valid_bytes(kind, against, current[target])})')
				out.request(f'is_valid_string {kind} {against} {sx(spec_text(current[target])[:sizes["encoded"]])}', 'ok ' + bool_text(verdict[1]) if 'ok' == verdict[0] else 'none')
			else:
				raise ValueError(f'unknown step {action}')
			for name, address in addresses.items():
				out.require(bytes(address.bytes) == current[name], f'{where} changed address object "{name}": {hx(current[name])} -> {hx(bytes(address.bytes))}')
			for name, key in keys.items():
				out.require(bytes(key.bytes) == key_bytes[name], f'{where} changed key object "{name}": {hx(key_bytes[name])} -> {hx(bytes(key.bytes))}')
			if out.property_failures:
				break
		out.branches.append(f'history:{kind}:{case.get("shape", "?")}')
	elif 'base32' == operation:
		data = bytes.fromhex(case['data'])
		import base64
		out.request(f'b32encode {hx(data)}', sx(base64.b32encode(data).decode('utf8')))
		if 0 == len(data) % 5:
			out.request(f'b32decode {sx(spec_text(data))}', f'ok {hx(data)}')
		out.branches.append('base32:len%5=' + str(len(data) % 5))
	else:
		raise ValueError(f'unknown operation {operation}')
	return out

# endregion

# region generation


def gen_identifier(rng):
	pick = rng.random()
	if pick < 0.3:
		return rng.choice([0x68, 0x98]), True
	if pick < 0.5:
		return rng.choice([0x68, 0x98, 0x78, 0xA8, 0x60]), False
	if pick < 0.65:
		return rng.choice([0, 1, 0x7F, 0x80, 0xFE, 0xFF]), False
	return rng.randrange(256), False


def gen_public_key(rng):
	pick = rng.random()
	if pick < 0.8:
		return rng.bytes_(32)
	if pick < 0.9:
		return rng.choice([bytes(32), bytes([0xFF] * 32), bytes(range(32)), bytes([0x80] + [0] * 31)])
	return rng.bytes_(rng.choice([0, 1, 31, 33, 64]))


def string_edits(rng, kind, identifier, address_bytes, text):
	"""One-edit neighbours of a valid address string (edit name, identifier to validate against, string)."""
	sizes = KINDS[kind]
	edits = []
	position = rng.randrange(len(text))
	outside = rng.choice(['0', '1', '8', '9', '=', '-', ' ', '_', '@', '[', '`', '{', 'é', 'Ａ', '\n'])
	edits.append(('outside-alphabet', identifier, text[:position] + outside + text[position + 1:]))
	letters = [index for index, character in enumerate(text) if character.isalpha()]
	if letters:
		index = rng.choice(letters)
		edits.append(('lower-case-one', identifier, text[:index] + text[index].lower() + text[index + 1:]))
	edits.append(('lower-case-all', identifier, text.lower()))
	edits.append(('shorter', identifier, text[:-1] if rng.random() < 0.5 else text[1:]))
	edits.append(('longer', identifier, text + rng.choice(ALPHABET) if rng.random() < 0.5 else rng.choice(ALPHABET) + text))
	# white space and line ends around an otherwise valid string (what a line read from a file carries; `$` and strip() treat them specially)
	for name, extra in (('lf', '\n'), ('crlf', '\r\n'), ('space', ' '), ('tab', '\t'), ('vt', '\x0b'), ('ff', '\x0c'), ('nul', '\x00'), ('ls', '\u2028'), ('nel', '\x85')):
		edits.append((f'trailing-{name}', identifier, text + extra))
		if name in ('lf', 'space', 'tab'):
			edits.append((f'leading-{name}', identifier, extra + text))
			edits.append((f'last-replaced-by-{name}', identifier, text[:-1] + extra))
	edits.append(('padding', identifier, text[:-1] + '='))
	edits.append(('padded-longer', identifier, text + '='))
	edits.append(('wrong-identifier', rng.choice(other_identifiers(identifier)), text))
	for offset in range(sizes['checksum']):
		perturbed = bytearray(address_bytes)
		perturbed[21 + offset] ^= 1 << rng.randrange(8)
		edits.append((f'checksum-byte-{offset}', identifier, spec_text(bytes(perturbed))[:sizes['encoded']]))
	perturbed = bytearray(address_bytes)
	perturbed[rng.randrange(1, 21)] ^= 1 << rng.randrange(8)
	edits.append(('hash-byte', identifier, spec_text(bytes(perturbed))[:sizes['encoded']]))
	perturbed = bytearray(address_bytes)
	perturbed[0] ^= 1 << rng.randrange(8)
	edits.append(('identifier-byte', identifier, spec_text(bytes(perturbed))[:sizes['encoded']]))
	swapped = rng.randrange(len(text) - 1)
	edits.append(('transposition', identifier, text[:swapped] + text[swapped + 1] + text[swapped] + text[swapped + 2:]))
	if 'symbol' == kind:
		# the last character carries 2 address bits and 3 filler bits: the other 7 fillers decode to the same bytes
		last = ALPHABET.index(text[-1])
		edits.append(('last-character-alias', identifier, text[:-1] + ALPHABET[(last & 0x18) | rng.randrange(1, 8)]))
	edits.append(('unchanged', identifier, text))
	return edits


def structured_checksums(rng, kind, identifier, address_bytes):
	"""Addresses whose checksum field is wrong in a *structured* way (name, bytes): related to the right checksum or to the
	checksum hash, so that a comparison which is weaker than equality with digest[0:n] (substring / window search, order-insensitive,
	accumulating differences, ignoring the network byte, prefix-only ...) accepts one of them. Same size as the address unless the
	name says otherwise; whether each is to be rejected is decided by the specification, not assumed (a variant can coincide with
	the right checksum)."""
	count = KINDS[kind]['checksum']
	versioned = address_bytes[:21]
	digest = spec_hash(kind, versioned)
	right = digest[:count]
	variants = []
	for start in range(1, 9):
		variants.append((f'window-{start}', versioned + digest[start:start + count]))
	variants.append(('window-last', versioned + digest[-count:]))
	for shift in range(1, count):
		variants.append((f'rotated-{shift}', versioned + right[shift:] + right[:shift]))
	variants.append(('reversed', versioned + right[::-1]))
	for first in range(count):
		for second in range(first + 1, count):
			swapped = bytearray(right)
			swapped[first], swapped[second] = swapped[second], swapped[first]
			variants.append((f'swapped-{first}-{second}', versioned + bytes(swapped)))
			cancelling = bytearray(right)
			delta = rng.randrange(1, 256)
			cancelling[first] ^= delta
			cancelling[second] ^= delta
			variants.append((f'xor-cancelling-{first}-{second}', versioned + bytes(cancelling)))
			summing = bytearray(right)
			summing[first] = (summing[first] + delta) % 256
			summing[second] = (summing[second] - delta) % 256
			variants.append((f'sum-preserving-{first}-{second}', versioned + bytes(summing)))
	for other in other_identifiers(identifier)[:3]:
		variants.append((f'checksum-of-identifier-{other:#x}', versioned + spec_hash(kind, bytes([other]) + versioned[1:])[:count]))
	variants.append(('checksum-without-identifier', versioned + spec_hash(kind, versioned[1:])[:count]))
	variants.append(('checksum-of-key-hash-only', versioned + spec_hash(kind, versioned[1:21] + bytes([identifier]))[:count]))
	variants.append(('double-hash', versioned + spec_hash(kind, digest)[:count]))
	variants.append(('other-hash', versioned + spec_hash('nem' if 'symbol' == kind else 'symbol', versioned)[:count]))
	variants.append(('complement', versioned + bytes(byte ^ 0xFF for byte in right)))
	for kept in range(count):
		variants.append((f'prefix-{kept}-zero-padded', versioned + right[:kept] + bytes(count - kept)))
		variants.append((f'zero-padded-suffix-{kept}', versioned + bytes(count - kept) + right[count - kept:]))
	stray = rng.randrange(256)
	variants.append(('stray-byte-before-truncated', versioned + bytes([stray]) + right[:count - 1]))
	variants.append(('right-checksum-then-stray-byte (longer)', versioned + right + bytes([stray])))
	variants.append(('stray-byte-then-right-checksum (longer)', versioned + bytes([stray]) + right))
	variants.append(('four-digest-bytes (longer)' if 3 == count else 'five-digest-bytes (longer)', versioned + digest[:count + 1]))
	variants.append(('right-checksum-twice (longer)', versioned + right + right))
	return variants


INSERTED = ['-', ' ', '_', '.', ':', '=', '\t', '\n', '\u200b', '\xa0', '0', '1', '8', '9', 'o', 'l', '/', ',']


def insertion_edits(rng, identifier, text):
	"""A valid address string with characters inserted (separators, invisible characters, look-alikes, a repeated base32
	character) or deleted: (edit name, identifier, string). Length and alphabet are tested first, so each is to be rejected."""
	edits = []
	for extra in INSERTED:
		label = f'U+{ord(extra):04X}'
		position = rng.randrange(len(text) + 1)
		edits.append((f'inserted-one-{label}', identifier, text[:position] + extra + text[position:]))
		edits.append((f'inserted-start-{label}', identifier, extra + text))
		edits.append((f'inserted-end-{label}', identifier, text + extra))
		count = rng.randrange(2, 6)
		positions = sorted(rng.randrange(len(text) + 1) for _ in range(count))
		several = text
		for offset, place in enumerate(positions):
			several = several[:place + offset] + extra + several[place + offset:]
		edits.append((f'inserted-{count}-{label}', identifier, several))
		for group in (4, 6, 8):
			grouped = extra.join(text[start:start + group] for start in range(0, len(text), group))
			edits.append((f'grouped-every-{group}-{label}', identifier, grouped))
		edits.append((f'inserted-and-one-removed-{label}', identifier, (text[:position] + extra + text[position:])[:-1]))
	for _ in range(3):
		position = rng.randrange(len(text))
		edits.append(('repeated-character', identifier, text[:position] + text[position] + text[position:]))
		edits.append(('inserted-alphabet-character', identifier, text[:position] + rng.choice(ALPHABET) + text[position:]))
		edits.append(('removed-character', identifier, text[:position] + text[position + 1:]))
		second = rng.randrange(len(text) - 1)
		removed_two = text[:position] + text[position + 1:]
		edits.append(('removed-two-characters', identifier, removed_two[:second] + removed_two[second + 1:]))
	mixed = text
	for extra in rng.sample(INSERTED, 3):
		place = rng.randrange(len(mixed) + 1)
		mixed = mixed[:place] + extra + mixed[place:]
	edits.append(('inserted-mixed', identifier, mixed))
	return edits


def load_vectors():
	from .common import REPO
	vectors = {}
	for kind in KINDS:
		with open(os.path.join(REPO, 'tests/vectors', kind, 'crypto/1.test-address.json'), 'rt', encoding='utf8') as infile:
			vectors[kind] = json.load(infile)
	return vectors


def generate(ctx, vectors):
	# pylint: disable=too-many-locals,too-many-branches
	rng = ctx.rng
	cases = []
	for kind in KINDS:
		# vector keys with their expected strings on every tagged identifier
		entries = vectors[kind]
		for entry in rng.sample(entries, min(ctx.scale(150, 3000), len(entries))):
			for tag, identifier in VECTOR_TAGS[kind].items():
				cases.append({
					'op': 'address', 'net': kind, 'id': identifier, 'pk': entry['publicKey'], 'shipped': identifier in (0x68, 0x98) and rng.random() < 0.5,
					'expected_text': entry[f'address_{tag}'], 'others': 2})
		# random keys x identifiers, with string and byte neighbourhoods of each derived address
		for _ in range(ctx.scale(1000, 8000)):
			identifier, shipped = gen_identifier(rng)
			public_key = gen_public_key(rng)
			cases.append({'op': 'address', 'net': kind, 'id': identifier, 'pk': public_key.hex().upper(), 'shipped': shipped, 'others': 3})
			address_bytes = spec_address(kind, identifier, public_key)
			text = spec_text(address_bytes)[:KINDS[kind]['encoded']]
			edits = string_edits(rng, kind, identifier, address_bytes, text)
			for edit, against, edited in (edits if rng.random() < 0.25 else rng.sample(edits, 6)):
				cases.append({'op': 'string', 'net': kind, 'id': against, 's': edited, 'edit': edit, 'shipped': shipped})
			inserted = insertion_edits(rng, identifier, text)
			for edit, against, edited in (inserted if rng.random() < 0.04 else rng.sample(inserted, 5)):
				cases.append({'op': 'string', 'net': kind, 'id': against, 's': edited, 'edit': edit, 'shipped': shipped})
			# structured wrong checksums through both entry points (bytes and, when the size fits, text)
			variants = structured_checksums(rng, kind, identifier, address_bytes)
			for name, data in (variants if rng.random() < 0.05 else rng.sample(variants, 3)):
				cases.append({'op': 'bytes', 'net': kind, 'id': identifier, 'addr': data.hex().upper(), 'edit': 'checksum:' + name, 'shipped': shipped})
			same_size = [(name, data) for name, data in variants if KINDS[kind]['size'] == len(data)]
			for name, data in (same_size if rng.random() < 0.05 else rng.sample(same_size, 3)):
				cases.append({
					'op': 'string', 'net': kind, 'id': identifier, 's': spec_text(data)[:KINDS[kind]['encoded']], 'edit': 'checksum:' + name,
					'shipped': shipped})
			pick = rng.random()
			if pick < 0.5:
				offset = rng.randrange(KINDS[kind]['checksum'])
				perturbed = bytearray(address_bytes)
				perturbed[21 + offset] = (perturbed[21 + offset] + rng.randrange(1, 256)) % 256
				cases.append({'op': 'bytes', 'net': kind, 'id': identifier, 'addr': bytes(perturbed).hex().upper(), 'edit': f'checksum-byte-{offset}', 'shipped': shipped})
			elif pick < 0.7:
				cases.append({'op': 'bytes', 'net': kind, 'id': identifier, 'addr': address_bytes.hex().upper(), 'edit': 'derived', 'shipped': shipped})
			elif pick < 0.85:
				cases.append({'op': 'bytes', 'net': kind, 'id': identifier, 'addr': rng.bytes_(KINDS[kind]['size']).hex().upper(), 'edit': 'random', 'shipped': shipped})
			else:
				length = rng.choice([0, 1, 20, 21, 22, 23, 24, 25, 26, 40])
				data = (address_bytes + rng.bytes_(20))[:length]
				cases.append({'op': 'bytes', 'net': kind, 'id': identifier, 'addr': data.hex().upper(), 'edit': f'length-{length}', 'shipped': shipped})
		# refused identifiers
		for identifier in [256, 257, 1000, 1 << 31]:
			cases.append({'op': 'address', 'net': kind, 'id': identifier, 'pk': rng.bytes_(32).hex().upper()})
		# strings that are not near any address
		for _ in range(ctx.scale(300, 4000)):
			identifier, shipped = gen_identifier(rng)
			length = rng.choice([0, 1, 8, 16, 38, 39, 39, 40, 40, 41, 48, 56])
			pool = ALPHABET if rng.random() < 0.6 else ALPHABET + 'abcz0189=- '
			cases.append({
				'op': 'string', 'net': kind, 'id': identifier, 's': ''.join(rng.choice(pool) for _ in range(length)), 'edit': 'random-string',
				'shipped': shipped})
		# a string of the other kind's valid address
		for _ in range(ctx.scale(30, 200)):
			other_kind = 'nem' if 'symbol' == kind else 'symbol'
			identifier = rng.choice([0x68, 0x98])
			other_bytes = spec_address(other_kind, identifier, rng.bytes_(32))
			cases.append({
				'op': 'string', 'net': kind, 'id': identifier, 's': spec_text(other_bytes)[:KINDS[other_kind]['encoded']], 'edit': 'other-kind',
				'shipped': True})
	# histories on shared objects: str / mutate .bytes / str again, validity through both entry points, round trip; one network for
	# several keys in a row; public_key_to_address twice with the key object mutated in between
	for kind in KINDS:
		other_kind = 'nem' if 'symbol' == kind else 'symbol'
		for number in range(ctx.scale(240, 3000)):
			identifier, shipped = gen_identifier(rng)
			other = rng.choice(other_identifiers(identifier))
			key_values = [rng.bytes_(32) for _ in range(4)]
			valid = [spec_address(kind, identifier, key) for key in key_values]
			up = lambda data: data.hex().upper()  # noqa: E731 pylint: disable=unnecessary-lambda-assignment

			def corrupted(data):
				changed = bytearray(data)
				changed[rng.choice([21, 22, 23, len(data) - 1, rng.randrange(1, 21)])] ^= 1 << rng.randrange(8)
				return bytes(changed)

			def inspect(name):
				return [['str', name], ['valid', name, identifier], ['valid_text', name, identifier], ['roundtrip', name], ['valid_text', name, other], ['valid', name, other]]

			replacements = [
				corrupted(valid[0]), valid[1], spec_address(kind, other, key_values[0]),
				(spec_address(other_kind, identifier, key_values[0]) + bytes(1))[:KINDS[kind]['size']], rng.bytes_(KINDS[kind]['size']), valid[0]]
			shape = ['str-mutate-str', 'mutate-before-first-str', 'several-keys-one-network', 'mutated-key-object', 'copies', 'random'][number % 6]
			steps = []
			if 'str-mutate-str' == shape:
				steps += [['derive', 'k0', up(key_values[0]), 'a', identifier]] + inspect('a')
				for replacement in rng.sample(replacements, 3) + [valid[0]]:
					steps += [['set', 'a', up(replacement)]] + inspect('a')
			elif 'mutate-before-first-str' == shape:
				steps += [['new', 'a', up(valid[0])], ['valid', 'a', identifier], ['set', 'a', up(rng.choice(replacements[:3]))]] + inspect('a')
				steps += [['set', 'a', up(valid[0])]] + inspect('a')
			elif 'several-keys-one-network' == shape:
				for position, key in enumerate(key_values):
					on = identifier if 1 != position % 3 else other
					steps += [['derive', f'k{position}', up(key), f'a{position}', on], ['str', f'a{position}'], ['valid', f'a{position}', identifier], ['valid_text', f'a{position}', on]]
				steps += [['derive', 'k0', up(key_values[0]), 'again', identifier], ['str', 'again'], ['str', 'a0'], ['valid_text', 'a3', identifier], ['roundtrip', 'a1']]
			elif 'mutated-key-object' == shape:
				steps += [
					['derive', 'k', up(key_values[0]), 'a', identifier], ['str', 'a'], ['mutate_key', 'k', up(key_values[1])], ['derive', 'k', up(key_values[1]), 'b', identifier],
					['str', 'b'], ['str', 'a'], ['valid_text', 'b', identifier], ['roundtrip', 'b'], ['mutate_key', 'k', up(key_values[0])],
					['derive', 'k', up(key_values[0]), 'c', identifier], ['str', 'c'], ['roundtrip', 'c'], ['valid', 'a', identifier]]
			elif 'copies' == shape:
				steps += [
					['new', 'a', up(valid[0])], ['str', 'a'], ['copy', 'a', 'b'], ['set', 'a', up(replacements[0])], ['str', 'b'], ['str', 'a'], ['copy', 'a', 'c'], ['str', 'c'],
					['valid_text', 'c', identifier], ['valid_text', 'b', identifier], ['set', 'b', up(valid[1])], ['roundtrip', 'b'], ['roundtrip', 'a'], ['str', 'c']]
			else:
				steps += [['new', 'a', up(valid[0])], ['derive', 'k0', up(key_values[0]), 'b', identifier]]
				names = ['a', 'b']
				for _ in range(rng.randrange(6, 16)):
					name = rng.choice(names)
					pick = rng.random()
					if pick < 0.3:
						steps.append(['set', name, up(rng.choice(replacements + valid))])
					elif pick < 0.4:
						names.append(f'c{len(names)}')
						steps.append(['copy', name, names[-1]])
					else:
						steps.append(rng.choice(inspect(name)))
			cases.append({'op': 'history', 'net': kind, 'id': identifier, 'shipped': shipped, 'steps': steps, 'shape': shape})
	for _ in range(ctx.scale(200, 2000)):
		cases.append({'op': 'base32', 'net': 'symbol', 'id': 0, 'data': rng.bytes_(rng.choice([0, 1, 2, 3, 4, 5, 6, 9, 10, 20, 24, 25, 26, 50])).hex().upper()})
	return cases

# endregion


def load_modules():
	from symbolchain.CryptoTypes import PublicKey
	from symbolchain.facade.NemFacade import NemFacade
	from symbolchain.facade.SymbolFacade import SymbolFacade
	from symbolchain.nem import Network as nem_network
	from symbolchain.symbol import Network as symbol_network
	return {
		'PublicKey': PublicKey,
		'symbol': {'Network': symbol_network.Network, 'Address': symbol_network.Address, 'Facade': SymbolFacade},
		'nem': {'Network': nem_network.Network, 'Address': nem_network.Address, 'Facade': NemFacade},
	}


def check_cases(ctx, modules, cases):
	evaluations = []
	for case in cases:
		try:
			evaluations.append(evaluate(modules, case))
		except Exception as ex:  # pylint: disable=broad-except
			failed = Evaluation()
			failed.property_failures.append(f'implementation raised {type(ex).__name__}: {ex}')
			evaluations.append(failed)
	lines = [line for evaluation in evaluations for line, _ in evaluation.requests]
	answers = iter(ctx.driver.ask_many(lines) if ctx.driver else [None] * len(lines))
	for case, evaluation in zip(cases, evaluations):
		model_answers = [next(answers) for _ in evaluation.requests]
		sample = {
			'case': case, 'requests': [line for line, _ in evaluation.requests][:3],
			'implementation': [answer for _, answer in evaluation.requests][:3], 'model': model_answers[:3]}
		ctx.case(json.dumps(case, sort_keys=True), sample)
		for branch in evaluation.branches:
			ctx.count(branch)
		ctx.count('op:' + case['op'])
		if evaluation.property_failures:
			ctx.fail('property', f'{evaluation.property_failures[0]} [case {json.dumps(case, ensure_ascii=True)[:400]}]', {
				'case': case, 'failures': evaluation.property_failures[:5], 'requests': [line for line, _ in evaluation.requests][:8],
				'implementation': [answer for _, answer in evaluation.requests][:8], 'model': model_answers[:8]})
			continue
		for (line, impl_answer), model_answer in zip(evaluation.requests, model_answers):
			if model_answer is not None and model_answer != impl_answer:
				ctx.fail('corr', f'model and implementation differ on {line[:300]}: model {model_answer}, implementation {impl_answer}', {
					'case': case, 'request': line, 'implementation': impl_answer, 'model': model_answer})
				break


def run(ctx):
	modules = load_modules()
	cases = generate(ctx, load_vectors())
	check_cases(ctx, modules, cases)


def replay(ctx, payload):
	print(payload['what'])
	case = payload.get('case', {}).get('case')
	if not isinstance(case, dict) or 'op' not in case:
		print('replay file carries no single case; re-running the generated stream')
		run(ctx)
		return
	check_cases(ctx, load_modules(), [case])
	for failure in ctx.failures:
		print(f'  reproduced ({failure.kind}): {failure.what}')
	if not ctx.failures:
		print('  the recorded case passes now')


MANIFEST = {
	'level_text': (
		'Every clause of the property is a Lean theorem over the model for all public keys, identifiers, address bytes and strings, and for '
		'any hash functions: address_def / symbol_address_def / nem_address_def (identifier ‖ RIPEMD-160(H(pk)) ‖ leading 3 / 4 bytes of '
		'H of those 21), address_length, derived_is_valid_on_own_network, invalid_on_other_identifier, base32_roundtrip (all byte strings of '
		'length divisible by 5) with the converse encode32_decode32 and decode32_isSome_iff (exactly the alphabet strings of whole quanta), '
		'symbol_text_roundtrip (24 bytes -> 39 characters -> same bytes; symbol_str_zero_byte_form ties the code\'s "cut the = " to "append a '
		'zero byte / an A"), nem_text_roundtrip, valid_string_iff and valid_string_total; symbol_parse_print states the converse direction exactly (the parsed address prints as the string with the three filler bits of its last character cleared). The model is tied to Network.py, symbol/Network.py, '
		'nem/Network.py by a differential run on generated inputs and the repository\'s address vectors, and by constants re-read from the '
		'source on every run (source_constants_tied).'),
	'level_note': (
		'Trusted: Lean kernel + {propext, Classical.choice, Quot.sound}; hand-written model tied by differential execution only; SHA3-256, '
		'Keccak-256, RIPEMD-160 are parameters (output lengths are hypotheses of address_def; the native Lean versions in the driver and the '
		'shims under the real code are unverified and compared with hashlib / a harness Keccak each run); base64.b32encode/b32decode of the '
		'Python standard library are modelled (padding characters are modelled as a decoding error, which is what Address(...) turns them '
		'into). Note: a Symbol address has eight accepted spellings (the last character carries three filler bits that Address(str) discards); '
		'the property as stated (bytes -> text -> bytes) holds and valid_string_iff describes the acceptance exactly.'),
	'technique': 'Lean 4 theorems over a hand-written model + differential correspondence with the Python implementation',
}

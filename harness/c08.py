"""C08 - addresses derive from public keys per network and round-trip through text.

Correspondence: Model/Sdk/Address.lean + Base32.lean (through the driver: SHA3-256, Keccak-256 and RIPEMD-160 are the native Lean
implementations) against symbolchain.Network / symbol.Network / nem.Network; direct evaluation of the property on the
implementation against an independent statement written here: hashlib SHA3-256 / RIPEMD-160, a self-contained Keccak-256, and base32
as a bit string cut into 5-bit digits (no use of the base64 module).
"""
import ast
import datetime
import hashlib
import json
import os
import re

from .c16 import spec_keccak
from .common import hx, sx

RULE = (
	'generation from VERIF_SEED: public keys (random, structured, and tests/vectors/*/crypto/1.test-address.json with their expected '
	'strings) x {Symbol, NEM} x {mainnet 0x68, testnet 0x98, vector identifiers 0x78/0xA8/0x60, random and boundary custom identifiers '
	'incl. 0, 255 and the refused 256+}; for every derived address: bytes, text, parse, validity on its own network and on other '
	'identifiers; a string stream built from valid texts by one edit each (character outside the alphabet, lower case, wrong length, '
	'padding character, other network kind, wrong identifier, each checksum byte perturbed, each hash byte region perturbed, Symbol '
	'last-character aliases) plus random alphabet / non-alphabet strings; an address-bytes stream (derived, every checksum byte perturbed, '
	'identifier perturbed, random 24/25-byte arrays, odd lengths through a stub). A case is distinct by its (operation, arguments).')
TRUSTED_BASE = [
	'Lean 4.33 kernel; axioms of the property theorems: subset of {propext, Classical.choice, Quot.sound}',
	'hand-written models SymbolVerif/Model/Sdk/{Address,Base32}.lean, tied to the code by this differential run and by the constants '
	're-read from the source on every run (source_constants_tied)',
	'SHA3-256 / Keccak-256 / RIPEMD-160 are parameters of every theorem; the driver instantiates them with '
	'SymbolVerif/Model/Hash/{Keccak,Ripemd160}.lean (unverified; compared with hashlib and the harness Keccak on every case)',
	'the Python standard library base64.b32encode/b32decode under Address.__str__/__init__ (modelled, compared on every case)',
	'the sandbox stand-ins /verif/shims/{ripemd,sha3} executed underneath the real Network code',
	'translator in harness/c08.py (ast walk of Network.py, symbol/Network.py, nem/Network.py)',
]
ASSUMPTIONS = [
	'hash output lengths: address_def assumes RIPEMD-160 gives 20 bytes and the address hasher at least 4; the validity theorems assume '
	'only the 20 bytes',
	'strings restricted to valid Unicode scalar values; the address argument of is_valid_address is an object with a bytes attribute',
]

ALPHABET = 'ABCDEFGHIJKLMNOPQRSTUVWXYZ234567'
KINDS = {
	'symbol': {'size': 24, 'encoded': 39, 'checksum': 3},
	'nem': {'size': 25, 'encoded': 40, 'checksum': 4},
}
VECTOR_TAGS = {
	'symbol': {'Public': 0x68, 'PublicTest': 0x98, 'Private': 0x78, 'PrivateTest': 0xA8},
	'nem': {'Public': 0x68, 'PublicTest': 0x98, 'Mijin': 0x60},
}
EPOCH = datetime.datetime(2020, 1, 1, tzinfo=datetime.timezone.utc)

# region translator


def _function_text(tree, class_name, function_name):
	for node in tree.body:
		if isinstance(node, ast.ClassDef) and node.name == class_name:
			for item in node.body:
				if isinstance(item, ast.FunctionDef) and item.name == function_name:
					body = [statement for statement in item.body if not (isinstance(statement, ast.Expr) and isinstance(statement.value, ast.Constant))]
					return '\n'.join(ast.unparse(statement) for statement in body)
	raise ValueError(f'{class_name}.{function_name} not found')


def _function_node(tree, class_name, function_name):
	for node in tree.body:
		if isinstance(node, ast.ClassDef) and node.name == class_name:
			for item in node.body:
				if isinstance(item, ast.FunctionDef) and item.name == function_name:
					return item
	raise ValueError(f'{class_name}.{function_name} not found')


def _extract(problems, text, pattern, what, convert=int):
	match = re.search(pattern, text)
	if not match:
		problems.append(f'translator: {what} has an unexpected shape: {text[:160]!r}')
		return convert() if convert in (int, str) else None
	return convert(match.group(1))


def translate(_ctx):
	"""Generated/C08Consts.lean: constants of the anchored files, re-read from the working tree on every run."""
	# pylint: disable=too-many-locals
	from translate import pyconst

	from .common import LEAN, REPO, write_if_changed
	base = os.path.join(REPO, 'sdk/python/symbolchain')
	problems = []
	basic_path = os.path.join(base, 'Network.py')
	symbol_path = os.path.join(base, 'symbol/Network.py')
	nem_path = os.path.join(base, 'nem/Network.py')
	alphabet = pyconst.module_constants(basic_path).get('BASE32_RFC4648_ALPHABET', '')
	basic = pyconst.parse(basic_path)
	derive_text = _function_text(basic, 'Network', 'public_key_to_address')
	checksum_length = _extract(problems, derive_text, r'\.digest\(\)\[0?:(\d+)\]', 'Network.public_key_to_address checksum slice')
	bounds = set()
	for node in ast.walk(_function_node(basic, 'Network', 'is_valid_address')):
		if isinstance(node, ast.Slice):
			for bound in (node.lower, node.upper):
				try:
					value = pyconst.const_eval(bound) if bound is not None else 0
				except ValueError:
					continue  # a computed bound such as len(...)
				if value:
					bounds.add(value)
	if 1 != len(bounds):
		problems.append(f'translator: Network.is_valid_address slices at {sorted(bounds)} instead of one checksum offset')
		bounds = {0}
	hashed_prefix = bounds.pop()
	ripemd_length = max(0, hashed_prefix - 1)

	symbol = pyconst.parse(symbol_path)
	symbol_address = pyconst.class_constants(symbol_path, 'Address')
	symbol_keep = _extract(problems, _function_text(symbol, 'Network', 'create_address'), r'\w+\[0?:(\d+)\]', 'symbol Network.create_address')
	symbol_init = _function_text(symbol, 'Address', '__init__')
	parse_pad = _extract(problems, symbol_init, r"b32decode\(\w+ \+ '([^']*)'\)\[0?:-\d+\]", 'symbol Address.__init__ decode', str)
	parse_drop = _extract(problems, symbol_init, r"b32decode\(\w+ \+ '[^']*'\)\[0?:-(\d+)\]", 'symbol Address.__init__ decode')
	symbol_str = _function_text(symbol, 'Address', '__str__')
	print_pad = _extract(problems, symbol_str, r'b32encode\(self\.bytes \+ bytes\((\d+)\)\)', 'symbol Address.__str__ encode')
	print_drop = _extract(problems, symbol_str, r"\.decode\('utf8'\)\[0?:-(\d+)\]", 'symbol Address.__str__ encode')
	symbol_hasher = _extract(problems, _function_text(symbol, 'Network', 'address_hasher'), r'^return ([\w.]+)\(\)$', 'symbol address_hasher', str)
	symbol_ids = [pyconst.attribute_call_args(symbol_path, 'Network', name)[1] for name in ('MAINNET', 'TESTNET')]

	nem = pyconst.parse(nem_path)
	nem_address = pyconst.class_constants(nem_path, 'Address')
	nem_create = _function_text(nem, 'Network', 'create_address')
	nem_keep = checksum_length if '[' not in nem_create else _extract(problems, nem_create, r'\w+\[0?:(\d+)\]', 'nem Network.create_address')
	nem_hasher = _extract(problems, _function_text(nem, 'Network', 'address_hasher'), r'^return ([\w.]+)\(\)$', 'nem address_hasher', str)
	nem_ids = [pyconst.attribute_call_args(nem_path, 'Network', name)[1] for name in ('MAINNET', 'TESTNET')]

	text = (
		'/- generated by harness/c08.py from sdk/python/symbolchain/{Network,symbol/Network,nem/Network}.py; do not edit -/\n'
		'namespace SymbolVerif.Generated.C08\n'
		f'def alphabet : String := {pyconst.lean_string(alphabet)}\n'
		f'def checksumLength : Nat := {checksum_length}\n'
		f'def hashedPrefixLength : Nat := {hashed_prefix}\n'
		f'def ripemdLength : Nat := {ripemd_length}\n'
		f'def symbolAddressSize : Nat := {symbol_address.get("SIZE", 0)}\n'
		f'def symbolAddressEncodedSize : Nat := {symbol_address.get("ENCODED_SIZE", 0)}\n'
		f'def symbolChecksumKeep : Nat := {symbol_keep}\n'
		f'def symbolParsePad : String := {pyconst.lean_string(parse_pad)}\n'
		f'def symbolParseDrop : Nat := {parse_drop}\n'
		f'def symbolPrintPadBytes : Nat := {print_pad}\n'
		f'def symbolPrintDrop : Nat := {print_drop}\n'
		f'def symbolHasher : String := {pyconst.lean_string(symbol_hasher)}\n'
		f'def symbolNetworkIdentifiers : List Nat := {pyconst.lean_nat_list(symbol_ids)}\n'
		f'def nemAddressSize : Nat := {nem_address.get("SIZE", 0)}\n'
		f'def nemAddressEncodedSize : Nat := {nem_address.get("ENCODED_SIZE", 0)}\n'
		f'def nemChecksumKeep : Nat := {nem_keep}\n'
		f'def nemHasher : String := {pyconst.lean_string(nem_hasher)}\n'
		f'def nemNetworkIdentifiers : List Nat := {pyconst.lean_nat_list(nem_ids)}\n'
		'end SymbolVerif.Generated.C08\n')
	write_if_changed(os.path.join(LEAN, 'SymbolVerif', 'Generated', 'C08Consts.lean'), text)
	return problems

# endregion

# region independent oracle


def spec_hash(kind, data):
	return hashlib.sha3_256(data).digest() if 'symbol' == kind else spec_keccak(data, 136, 32)


def spec_ripemd160(data):
	return hashlib.new('ripemd160', data).digest()


def spec_address(kind, identifier, public_key):
	version = bytes([identifier]) + spec_ripemd160(spec_hash(kind, public_key))
	return version + spec_hash(kind, version)[:KINDS[kind]['checksum']]


def spec_text(data):
	"""Unpadded RFC 4648 base32: the bit string, zero-filled to a multiple of five, cut into 5-bit digits."""
	bits = ''.join(f'{byte:08b}' for byte in data)
	bits += '0' * (-len(bits) % 5)
	return ''.join(ALPHABET[int(bits[start:start + 5], 2)] for start in range(0, len(bits), 5))


def spec_parse(kind, text):
	"""Bytes of an address string, or None when it is not `encoded` characters of the alphabet."""
	if KINDS[kind]['encoded'] != len(text) or any(character not in ALPHABET for character in text):
		return None
	bits = ''.join(f'{ALPHABET.index(character):05b}' for character in text)
	size = KINDS[kind]['size']
	return bytes(int(bits[8 * index:8 * index + 8], 2) for index in range(size))


def spec_valid_bytes(kind, identifier, data):
	"""Identifier byte, then checksum = leading bytes of the hash of the first 21."""
	if not data:
		return None
	return data[0] == identifier and data[21:] == spec_hash(kind, data[:21])[:len(data[21:])]


def spec_valid_string(kind, identifier, text):
	data = spec_parse(kind, text)
	return data is not None and bool(spec_valid_bytes(kind, identifier, data))

# endregion

# region evaluation


class Evaluation:
	def __init__(self):
		self.requests = []
		self.property_failures = []
		self.branches = []

	def request(self, line, answer):
		self.requests.append((line, answer))

	def require(self, condition, what):
		if not condition:
			self.property_failures.append(what)


def attempt(function):
	try:
		return ('ok', function())
	except Exception as ex:  # pylint: disable=broad-except
		# binascii.Error and UnicodeEncodeError are ValueErrors; anything else is reported with its class name
		return ('none', type(ex).__name__)


def bool_text(value):
	return 'true' if value else 'false'


def make_network(modules, kind, identifier, shipped):
	network_class = modules[kind]['Network']
	if shipped:
		for network in network_class.NETWORKS:
			if network.identifier == identifier:
				return network
	return network_class(f'custom-{identifier}', identifier, EPOCH)


def stub(data):
	return type('AddressStub', (), {'bytes': data})()


def other_identifiers(identifier):
	candidates = [0x68, 0x98, 0x78, 0xA8, 0x60, identifier ^ 1, identifier ^ 0x80, (identifier + 1) % 256, (identifier - 1) % 256]
	return [candidate for candidate in dict.fromkeys(candidates) if candidate != identifier]


def evaluate(modules, case):
	# pylint: disable=too-many-locals,too-many-branches,too-many-statements
	out = Evaluation()
	operation, kind, identifier = case['op'], case['net'], case['id']
	address_class = modules[kind]['Address']
	sizes = KINDS[kind]
	if 'address' == operation:
		public_key = bytes.fromhex(case['pk'])
		network = make_network(modules, kind, identifier, case.get('shipped', False))
		holder = modules['PublicKey'](public_key) if 32 == len(public_key) else stub(public_key)
		result = attempt(lambda: network.public_key_to_address(holder))
		line = f'address {kind} {identifier} {hx(public_key)}'
		if not 0 <= identifier < 256:
			out.require('none' == result[0], f'identifier {identifier} is not a byte but an address was produced')
			out.request(line, 'none')
			out.branches.append('address:identifier-refused')
			return out
		if 'ok' != result[0]:
			out.require(False, f'public_key_to_address raised {result[1]}')
			out.request(line, 'none')
			return out
		address = result[1]
		expected = spec_address(kind, identifier, public_key)
		out.require(
			address.bytes == expected,
			f'{kind} address for identifier {identifier:#x} is {hx(address.bytes)}, expected id ‖ RIPEMD-160(hash(pk)) ‖ checksum = {hx(expected)}')
		out.require(sizes['size'] == len(address.bytes), f'{kind} address has {len(address.bytes)} bytes')
		out.require(isinstance(address, address_class), 'address is not of the network\'s address class')
		out.request(line, f'ok {hx(address.bytes)}')
		text = str(address)
		out.require(text == spec_text(address.bytes)[:sizes['encoded']], f'text form {text} is not the unpadded base32 of the address bytes')
		out.require(sizes['encoded'] == len(text), f'text form has {len(text)} characters')
		out.request(f'to_string {kind} {hx(address.bytes)}', sx(text))
		if case.get('expected_text'):
			out.require(text == case['expected_text'], f'text form {text} != vector address {case["expected_text"]}')
		parsed = attempt(lambda: address_class(text))
		out.require('ok' == parsed[0] and parsed[1].bytes == address.bytes and parsed[1] == address, f'Address(str(address)) != address for {text}')
		out.request(f'of_string {kind} {sx(text)}', f'ok {hx(parsed[1].bytes)}' if 'ok' == parsed[0] else 'none')
		own_bytes = attempt(lambda: network.is_valid_address(address))
		own_text = attempt(lambda: network.is_valid_address_string(text))
		out.require(('ok', True) == own_bytes, f'derived address {text} does not validate on its own network (identifier {identifier:#x})')
		out.require(('ok', True) == own_text, f'derived address string {text} does not validate on its own network (identifier {identifier:#x})')
		out.request(f'is_valid {kind} {identifier} {hx(address.bytes)}', 'ok ' + bool_text(own_bytes[1]) if 'ok' == own_bytes[0] else 'none')
		out.request(f'is_valid_string {kind} {identifier} {sx(text)}', 'ok ' + bool_text(own_text[1]) if 'ok' == own_text[0] else 'none')
		for other in other_identifiers(identifier)[:case.get('others', 3)]:
			other_network = make_network(modules, kind, other, case.get('shipped', False))
			other_bytes = attempt(lambda other_network=other_network: other_network.is_valid_address(address))
			other_text = attempt(lambda other_network=other_network: other_network.is_valid_address_string(text))
			out.require(('ok', False) == other_bytes, f'address {text} of identifier {identifier:#x} validates on identifier {other:#x}')
			out.require(('ok', False) == other_text, f'address string {text} of identifier {identifier:#x} validates on identifier {other:#x}')
			out.request(f'is_valid {kind} {other} {hx(address.bytes)}', 'ok ' + bool_text(other_bytes[1]) if 'ok' == other_bytes[0] else 'none')
		if case.get('shipped') and 32 == len(public_key):
			facades = modules.setdefault('facade-cache', {})
			if (kind, network.name) not in facades:
				facades[(kind, network.name)] = modules[kind]['Facade'](network.name)
			facade = facades[(kind, network.name)]
			account_address = facade.create_public_account(modules['PublicKey'](public_key)).address
			out.require(account_address == address, 'facade.create_public_account(pk).address != network.public_key_to_address(pk)')
		out.branches.append(f'address:{kind}:' + ('shipped' if case.get('shipped') else 'custom'))
	elif 'string' == operation:
		text = case['s']
		network = make_network(modules, kind, identifier, case.get('shipped', False))
		verdict = attempt(lambda: network.is_valid_address_string(text))
		expected = spec_valid_string(kind, identifier, text)
		reasons = []
		if sizes['encoded'] != len(text):
			reasons.append('length')
		if any(character not in ALPHABET for character in text):
			reasons.append('alphabet')
		data = spec_parse(kind, text)
		if data is not None and data[0] != identifier:
			reasons.append('identifier')
		if data is not None and data[21:] != spec_hash(kind, data[:21])[:len(data[21:])]:
			reasons.append('checksum')
		out.require(
			('ok', expected) == verdict,
			f'is_valid_address_string({text!r}) on {kind} identifier {identifier:#x} is {verdict}, expected {expected} ({"+".join(reasons) or "well formed"})')
		out.request(f'is_valid_string {kind} {identifier} {sx(text)}', 'ok ' + bool_text(verdict[1]) if 'ok' == verdict[0] else 'none')
		parsed = attempt(lambda: address_class(text))
		if data is None:
			out.require('none' == parsed[0], f'Address({text!r}) was accepted: {hx(parsed[1].bytes) if "ok" == parsed[0] else ""}')
		else:
			out.require('ok' == parsed[0] and parsed[1].bytes == data, f'Address({text!r}) != the first {sizes["size"]} bytes of its 5-bit digits')
		out.request(f'of_string {kind} {sx(text)}', f'ok {hx(parsed[1].bytes)}' if 'ok' == parsed[0] else 'none')
		if 'ok' == parsed[0]:
			# text -> bytes -> text (symbol_parse_print): the model says which spelling comes back
			out.request(f'to_string {kind} {hx(parsed[1].bytes)}', sx(str(parsed[1])))
		out.branches.append(f'string:{kind}:{case.get("edit", "?")}:' + ('valid' if expected else 'invalid'))
	elif 'bytes' == operation:
		data = bytes.fromhex(case['addr'])
		network = make_network(modules, kind, identifier, case.get('shipped', False))
		holder = address_class(data) if sizes['size'] == len(data) else stub(data)
		verdict = attempt(lambda: network.is_valid_address(holder))
		expected = spec_valid_bytes(kind, identifier, data)
		if expected is None:
			out.require('none' == verdict[0], 'is_valid_address on empty bytes did not raise')
		else:
			out.require(('ok', expected) == verdict, f'is_valid_address({hx(data)}) on {kind} identifier {identifier:#x} is {verdict}, expected {expected}')
		out.request(f'is_valid {kind} {identifier} {hx(data)}', 'ok ' + bool_text(verdict[1]) if 'ok' == verdict[0] else 'none')
		if sizes['size'] == len(data):
			text = str(holder)
			out.require(
				text == spec_text(data)[:sizes['encoded']] and sizes['encoded'] == len(text),
				f'str(Address({hx(data)})) = {text}, expected {spec_text(data)[:sizes["encoded"]]}')
			back = attempt(lambda: address_class(text))
			out.require('ok' == back[0] and back[1].bytes == data, f'Address(str(a)) != a for a = {hx(data)}')
			out.request(f'to_string {kind} {hx(data)}', sx(text))
			text_verdict = attempt(lambda: network.is_valid_address_string(text))
			out.require(('ok', bool(expected)) == text_verdict, f'is_valid_address_string(str(a)) is {text_verdict} but is_valid_address(a) should be {expected} for a = {hx(data)}')
		out.branches.append(f'bytes:{kind}:{case.get("edit", "?")}:' + ('valid' if expected else 'invalid'))
	elif 'base32' == operation:
		data = bytes.fromhex(case['data'])
		import base64
		out.request(f'b32encode {hx(data)}', sx(base64.b32encode(data).decode('utf8')))
		if 0 == len(data) % 5:
			out.request(f'b32decode {sx(spec_text(data))}', f'ok {hx(data)}')
		out.branches.append('base32:len%5=' + str(len(data) % 5))
	else:
		raise ValueError(f'unknown operation {operation}')
	return out

# endregion

# region generation


def gen_identifier(rng):
	pick = rng.random()
	if pick < 0.3:
		return rng.choice([0x68, 0x98]), True
	if pick < 0.5:
		return rng.choice([0x68, 0x98, 0x78, 0xA8, 0x60]), False
	if pick < 0.65:
		return rng.choice([0, 1, 0x7F, 0x80, 0xFE, 0xFF]), False
	return rng.randrange(256), False


def gen_public_key(rng):
	pick = rng.random()
	if pick < 0.8:
		return rng.bytes_(32)
	if pick < 0.9:
		return rng.choice([bytes(32), bytes([0xFF] * 32), bytes(range(32)), bytes([0x80] + [0] * 31)])
	return rng.bytes_(rng.choice([0, 1, 31, 33, 64]))


def string_edits(rng, kind, identifier, address_bytes, text):
	"""One-edit neighbours of a valid address string (edit name, identifier to validate against, string)."""
	sizes = KINDS[kind]
	edits = []
	position = rng.randrange(len(text))
	outside = rng.choice(['0', '1', '8', '9', '=', '-', ' ', '_', '@', '[', '`', '{', 'é', 'Ａ', '\n'])
	edits.append(('outside-alphabet', identifier, text[:position] + outside + text[position + 1:]))
	letters = [index for index, character in enumerate(text) if character.isalpha()]
	if letters:
		index = rng.choice(letters)
		edits.append(('lower-case-one', identifier, text[:index] + text[index].lower() + text[index + 1:]))
	edits.append(('lower-case-all', identifier, text.lower()))
	edits.append(('shorter', identifier, text[:-1] if rng.random() < 0.5 else text[1:]))
	edits.append(('longer', identifier, text + rng.choice(ALPHABET) if rng.random() < 0.5 else rng.choice(ALPHABET) + text))
	edits.append(('padding', identifier, text[:-1] + '='))
	edits.append(('padded-longer', identifier, text + '='))
	edits.append(('wrong-identifier', rng.choice(other_identifiers(identifier)), text))
	for offset in range(sizes['checksum']):
		perturbed = bytearray(address_bytes)
		perturbed[21 + offset] ^= 1 << rng.randrange(8)
		edits.append((f'checksum-byte-{offset}', identifier, spec_text(bytes(perturbed))[:sizes['encoded']]))
	perturbed = bytearray(address_bytes)
	perturbed[rng.randrange(1, 21)] ^= 1 << rng.randrange(8)
	edits.append(('hash-byte', identifier, spec_text(bytes(perturbed))[:sizes['encoded']]))
	perturbed = bytearray(address_bytes)
	perturbed[0] ^= 1 << rng.randrange(8)
	edits.append(('identifier-byte', identifier, spec_text(bytes(perturbed))[:sizes['encoded']]))
	swapped = rng.randrange(len(text) - 1)
	edits.append(('transposition', identifier, text[:swapped] + text[swapped + 1] + text[swapped] + text[swapped + 2:]))
	if 'symbol' == kind:
		# the last character carries 2 address bits and 3 filler bits: the other 7 fillers decode to the same bytes
		last = ALPHABET.index(text[-1])
		edits.append(('last-character-alias', identifier, text[:-1] + ALPHABET[(last & 0x18) | rng.randrange(1, 8)]))
	edits.append(('unchanged', identifier, text))
	return edits


def load_vectors():
	from .common import REPO
	vectors = {}
	for kind in KINDS:
		with open(os.path.join(REPO, 'tests/vectors', kind, 'crypto/1.test-address.json'), 'rt', encoding='utf8') as infile:
			vectors[kind] = json.load(infile)
	return vectors


def generate(ctx, vectors):
	# pylint: disable=too-many-locals,too-many-branches
	rng = ctx.rng
	cases = []
	for kind in KINDS:
		# vector keys with their expected strings on every tagged identifier
		entries = vectors[kind]
		for entry in rng.sample(entries, min(ctx.scale(150, 3000), len(entries))):
			for tag, identifier in VECTOR_TAGS[kind].items():
				cases.append({
					'op': 'address', 'net': kind, 'id': identifier, 'pk': entry['publicKey'], 'shipped': identifier in (0x68, 0x98) and rng.random() < 0.5,
					'expected_text': entry[f'address_{tag}'], 'others': 2})
		# random keys x identifiers, with string and byte neighbourhoods of each derived address
		for _ in range(ctx.scale(1000, 20000)):
			identifier, shipped = gen_identifier(rng)
			public_key = gen_public_key(rng)
			cases.append({'op': 'address', 'net': kind, 'id': identifier, 'pk': public_key.hex().upper(), 'shipped': shipped, 'others': 3})
			address_bytes = spec_address(kind, identifier, public_key)
			text = spec_text(address_bytes)[:KINDS[kind]['encoded']]
			edits = string_edits(rng, kind, identifier, address_bytes, text)
			for edit, against, edited in (edits if rng.random() < 0.25 else rng.sample(edits, 4)):
				cases.append({'op': 'string', 'net': kind, 'id': against, 's': edited, 'edit': edit, 'shipped': shipped})
			pick = rng.random()
			if pick < 0.5:
				offset = rng.randrange(KINDS[kind]['checksum'])
				perturbed = bytearray(address_bytes)
				perturbed[21 + offset] = (perturbed[21 + offset] + rng.randrange(1, 256)) % 256
				cases.append({'op': 'bytes', 'net': kind, 'id': identifier, 'addr': bytes(perturbed).hex().upper(), 'edit': f'checksum-byte-{offset}', 'shipped': shipped})
			elif pick < 0.7:
				cases.append({'op': 'bytes', 'net': kind, 'id': identifier, 'addr': address_bytes.hex().upper(), 'edit': 'derived', 'shipped': shipped})
			elif pick < 0.85:
				cases.append({'op': 'bytes', 'net': kind, 'id': identifier, 'addr': rng.bytes_(KINDS[kind]['size']).hex().upper(), 'edit': 'random', 'shipped': shipped})
			else:
				length = rng.choice([0, 1, 20, 21, 22, 23, 24, 25, 26, 40])
				data = (address_bytes + rng.bytes_(20))[:length]
				cases.append({'op': 'bytes', 'net': kind, 'id': identifier, 'addr': data.hex().upper(), 'edit': f'length-{length}', 'shipped': shipped})
		# refused identifiers
		for identifier in [256, 257, 1000, 1 << 31]:
			cases.append({'op': 'address', 'net': kind, 'id': identifier, 'pk': rng.bytes_(32).hex().upper()})
		# strings that are not near any address
		for _ in range(ctx.scale(300, 4000)):
			identifier, shipped = gen_identifier(rng)
			length = rng.choice([0, 1, 8, 16, 38, 39, 39, 40, 40, 41, 48, 56])
			pool = ALPHABET if rng.random() < 0.6 else ALPHABET + 'abcz0189=- '
			cases.append({
				'op': 'string', 'net': kind, 'id': identifier, 's': ''.join(rng.choice(pool) for _ in range(length)), 'edit': 'random-string',
				'shipped': shipped})
		# a string of the other kind's valid address
		for _ in range(ctx.scale(30, 200)):
			other_kind = 'nem' if 'symbol' == kind else 'symbol'
			identifier = rng.choice([0x68, 0x98])
			other_bytes = spec_address(other_kind, identifier, rng.bytes_(32))
			cases.append({
				'op': 'string', 'net': kind, 'id': identifier, 's': spec_text(other_bytes)[:KINDS[other_kind]['encoded']], 'edit': 'other-kind',
				'shipped': True})
	for _ in range(ctx.scale(200, 2000)):
		cases.append({'op': 'base32', 'net': 'symbol', 'id': 0, 'data': rng.bytes_(rng.choice([0, 1, 2, 3, 4, 5, 6, 9, 10, 20, 24, 25, 26, 50])).hex().upper()})
	return cases

# endregion


def load_modules():
	from symbolchain.CryptoTypes import PublicKey
	from symbolchain.facade.NemFacade import NemFacade
	from symbolchain.facade.SymbolFacade import SymbolFacade
	from symbolchain.nem import Network as nem_network
	from symbolchain.symbol import Network as symbol_network
	return {
		'PublicKey': PublicKey,
		'symbol': {'Network': symbol_network.Network, 'Address': symbol_network.Address, 'Facade': SymbolFacade},
		'nem': {'Network': nem_network.Network, 'Address': nem_network.Address, 'Facade': NemFacade},
	}


def check_cases(ctx, modules, cases):
	evaluations = []
	for case in cases:
		try:
			evaluations.append(evaluate(modules, case))
		except Exception as ex:  # pylint: disable=broad-except
			failed = Evaluation()
			failed.property_failures.append(f'implementation raised {type(ex).__name__}: {ex}')
			evaluations.append(failed)
	lines = [line for evaluation in evaluations for line, _ in evaluation.requests]
	answers = iter(ctx.driver.ask_many(lines) if ctx.driver else [None] * len(lines))
	for case, evaluation in zip(cases, evaluations):
		model_answers = [next(answers) for _ in evaluation.requests]
		sample = {
			'case': case, 'requests': [line for line, _ in evaluation.requests][:3],
			'implementation': [answer for _, answer in evaluation.requests][:3], 'model': model_answers[:3]}
		ctx.case(json.dumps(case, sort_keys=True), sample)
		for branch in evaluation.branches:
			ctx.count(branch)
		ctx.count('op:' + case['op'])
		if evaluation.property_failures:
			ctx.fail('property', f'{evaluation.property_failures[0]} [case {json.dumps(case, ensure_ascii=True)[:400]}]', {
				'case': case, 'failures': evaluation.property_failures[:5], 'requests': [line for line, _ in evaluation.requests][:8],
				'implementation': [answer for _, answer in evaluation.requests][:8], 'model': model_answers[:8]})
			continue
		for (line, impl_answer), model_answer in zip(evaluation.requests, model_answers):
			if model_answer is not None and model_answer != impl_answer:
				ctx.fail('corr', f'model and implementation differ on {line[:300]}: model {model_answer}, implementation {impl_answer}', {
					'case': case, 'request': line, 'implementation': impl_answer, 'model': model_answer})
				break


def run(ctx):
	modules = load_modules()
	cases = generate(ctx, load_vectors())
	check_cases(ctx, modules, cases)


def replay(ctx, payload):
	print(payload['what'])
	case = payload.get('case', {}).get('case')
	if not isinstance(case, dict) or 'op' not in case:
		print('replay file carries no single case; re-running the generated stream')
		run(ctx)
		return
	check_cases(ctx, load_modules(), [case])
	for failure in ctx.failures:
		print(f'  reproduced ({failure.kind}): {failure.what}')
	if not ctx.failures:
		print('  the recorded case passes now')


MANIFEST = {
	'level_text': (
		'Every clause of the property is a Lean theorem over the model for all public keys, identifiers, address bytes and strings, and for '
		'any hash functions: address_def / symbol_address_def / nem_address_def (identifier ‖ RIPEMD-160(H(pk)) ‖ leading 3 / 4 bytes of '
		'H of those 21), address_length, derived_is_valid_on_own_network, invalid_on_other_identifier, base32_roundtrip (all byte strings of '
		'length divisible by 5) with the converse encode32_decode32 and decode32_isSome_iff (exactly the alphabet strings of whole quanta), '
		'symbol_text_roundtrip (24 bytes -> 39 characters -> same bytes; symbol_str_zero_byte_form ties the code\'s "cut the = " to "append a '
		'zero byte / an A"), nem_text_roundtrip, valid_string_iff and valid_string_total; symbol_parse_print states the converse direction exactly (the parsed address prints as the string with the three filler bits of its last character cleared). The model is tied to Network.py, symbol/Network.py, '
		'nem/Network.py by a differential run on generated inputs and the repository\'s address vectors, and by constants re-read from the '
		'source on every run (source_constants_tied).'),
	'level_note': (
		'Trusted: Lean kernel + {propext, Classical.choice, Quot.sound}; hand-written model tied by differential execution only; SHA3-256, '
		'Keccak-256, RIPEMD-160 are parameters (output lengths are hypotheses of address_def; the native Lean versions in the driver and the '
		'shims under the real code are unverified and compared with hashlib / a harness Keccak each run); base64.b32encode/b32decode of the '
		'Python standard library are modelled (padding characters are modelled as a decoding error, which is what Address(...) turns them '
		'into). Note: a Symbol address has eight accepted spellings (the last character carries three filler bits that Address(str) discards); '
		'the property as stated (bytes -> text -> bytes) holds and valid_string_iff describes the acceptance exactly.'),
	'technique': 'Lean 4 theorems over a hand-written model + differential correspondence with the Python implementation',
}

"""C20 - include ordering is a strict weak order and the linter's own fixes are fixed points.

Translator: the constants of the comparator are obtained from the RUNNING code on every run (module-level tables by name, everything
else by probing SortableInclude.__lt__ on crafted pairs; source shape is not read) into Generated/C20Tables.lean.

Correspondence: Model/Lint/IncludeOrder.lean and Model/Lint/Indent.lean (through the driver) against the real
checkProjectStructure.SortableInclude / Entry.check_includes and HeaderParser (parse, report_indents, fix_indents and the
temp-file protocol), plus direct evaluation of the order axioms, order independence of `sorted`, and the fixed-point /
locality / no-stray-file clauses on the implementation.
"""
import ast
import itertools
import json
import os
import re
import subprocess
import sys

from .common import LEAN, REPO, sx, write_if_changed

RULE = (
	'includes: every distinct include string of client/catapult/**/*.{h,cpp} (read with HeaderParser.PATTERN_INCLUDE) plus synthetic '
	'ones of every class (C / C++ system, external, boost-like, every first-level priority key x depth 1,2,3+ x tests part, second-level '
	'keys, unknown first part, mismatched delimiters, code points around "/" and non-ASCII); a VERIF_SEED sample (80 quick / 300 thorough) '
	'is compared on ALL ordered pairs (model vs SortableInclude.__lt__) and the four order axioms are evaluated on the implementation for '
	'all pairs and triples; sets of size 2..6 (8 thorough) incl. duplicates are sorted in every permutation. Include lists of real files '
	'(shuffled) and synthetic ones go through Entry.check_includes twice (propose, rewrite, re-lint). Files with seeded mis-indentations '
	'(scratch copies, same relative path) go through --fix-indents twice. A case is distinct by its input tuple.')
TRUSTED_BASE = [
	'Lean 4.33 kernel; axioms of the property theorems: subset of {propext, Classical.choice, Quot.sound}',
	'hand-written models SymbolVerif/Model/Lint/{IncludeOrder,Indent}.lean, tied to the code by this differential run only',
	'translator in harness/c20.py: module-level priority tables by name from the running module (translate/pyruntime.py), prefixes, C-header suffix, '
	'second-level part, tests part, default priority, tests bonus and directive words by probing SortableInclude.__lt__ / HeaderParser.Preproc',
	'stand-ins /verif/shims/{ply,colorama} (needed to import the linter at all; not exercised by the C20 code paths)',
	'Python str comparison = code point order; list.sort/sorted uses only __lt__ and is deterministic',
]
ASSUMPTIONS = [
	'own directory of a file contains no regex metacharacters (Entry.fix_relative uses it as a pattern); checked for the tree',
	'\\w in PATTERN_PREPROCESSOR is modelled on ASCII; files are valid UTF-8',
	'the set of Python whitespace characters is compared with the model below U+3100 on every run',
]

CPS = 'linters/cpp/checkProjectStructure.py'
HP = 'linters/cpp/HeaderParser.py'


# region translator


PROBE_PROGRAM = r"""
import json, sys
import checkProjectStructure as cps
import HeaderParser
spec = json.load(sys.stdin)


def make(include):
	return cps.SortableInclude(HeaderParser.Include('#include ' + include, 1, include, ''), None)


def lt(left, right):
	try:
		return bool(make(left) < make(right))
	except Exception as ex:  # pylint: disable=broad-except
		return type(ex).__name__


def directive(word):
	try:
		HeaderParser.Preproc('#' + word, 1, word)
		return True
	except Exception:  # pylint: disable=broad-except
		return False


includes = spec['includes']
print(json.dumps({
	'matrix': [[lt(left, right) for right in includes] for left in includes],
	'pairs': [lt(left, right) for left, right in spec['pairs']],
	'directives': [word for word in spec['words'] if directive(word)]}))
"""


def _probe(spec):
	"""Runs PROBE_PROGRAM against the working tree in a fresh interpreter: SortableInclude.__lt__ on every ordered pair of
	spec['includes'] (True / False / name of the exception), and which of spec['words'] HeaderParser.Preproc accepts."""
	paths = [os.path.join(REPO, 'linters/cpp'), os.path.join(os.path.dirname(LEAN), 'shims')]
	env = dict(os.environ, PYTHONPATH=os.pathsep.join(paths), PYTHONDONTWRITEBYTECODE='1')
	proc = subprocess.run([sys.executable, '-c', PROBE_PROGRAM], input=json.dumps(spec), env=env, capture_output=True, text=True, timeout=300, check=False)
	if 0 != proc.returncode:
		raise ValueError(f'probe of checkProjectStructure failed: {proc.stderr.strip()[-300:]}')
	return json.loads(proc.stdout.strip().split('\n')[-1])


def _constants(relpath):
	"""Every string and integer constant that occurs anywhere in a source file (candidates for the probes; no shape is read)."""
	with open(os.path.join(REPO, relpath), 'rt', encoding='utf8') as infile:
		tree = ast.parse(infile.read(), relpath)
	strings, numbers = [], []
	for node in ast.walk(tree):
		if isinstance(node, ast.Constant):
			if isinstance(node.value, str) and node.value not in strings:
				strings.append(node.value)
			elif isinstance(node.value, int) and not isinstance(node.value, bool) and node.value not in numbers:
				numbers.append(node.value)
	return strings, numbers


def model_lt(tables, left, right):
	"""The comparison the Lean model computes from `tables` (Model/Lint/IncludeOrder.lean `lt`), used to read d, t off the answers."""
	def mark(prefixes, include):
		return any(include.startswith(prefix) for prefix in prefixes)

	def value(parts):
		first = parts[0]
		result = dict(tables['prio1']).get(first, tables['defaultPrio'])
		if first == tables['secondLevelOf'] and len(parts) > 1:
			result += dict(tables['prio2']).get(parts[1], 0)
		if tables['testsPart'] in parts:
			result += tables['testsBonus']
		return result

	def depth(count):
		return 0 if 1 == count else 2 if 2 == count else 1

	if left[:1] != right[:1]:
		return left[:1] < right[:1]
	keys = []
	for include in (left, right):
		parts = include.split('/')
		quoted = include.startswith('"')
		keys.append((
			include.startswith('<') and include.endswith(tables['cSuffix']) and not mark(tables['cppPrefixes'], include),
			not mark(tables['externalPrefixes'], include), not mark(tables['cppPrefixes'], include),
			value(parts) if quoted else 0, depth(len(parts)) if quoted else 0, parts))
	return keys[0] < keys[1]


_TABLES_CACHE = {}


def extract_tables():
	"""The constants of the comparator as the RUNNING code has them: module-level tables by name (translate/pyruntime.py), everything
	that is not a name by probing SortableInclude.__lt__ on crafted pairs. Returns (tables, problems); never raises."""
	if REPO not in _TABLES_CACHE:
		try:
			_TABLES_CACHE[REPO] = _extract_tables()
		except Exception as ex:  # pylint: disable=broad-except
			fallback = {
				'externalPrefixes': [], 'cppPrefixes': [], 'prio1': [], 'prio2': [], 'defaultPrio': 0, 'secondLevelOf': '', 'testsPart': '',
				'testsBonus': 0, 'cSuffix': '', 'ppDirectives': []}
			_TABLES_CACHE[REPO] = (fallback, [f'the comparator tables could not be obtained from the running code: {type(ex).__name__}: {ex}'])
	return _TABLES_CACHE[REPO]


def _extract_tables():
	# pylint: disable=too-many-locals,too-many-branches,too-many-statements
	from translate import pyruntime  # pylint: disable=import-outside-toplevel
	problems = []
	names = pyruntime.values(REPO, 'checkProjectStructure', ['list(INCLUDE_PRIORITIES_1LVL.items())', 'list(INCLUDE_PRIORITIES_2LVL.items())'])
	prio1 = [(key, value) for key, value in names['list(INCLUDE_PRIORITIES_1LVL.items())']]
	prio2 = [(key, value) for key, value in names['list(INCLUDE_PRIORITIES_2LVL.items())']]
	strings, numbers = _constants(CPS)
	header_strings, _ = _constants(HP)

	# --- probe set
	system_prefixes = [text for text in strings if text.startswith('<') and len(text) > 1 and '>' not in text and ' ' not in text]
	suffix_candidates = [text for text in strings if text.endswith('>') and not text.startswith('<') and 1 < len(text) <= 6]
	firsts = [key[1:] for key, _ in prio1 if key.startswith('"')] + ['zzother', 'Aother']
	seconds = [key for key, _ in prio2] + ['zzsecond']
	part_candidates = [text for text in strings if re.fullmatch(r'[A-Za-z_]\w*', text) and len(text) <= 12][:40]
	includes = ['<!>', '<~~~>', '<q>', '<vector>']
	pairs = []
	for prefix in system_prefixes:
		includes += [prefix + '/~>']
		pairs += [(prefix + '/~>', '<!>'), (prefix + '~>', '<!>'), (prefix[:-1] + '/~>', '<!>')]
		pairs += [(left, right) for suffix in suffix_candidates for left, right in (('<~~~>', prefix + '/q' + suffix), (prefix + '/q' + suffix, '<~~~>'))]
	for suffix in suffix_candidates:
		includes += ['<q' + suffix, '<zz/q' + suffix]
		pairs += [(left, right) for name in ('<q' + suffix, '<q' + suffix[1:]) for left, right in (('<~~~>', name), (name, '<~~~>'))]
	for first in firsts:
		includes += [f'"{first}"', f'"{first}/f.h"', f'"{first}/m/f.h"', f'"{first}/m/n/f.h"', f'"{first}/tests/f.h"']
		for second in seconds[:-1]:
			pairs += [(f'"{first}/{second}/f.h"', f'"{first}/{reference}/f.h"')[::step] for reference in ('~~', '!') for step in (1, -1)]
	includes += [f'"{first}/{second}/f.h"' for first in firsts for second in seconds[:-1] + ['tests']][:60]
	includes += [f'"{first}/{second}/tests/f.h"' for first in firsts[-4:] + firsts[:2] for second in seconds[:-1]]
	for part in part_candidates:
		pairs += [(f'"zzother/{part}/f.h"', f'"zzother/{reference}/f.h"')[::step] for reference in ('~~', '!') for step in (1, -1)]
	includes = list(dict.fromkeys(includes))
	words = list(dict.fromkeys([text for text in header_strings if re.fullmatch(r'[a-z_]+', text)] + [
		'define', 'undef', 'if', 'ifdef', 'ifndef', 'elif', 'else', 'endif', 'pragma', 'error', 'warning', 'line', 'include', 'extern', 'import']))
	answer = _probe({'includes': includes, 'pairs': pairs, 'words': words})
	position = {include: index for index, include in enumerate(includes)}
	matrix = answer['matrix']
	explicit = dict(zip(map(tuple, pairs), answer['pairs']))

	def lt(left, right):
		if (left, right) in explicit:
			return explicit[(left, right)]
		return matrix[position[left]][position[right]]

	raised = sorted({cell for row in matrix for cell in row if not isinstance(cell, bool)} | {cell for cell in answer['pairs'] if not isinstance(cell, bool)})
	if raised:
		problems.append(f'SortableInclude.__lt__ raises {raised} on crafted includes')

	# --- system headers: the C-header suffix, then the marked prefixes (external before boost-like; boost-like are never C headers)
	def is_c(include):
		return True is lt('<~~~>', include) and False is lt(include, '<~~~>')

	c_suffixes = [suffix for suffix in suffix_candidates if is_c('<q' + suffix) and not is_c('<q' + suffix[1:])]
	if 1 != len(c_suffixes):
		problems.append(f'cannot tell the suffix of a C system header from the answers (candidates that behave like one: {c_suffixes})')
	c_suffix = c_suffixes[0] if c_suffixes else ''
	external, cpp = [], []
	for prefix in system_prefixes:
		if True is lt(prefix + '/~>', '<!>') and True is lt(prefix + '~>', '<!>') and True is not lt(prefix[:-1] + '/~>', '<!>'):
			(external if c_suffix and is_c(prefix + '/q' + c_suffix) else cpp).append(prefix)

	# --- local headers: which first part has a second level, which path part earns the bonus (the answer contradicts the path order)
	def changes_priority(include, base):
		found = False
		for reference in ('~~', '!'):
			other = base.format(reference)
			found = found or lt(include, other) != (include.split('/') < other.split('/')) or lt(other, include) != (other.split('/') < include.split('/'))
		return found

	second_level = [
		first for first in firsts
		if any(changes_priority(f'"{first}/{second}/f.h"', '"' + first + '/{}/f.h"') for second in seconds[:-1])]
	bonus_parts = [part for part in part_candidates if changes_priority(f'"zzother/{part}/f.h"', '"zzother/{}/f.h"')]
	if 1 != len(second_level):
		problems.append(f'first path parts with a second priority level: {second_level} (the model has exactly one)')
	if 1 != len(bonus_parts):
		problems.append(f'path parts that change the priority of a local include: {bonus_parts} (the model has exactly one)')
	tables = {
		'externalPrefixes': external, 'cppPrefixes': cpp, 'prio1': prio1, 'prio2': prio2, 'secondLevelOf': '"' + second_level[0] if second_level else '',
		'testsPart': bonus_parts[0] if bonus_parts else '', 'cSuffix': c_suffix, 'ppDirectives': answer['directives']}

	# --- the two numbers that are not names: read off the answers (any pair that reproduces every answer is the same comparator)
	def mismatches(default, bonus, subset, limit=None):
		tables['defaultPrio'], tables['testsBonus'] = default, bonus
		count = 0
		for left in subset:
			for right in subset:
				if model_lt(tables, left, right) != matrix[position[left]][position[right]]:
					count += 1
					if limit is not None and count >= limit:
						return count
		return count

	def preference(number):
		return (0 if number > 0 else 1, abs(number))

	without_bonus = [include for include in includes if not bonus_parts or bonus_parts[0] not in include.split('/')]
	candidates = sorted(set(numbers) | {0, 1}, key=preference)
	defaults = [number for number in candidates if 0 == mismatches(number, 0, without_bonus, 1)]
	default = defaults[0] if defaults else min(candidates, key=lambda number: mismatches(number, 0, without_bonus))
	table_values = {value for _, value in prio1 + prio2}
	# among the numbers that reproduce every answer (they are the same comparator) take one that is not a table entry, if there is one
	candidates = sorted(candidates, key=lambda number: (number in table_values, preference(number)))
	bonuses = [number for number in candidates if 0 == mismatches(default, number, includes, 1)]
	bonus = bonuses[0] if bonuses else min(candidates, key=lambda number: mismatches(default, number, includes))
	remaining = mismatches(default, bonus, includes)
	if remaining:
		example = next((left, right) for left in includes for right in includes if model_lt(tables, left, right) != lt(left, right))
		problems.append(
			f'no default priority / tests bonus reproduces the answers of SortableInclude.__lt__ ({remaining} of {len(includes) ** 2} crafted pairs '
			f'differ, e.g. {example[0]!r} < {example[1]!r} is {lt(*example)}): the comparison is not the cascade of the model')
	tables['defaultPrio'], tables['testsBonus'] = default, bonus
	return tables, problems


def lean_chars(text):
	def one(char):
		if char in "'\\":
			return "'\\" + char + "'"
		if 32 <= ord(char) < 127:
			return f"'{char}'"
		return f'(Char.ofNat {ord(char)})'
	return '[' + ', '.join(one(char) for char in text) + ']'


def lean_table(pairs):
	return '[' + ', '.join(f'({lean_chars(key)}, ({value} : Int))' for key, value in pairs) + ']'


def translate(_ctx):
	tables, problems = extract_tables()
	text = (
		f'/- generated by harness/c20.py from {CPS} and {HP}; do not edit -/\n'
		'import SymbolVerif.Model.Lint.IncludeOrder\n'
		'namespace SymbolVerif.Generated.C20\n'
		'open SymbolVerif.Lint\n'
		'def tables : Tables where\n'
		f'  externalPrefixes := [{", ".join(map(lean_chars, tables["externalPrefixes"]))}]\n'
		f'  cppPrefixes := [{", ".join(map(lean_chars, tables["cppPrefixes"]))}]\n'
		f'  prio1 := {lean_table(tables["prio1"])}\n'
		f'  prio2 := {lean_table(tables["prio2"])}\n'
		f'  defaultPrio := {tables["defaultPrio"]}\n'
		f'  secondLevelOf := {lean_chars(tables["secondLevelOf"])}\n'
		f'  testsPart := {lean_chars(tables["testsPart"])}\n'
		f'  testsBonus := {tables["testsBonus"]}\n'
		f'  cSuffix := {lean_chars(tables["cSuffix"])}\n'
		f'def ppDirectives : List (List Char) := [{", ".join(map(lean_chars, tables["ppDirectives"]))}]\n'
		'end SymbolVerif.Generated.C20\n')
	write_if_changed(os.path.join(LEAN, 'SymbolVerif', 'Generated', 'C20Tables.lean'), text)
	return [f'translator: {problem}' for problem in problems]


# endregion

# region inputs


def tree_files():
	base = os.path.join(REPO, 'client/catapult')
	found = []
	for top in ('src', 'sdk', 'tests', 'plugins', 'extensions', 'tools'):
		for dirpath, dirnames, names in os.walk(os.path.join(base, top)):
			dirnames.sort()
			for name in sorted(names):
				if name.endswith('.h') or name.endswith('.cpp'):
					found.append(os.path.relpath(os.path.join(dirpath, name), base))
	return base, found


def tree_includes(pattern):
	"""Distinct include strings of the tree (group 1 of the linter's own PATTERN_INCLUDE), with the number of uses."""
	base, files = tree_files()
	counts = {}
	for relpath in files:
		with open(os.path.join(base, relpath), 'rt', encoding='utf8', errors='replace') as infile:
			for line in infile:
				if 'include' in line:
					match = pattern.match(line.rstrip('\n'))
					if match:
						counts[match.group(1)] = counts.get(match.group(1), 0) + 1
	return counts


def synthetic_includes(tables):
	"""At least one include of every class the comparator distinguishes, and the boundaries between the classes."""
	out = []
	# system headers: C, C++, C-looking boost, external, boost-like
	out += ['<stdio.h>', '<string.h>', '<sys/types.h>', '<vector>', '<string>', '<a>', '<z.h>', '<.h>', '<>', '<h>', '<x.hh>', '<x.h.>']
	for prefix in tables['externalPrefixes']:
		out += [prefix + '/x.h>', prefix + '>', prefix + '/sub/y.hpp>', prefix + '.h>', prefix[:-1] + '>', prefix[:-1] + '.h>']
	for prefix in tables['cppPrefixes']:
		out += [prefix + '/x.h>', prefix + '/x.hpp>', prefix + '>', prefix + '/a/b/c.h>', prefix[:-1] + '.h>', prefix.upper() + '.h>']
	# local headers by priority key x depth x tests part
	firsts = [key for key, _ in tables['prio1']] + ['"other', '"', '"Symbol', '"srcs', '"tes']
	for first in firsts:
		out += [first + '.h"', first + '"', first + '/A.h"', first + '/b/A.h"', first + '/b/c/A.h"', first + '/tests/A.h"', first + '/b/tests/c/A.h"',
			first + '/tests"', first + '/test/A.h"']
	for second, _ in tables['prio2']:
		sl = tables['secondLevelOf']
		out += [f'{sl}/{second}"', f'{sl}/{second}/A.h"', f'{sl}/{second}/tests/A.h"', f'{sl}/{second}x/A.h"', f'"other/{second}/A.h"', f'"catapult/{second}/A.h"']
	# file names only, ordering around '/', case, digits, non-ASCII, empty parts, mismatched delimiters
	out += ['"A.h"', '"a.h"', '"B.h"', '"Z.h"', '"a/B.h"', '"a.b/B.h"', '"a0/B.h"', '"a//B.h"', '"/a/B.h"', '"a/"', '"/"', '""', '"a-b/c.h"',
		'"aé/B.h"', '"中/B.h"', '"a/B.h>', '<a/B.h"', '"tests"', '"tests/"', '"x/tests"', '"x/y/tests"', '"x/tests/y"', '"x/Tests/y"']
	seen = set()
	return [item for item in out if not (item in seen or seen.add(item))]


# endregion

# region order axioms and sorting


def make_include(cps, header_parser, include, rest=''):
	return cps.SortableInclude(header_parser.Include(f'#include {include}{rest}', 1, include, rest), None)


def check_order(ctx, cps, header_parser, sample, label):
	"""Model vs implementation on all ordered pairs; the four axioms directly on the implementation (pairs and triples)."""
	objects = [make_include(cps, header_parser, include) for include in sample]
	count = len(sample)
	rows = []
	for left in objects:
		bits = 0
		for index, right in enumerate(objects):
			if left < right:
				bits |= 1 << index
		rows.append(bits)
	ctx.count(f'order:{label}:pairs', count * count)
	full = (1 << count) - 1

	def case(indices):
		return {'kind': 'order', 'includes': [sample[index] for index in indices]}

	# direct: irreflexive, asymmetric, transitive, transitive incomparability
	cols = [0] * count
	for i in range(count):
		for j in range(count):
			if rows[i] >> j & 1:
				cols[j] |= 1 << i
	for i in range(count):
		if rows[i] >> i & 1:
			ctx.fail('property', f'include comparison is not irreflexive: {sample[i]!r} < itself', case([i]))
		both = rows[i] & cols[i]
		if both:
			j = both.bit_length() - 1
			ctx.fail('property', f'include comparison is not asymmetric: {sample[i]!r} < {sample[j]!r} and {sample[j]!r} < {sample[i]!r}', case([i, j]))
	incomparable = [full & ~(rows[i] | cols[i]) for i in range(count)]
	triples = 0
	for i in range(count):
		row = rows[i]
		rest = row
		while rest:
			j = (rest & -rest).bit_length() - 1
			rest &= rest - 1
			missing = rows[j] & ~row
			triples += count
			if missing:
				k = missing.bit_length() - 1
				ctx.fail(
					'property', f'include comparison is not transitive: {sample[i]!r} < {sample[j]!r} < {sample[k]!r} but not {sample[i]!r} < {sample[k]!r}',
					case([i, j, k]))
		rest = incomparable[i]
		while rest:
			j = (rest & -rest).bit_length() - 1
			rest &= rest - 1
			missing = incomparable[j] & ~incomparable[i]
			triples += count
			if missing:
				k = missing.bit_length() - 1
				ctx.fail(
					'property',
					f'incomparability is not transitive: {sample[i]!r} ~ {sample[j]!r} ~ {sample[k]!r} but {sample[i]!r} and {sample[k]!r} are ordered', case([i, j, k]))
			if j != i and sample[i] != sample[j]:
				ctx.fail('property', f'distinct includes are incomparable (the demanded order is not unique): {sample[i]!r}, {sample[j]!r}', case([i, j]))
	ctx.count(f'order:{label}:triples', triples)

	# correspondence on all ordered pairs
	if ctx.driver:
		lines = [f'lt {sx(sample[i])} {sx(sample[j])}' for i in range(count) for j in range(count)]
		answers = ctx.driver.ask_many(lines)
		position = 0
		for i in range(count):
			for j in range(count):
				impl = 'true' if rows[i] >> j & 1 else 'false'
				if answers[position] != impl:
					ctx.fail('corr', f'lt({sample[i]!r}, {sample[j]!r}): model {answers[position]}, implementation {impl}', case([i, j]))
				position += 1
	for i in range(count):
		ctx.case(('order', label, sample[i]), {'include': sample[i], 'less_than_count': bin(rows[i]).count('1')} if i < 3 else None)


def check_sorting(ctx, cps, header_parser, pool):
	"""Every permutation of small sets through Python's sorted() on real SortableInclude objects."""
	rng = ctx.rng
	largest = ctx.scale(6, 8)
	plan = []
	for size in range(2, largest + 1):
		repeats = {2: 40, 3: 40, 4: 30, 5: 12, 6: 5, 7: 3, 8: 2}[size] * (3 if ctx.thorough and size < 7 else 1)
		for _ in range(repeats):
			chosen = rng.sample(pool, size)
			if rng.random() < 0.25:
				chosen[rng.randrange(size)] = chosen[rng.randrange(size)]  # a duplicate include (with a different trailing comment)
			plan.append(chosen)
	requests = []
	for chosen in plan:
		rests = ['' if index % 2 else f' // {index}' for index in range(len(chosen))]
		objects = [make_include(cps, header_parser, include, rest) for include, rest in zip(chosen, rests)]
		reference = None
		permutations = 0
		for order in itertools.permutations(range(len(chosen))):
			result = [item.include for item in sorted(objects[index] for index in order)]
			permutations += 1
			if reference is None:
				reference = result
			elif result != reference:
				ctx.fail(
					'property', f'sorted() of the same includes depends on the written order: {[chosen[index] for index in order]!r} -> {result!r}, '
					f'{chosen!r} -> {reference!r}', {'kind': 'sort', 'includes': chosen, 'order': list(order)})
				break
		ctx.count(f'sort:size{len(chosen)}:permutations', permutations)
		for first, second in zip(reference, reference[1:]):
			left, right = make_include(cps, header_parser, first), make_include(cps, header_parser, second)
			if right < left:
				ctx.fail('property', f'sorted() result is not ascending: {second!r} < {first!r} in {reference!r}', {'kind': 'sort', 'includes': chosen})
		ctx.case(('sort', tuple(chosen)), {'includes': chosen, 'sorted': reference} if len(chosen) == 4 else None)
		requests.append((chosen, reference))
	if ctx.driver:
		answers = ctx.driver.ask_many(['sort ' + ','.join(sx(include) for include in chosen) for chosen, _ in requests])
		for (chosen, reference), answer in zip(requests, answers):
			impl = ','.join(sx(include) for include in reference)
			if answer != impl:
				ctx.fail('corr', f'sort of {chosen!r}: model and implementation differ', {'kind': 'sort', 'includes': chosen, 'model': answer, 'implementation': reference})


# endregion

# region proposed include order (Entry.check_includes)


class _Quiet:
	"""check_includes prints the mismatch it found; keep the check's output readable."""

	def __enter__(self):
		self.saved = sys.stdout
		sys.stdout = open(os.devnull, 'wt', encoding='utf8')  # pylint: disable=consider-using-with

	def __exit__(self, *args):
		sys.stdout.close()
		sys.stdout = self.saved


def run_check_includes(cps, header_parser, directory, filename, ruleset, includes):
	"""includes: [(include, rest)] as written. Returns (proposed include strings, complaints, own header or None)."""
	entry = cps.Entry(directory, filename, ruleset)
	preprocessor = [header_parser.Include(f'#include {include}{rest}', index + 1, include, rest) for index, (include, rest) in enumerate(includes)]
	reports = []
	with _Quiet():
		entry.check_includes(lambda group, err: reports.append((group, err)), preprocessor)
	complaints = sorted({group for group, _ in reports})
	proposed = None
	for group, err in reports:
		if 'includesOrder' == group:
			proposed = [(item.include, item.rest) for item in err.includes]
	if proposed is None:
		proposed = [(include, rest) for include, rest in includes if not cps.is_special_include(include)]
	return proposed, complaints, entry


def own_header_of(cps, header_parser, entry, includes):
	"""The own header the rule set demands, obtained by the same calls check_includes makes."""
	full_path = entry.full_path()
	if not full_path.endswith('.cpp'):
		return None
	path_elements = re.split(r'[/\\]', full_path)
	plain = [(include, rest) for include, rest in includes if not cps.is_special_include(include)]
	objects = []
	for include, rest in plain:
		item = header_parser.Include(f'#include {include}{rest}', 1, include, rest)
		entry.fix_relative(item)
		objects.append(cps.SortableInclude(item, entry.ruleset))
	objects.sort()
	if 'tests' in path_elements:
		return entry.ruleset.first_test_include_check(objects, path_elements)
	return entry.ruleset.first_include_check(objects, path_elements)


def check_proposals(ctx, cps, header_parser, base, files):
	rng = ctx.rng
	requests = []
	saved_cwd = os.getcwd()
	os.chdir(base)
	try:
		for relpath in files:
			top = relpath.split('/')[0]
			ruleset = cps.SOURCE_DIRS[top]
			directory, filename = os.path.split(relpath)
			if any(skip.match(relpath) for skip in cps.SKIP_FILES):
				continue
			parsed = header_parser.HeaderParser(lambda group, err: None, relpath, [])
			written = [(item.include, item.rest) for item in parsed.preprocessor if item.type == header_parser.PpType.INCLUDE]
			plain = [pair for pair in written if not cps.is_special_include(pair[0])]
			if not plain:
				continue
			case = {'kind': 'propose', 'file': relpath}
			proposed0, complaints0, entry = run_check_includes(cps, header_parser, directory, filename, ruleset, written)
			if complaints0:
				ctx.count('propose:tree-file-with-complaint')

			variant = list(written)
			mode = rng.randrange(4)
			if mode >= 1:
				rng.shuffle(variant)
			if 2 == mode and entry.include_fix_own_path not in ('/', ''):
				# an include of a sibling header spelled with the full own directory (fix_relative must shorten it)
				variant.insert(rng.randrange(len(variant) + 1), (f'"{entry.include_fix_own_path}Sibling{rng.randrange(100)}.h"', ''))
				ctx.count('propose:with-own-directory-include')
			if 3 == mode:
				variant.append(variant[rng.randrange(len(variant))])
				ctx.count('propose:with-duplicate')
			case['written'] = [include for include, _ in variant]
			try:
				proposed1, complaints1, _ = run_check_includes(cps, header_parser, directory, filename, ruleset, variant)
				own = own_header_of(cps, header_parser, entry, variant)
			except (IndexError, RuntimeError) as ex:
				ctx.count(f'propose:raised:{type(ex).__name__}')
				continue
			names1 = [include for include, _ in proposed1]
			ctx.case(('propose', relpath, tuple(case['written'])), {'file': relpath, 'written': case['written'][:6], 'proposed': names1[:6]} if rng.random() < 0.02 else None)
			ctx.count(f'propose:{top}:{"cpp" if relpath.endswith(".cpp") else "h"}')

			# direct: the proposal does not depend on the written order
			if mode in (0, 1) and names1 != [include for include, _ in proposed0]:
				ctx.fail(
					'property', f'{relpath}: the proposed include order depends on the written order: {names1!r} vs {[i for i, _ in proposed0]!r}',
					dict(case, proposed=names1, proposed_for_file_order=[i for i, _ in proposed0]))
			# direct: rewriting the includes as proposed leaves no complaint and is a fixed point
			proposed2, complaints2, _ = run_check_includes(cps, header_parser, directory, filename, ruleset, proposed1)
			names2 = [include for include, _ in proposed2]
			if 'includesOrder' in complaints2:
				ctx.fail(
					'property', f'{relpath}: after rewriting the includes in the proposed order the linter still reports includesOrder: {names1!r} -> {names2!r}',
					dict(case, proposed=names1, proposed_again=names2))
			elif names2 != names1:
				ctx.fail('property', f'{relpath}: proposing twice is not a fixed point: {names1!r} -> {names2!r}', dict(case, proposed=names1, proposed_again=names2))
			if 'firstInclude' in complaints2 and own in names1:
				ctx.fail(
					'property', f'{relpath}: after rewriting, firstInclude is still reported although the own header {own!r} is among the includes',
					dict(case, proposed=names1, own=own))
			if sorted(names1) != sorted(item.include for item in _fixed(cps, header_parser, entry, variant)):
				ctx.fail('property', f'{relpath}: the proposal is not a rearrangement of the written includes', dict(case, proposed=names1))

			plain_variant = [include for include, _ in variant if not cps.is_special_include(include)]
			requests.append((
				f'propose {sx(entry.include_fix_own_path)} {1 if relpath.endswith(".cpp") else 0} {sx(own if own is not None else "?")} '
				+ ','.join(sx(include) for include in plain_variant),
				f'{",".join(sx(include) for include in names1)} order={"true" if "includesOrder" in complaints1 else "false"} '
				f'first={"true" if "firstInclude" in complaints1 else "false"}', dict(case, own=own, own_path=entry.include_fix_own_path)))
	finally:
		os.chdir(saved_cwd)
	if ctx.driver:
		answers = ctx.driver.ask_many([request for request, _, _ in requests])
		for (request, impl, case), answer in zip(requests, answers):
			if answer != impl:
				ctx.fail('corr', f'{case["file"]}: proposed order / complaints differ: model {answer}, implementation {impl}', dict(case, model=answer, implementation=impl))


def _fixed(cps, header_parser, entry, includes):
	out = []
	for include, rest in includes:
		if cps.is_special_include(include):
			continue
		item = header_parser.Include(f'#include {include}{rest}', 1, include, rest)
		entry.fix_relative(item)
		out.append(item)
	return out


# endregion

# region --fix-indents

def pp_line_numbers(text):
	"""Independent statement of "preprocessor line": a line whose first non-blank character is '#', and the lines continuing it
	(1-based; a line continues the previous one when that one ends in a backslash).  Include lines never start a continuation."""
	numbers = {}
	continuing = False
	first = False
	for number, line in enumerate(text.split('\n')[:-1] if text.endswith('\n') else text.split('\n'), 1):
		if continuing:
			numbers[number] = 'first-continuation' if first else 'later-continuation'
			first = False
			continuing = line.endswith('\\')
		elif line.lstrip().startswith('#'):
			numbers[number] = 'directive'
			is_include = re.match(r'\s*#\s*include[ \t]*["<][^">]*[">]', line) is not None
			continuing = line.endswith('\\') and not is_include
			first = True
	return numbers


def seed_misindentation(rng, text):
	"""Mis-indents preprocessor lines of a conforming file. Returns (new text, list of (line number, what))."""
	lines = text.split('\n')
	kinds = pp_line_numbers(text)
	edits = []
	candidates = [number for number in kinds if lines[number - 1].strip() != '#pragma once' or rng.random() < 0.3]
	rng.shuffle(candidates)
	for number in sorted(candidates[:rng.choice([1, 1, 2, 3, 6])]):
		line = lines[number - 1]
		if 'directive' == kinds[number]:
			lead = rng.choice([' ', '\t', '  ', '\t\t', ' \t', '    ', '\x0c', '\xa0 '])
			tail = rng.choice(['', '', '', ' ', '\t']) if not line.endswith('\\') else ''
			lines[number - 1] = lead + line + tail
			edits.append((number, f'directive indented by {lead!r}' + (f', trailing {tail!r}' if tail else '')))
		elif 'first-continuation' == kinds[number]:
			stripped = line.lstrip('\t')
			tabs = rng.choice([0, 2, 3])
			lines[number - 1] = '\t' * tabs + stripped
			edits.append((number, f'first continuation line given {tabs} tabs'))
			# report_indents looks at the continuation only after an indented directive
			if lines[number - 2].lstrip() == lines[number - 2] and rng.random() < 0.7:
				lines[number - 2] = '\t' + lines[number - 2]
				edits.append((number - 1, 'directive indented by a tab'))
	return '\n'.join(lines), edits


SYNTHETIC_FILES = [
	('two-continuations', '#pragma once\n#define TWO(X) \\\n\tdo { \\\n\t\tX; \\\n\t} while (false)\n\nint x;\n'),
	('indented-define', '#pragma once\n\t#define TWO(X) \\\n\t\t\tdo { X; } while (false)\nint x;\n'),
	('indented-define-no-tab', '#pragma once\n  #define ONE(X) \\\ndo { X; } while (false)\nint x;\n'),
	('indented-pragma-once', '  #pragma once\n#include <vector>\n'),
	('extern-c', '#pragma once\nextern "C" {\n\t#include <x.h>\n}\n'),
	('ifdef-nest', '#ifdef A\n #ifdef B\n  #include "b.h"\n #else\n  #error "no"\n #endif\n#endif\n'),
	('include-backslash', ' #include <vector> \\\n\tint y;\n'),
	# outside the property's quantifier (not a mis-indentation; no CR/LF mix in the tree): model correspondence only
	('corr-only:backslash-then-space', '#pragma once\n #define A(X) \\ \nint z;\n'),
	('corr-only:crlf', '#pragma once\r\n\t#include <vector>\r\nint z;\r\n'),
	('corr-only:lone-cr', '#pragma once\n\t#include <a>\rint q;\n #include <b>\n'),
	('no-final-newline', '#pragma once\n\t#include <vector>'),
	('only-pragma', '#pragma once\nint x;\n'),
	('no-preprocessor', 'int x;\n\nint y;\n'),
	('empty-continuation', ' #define E \\\n\\\n\nint x;\n'),
]


def ask_each(ctx, requests):
	"""Requests that carry whole files: one round trip each (pipelining them would fill both pipes)."""
	return [ctx.driver.ask(request) for request in requests]


def listing(directory):
	return sorted(os.listdir(directory))


def lint_indents(header_parser, path, fix):
	"""HeaderParser on one file. Returns (outcome, reports [(lineno, kind)], fixes [(kind, lineno)], exception text)."""
	reports = []
	try:
		parsed = header_parser.HeaderParser(lambda group, err: reports.append((group, err)), path, [], fix_indents_in_files=fix)
	except TypeError as ex:
		return 'TypeError', [], [], str(ex)
	except RuntimeError as ex:
		return 'RuntimeError', [], [], str(ex)
	indents = [(err.lineno, err.kind) for group, err in reports if 'indentedPreprocessor' == group]
	fixes = [('P' if header_parser.MultilineMacro.PPLINE == fix_.type else 'C', fix_.lineno) for fix_ in parsed.fixes]
	return 'ok', indents, fixes, None


def fix_pass(ctx, header_parser, path, case):
	"""One --fix-indents pass over `path` through the real HeaderParser.__init__. Returns True when the pass went through."""
	directory = os.path.dirname(path) or '.'
	with open(path, 'rb') as infile:
		before = infile.read()
	names_before = listing(directory)
	outcome, _, _, text = lint_indents(header_parser, path, True)
	if 'ok' == outcome:
		return True
	if 'RuntimeError' == outcome:
		return False
	with open(path, 'rb') as infile:
		intact = infile.read() == before
	stray = sorted(set(listing(directory)) - set(names_before))
	ctx.fail(
		'property', f'--fix-indents raises {outcome} ({text}) on {case["name"]} and leaves {stray!r} behind (original intact: {intact})',
		dict(case, exception=text, stray=stray, original_intact=intact))
	ctx.count(f'fix:{outcome}')
	for name in stray:
		os.remove(os.path.join(directory, name))
	return False


def diff_lines(before, after):
	left = before.split('\n')
	right = after.split('\n')
	if len(left) != len(right):
		return None
	return [number for number, (one, two) in enumerate(zip(left, right), 1) if one != two]


def fail_once(ctx, kind, what, case, signature=None):
	"""A known signature is reported once per run (the failure list of a run is bounded)."""
	if 'skip' == kind:
		return
	seen = ctx.__dict__.setdefault('c20_signatures', set())
	if signature is not None:
		if signature in seen:
			return
		seen.add(signature)
	ctx.fail(kind, what, case, signature)


def check_fix_case(ctx, header_parser, root, relpath, name, text, edits, requests):
	# pylint: disable=too-many-locals,too-many-branches,too-many-statements
	direct = not name.startswith('synthetic:corr-only:')
	path = os.path.join(root, relpath)
	os.makedirs(os.path.dirname(path), exist_ok=True)
	with open(path, 'wb') as outfile:
		outfile.write(text.encode('utf8'))
	directory = os.path.dirname(path)
	names0 = listing(directory)
	case = {'kind': 'fix', 'name': name, 'relpath': relpath, 'content': text, 'edits': edits}
	ctx.case(('fix', name, text), {'file': name, 'edits': edits[:4]} if edits and len(ctx.samples) < 10 else None)

	outcome0, reports0, fixes0, error0 = lint_indents(header_parser, path, False)
	requests.append((f'parse {sx(text)}', 'none' if 'ok' != outcome0 else 'ok ' + (','.join(f'{kind}{number}' for kind, number in fixes0) or '-'), case, 'recorded fixes'))
	messages = {'preprocessor should be aligned to column 0': 'A', 'first continuation must have single indent': 'F'}
	requests.append((
		f'report {sx(text)}', 'none' if 'ok' != outcome0 else 'ok ' + (','.join(f'{messages[kind]}{number}' for number, kind in reports0) or '-'), case,
		'indentedPreprocessor reports'))
	if 'ok' != outcome0:
		ctx.count(f'fix:parse-raised:{error0[:40]}')
		return
	kinds = pp_line_numbers(text)
	# direct: every seeded directive mis-indentation is reported at its line
	for number, what in edits:
		if what.startswith('directive indented') and (number, 'preprocessor should be aligned to column 0') not in reports0:
			ctx.fail('property', f'{name}: seeded mis-indentation at line {number} ({what}) is not reported', case)

	if not fix_pass(ctx, header_parser, path, case):
		return
	ctx.count('fix:pass1:through-HeaderParser.__init__')
	with open(path, 'rb') as infile:
		once = infile.read().decode('utf8')
	names1 = listing(directory)
	requests.append((f'fix {sx(text)}', f'ok {sx(once)}', case, 'file contents after one --fix-indents pass'))
	requests.append((
		f'runfix 1 {sx(relpath)} {sx(text)}', ('untouched' if not fixes0 else 'rewritten') + f' {sx(relpath)}={sx(once if fixes0 else text)}', case,
		'temp-file protocol'))

	if not direct:
		ctx.count('fix:correspondence-only-case')
		fix_pass(ctx, header_parser, path, case)
		with open(path, 'rb') as infile:
			requests.append((f'fix {sx(once)}', f'ok {sx(infile.read().decode("utf8"))}', case, 'file contents after the second pass'))
		return
	if names1 != names0:
		ctx.fail('property', f'{name}: --fix-indents changed the directory listing: {names0!r} -> {names1!r}', dict(case, listing=names1))
	# direct: only preprocessor lines change (a final newline is supplied when the file had none)
	changed = diff_lines(text if text.endswith('\n') or not fixes0 else text + '\n', once)
	if changed is None:
		ctx.fail('property', f'{name}: --fix-indents changed the number of lines', dict(case, after=once))
		return
	outside = [number for number in changed if number not in kinds]
	if outside:
		ctx.fail('property', f'{name}: --fix-indents changed lines that are not preprocessor lines: {outside!r}', dict(case, after=once, changed=changed))
	# direct: no complaint about the fixed file
	outcome1, reports1, _, _ = lint_indents(header_parser, path, False)
	if 'ok' != outcome1 or reports1:
		ctx.fail('property', f'{name}: after --fix-indents the linter still reports indentedPreprocessor: {reports1!r} ({outcome1})', dict(case, after=once, reports=reports1))

	# direct: a second pass changes nothing
	if not fix_pass(ctx, header_parser, path, case):
		return
	ctx.count('fix:pass2:through-HeaderParser.__init__')
	with open(path, 'rb') as infile:
		twice = infile.read().decode('utf8')
	if listing(directory) != names0:
		ctx.fail('property', f'{name}: the second --fix-indents pass changed the directory listing: {listing(directory)!r}', case)
	if twice != once:
		changed = diff_lines(once, twice)
		ctx.count('fix:second-pass-differs')
		ctx.fail('property', f'{name}: a second --fix-indents pass changes the file again (lines {changed!r})', dict(case, once=once, twice=twice, changed=changed))
	else:
		ctx.count('fix:second-pass-identical')
	requests.append((f'fix {sx(once)}', f'ok {sx(twice)}', case, 'file contents after the second pass'))


def check_fix_indents(ctx, header_parser, base, files):
	rng = ctx.rng
	root = os.path.join(ctx.tmpdir(), 'fix-indents')
	requests = []
	saved_cwd = os.getcwd()
	os.makedirs(root, exist_ok=True)
	os.chdir(root)
	try:
		for name, text in SYNTHETIC_FILES:
			check_fix_case(ctx, header_parser, root, f'src/catapult/synthetic/{name}.h', f'synthetic:{name}', text, [], requests)
		for relpath in files:
			with open(os.path.join(base, relpath), 'rt', encoding='utf8') as infile:
				text = infile.read()
			if rng.random() < 0.15:
				seeded, edits = text, []  # the conforming file itself: --fix-indents must not change it
			else:
				seeded, edits = seed_misindentation(rng, text)
			check_fix_case(ctx, header_parser, root, relpath, relpath, seeded, edits, requests)
	finally:
		os.chdir(saved_cwd)
	if ctx.driver:
		answers = ask_each(ctx, [request for request, _, _, _ in requests])
		for (request, impl, case, what), answer in zip(requests, answers):
			if answer != impl:
				ctx.fail(
					'corr', f'{case["name"]}: {what}: model and implementation differ ({request.split()[0]})',
					{'kind': 'fix', 'name': case['name'], 'relpath': case['relpath'], 'content': case['content'], 'request': request[:200], 'model': answer[:400], 'implementation': impl[:400]})


def check_cli_fix(ctx, base, files):
	"""The command line itself: checkProjectStructure.py --text --fix-indents over a scratch tree, twice."""
	root = os.path.join(ctx.tmpdir(), 'cli')
	rng = ctx.rng
	for relpath in files:
		with open(os.path.join(base, relpath), 'rt', encoding='utf8') as infile:
			seeded, _ = seed_misindentation(rng, infile.read())
		os.makedirs(os.path.dirname(os.path.join(root, relpath)), exist_ok=True)
		with open(os.path.join(root, relpath), 'wt', encoding='utf8') as outfile:
			outfile.write(seeded)

	def snapshot():
		state = {}
		for dirpath, _, names in os.walk(root):
			for name in names:
				with open(os.path.join(dirpath, name), 'rb') as infile:
					state[os.path.relpath(os.path.join(dirpath, name), root)] = infile.read()
		return state

	env = dict(os.environ, PYTHONPATH=os.pathsep.join([os.path.join(REPO, 'linters/cpp'), os.path.join(os.path.dirname(LEAN), 'shims')]), PYTHONDONTWRITEBYTECODE='1')
	command = [sys.executable, os.path.join(REPO, 'linters/cpp/checkProjectStructure.py'), '--text', '--fix-indents', '--dest-dir', root]
	states = [snapshot()]
	for run_number in (1, 2):
		proc = subprocess.run(command, cwd=root, env=env, capture_output=True, text=True, timeout=600, check=False)
		states.append(snapshot())
		case = {'kind': 'cli', 'files': files, 'run': run_number, 'exit': proc.returncode, 'stderr': proc.stderr[-600:]}
		ctx.case(('cli', run_number, tuple(files)), {'command': ' '.join(command[1:]), 'exit': proc.returncode, 'stderr_tail': proc.stderr[-200:]})
		if 'Traceback' in proc.stderr:
			stray = sorted(set(states[-1]) - set(states[0]))
			ctx.fail(
				'property', f'checkProjectStructure.py --fix-indents crashes (exit {proc.returncode}): {proc.stderr.strip().splitlines()[-1]}; stray files {stray!r}',
				dict(case, stray=stray))
			ctx.count('cli:crash')
			return
		stray = sorted(set(states[-1]) - set(states[0]))
		if stray:
			ctx.fail('property', f'checkProjectStructure.py --fix-indents leaves stray files behind: {stray!r}', case)
		if 2 == run_number:
			differing = sorted(name for name in states[1] if states[1][name] != states[2].get(name))
			if differing:
				name = differing[0]
				changed = diff_lines(states[1][name].decode('utf8'), states[2][name].decode('utf8'))
				ctx.fail('property', f'a second --fix-indents run changes files again: {differing!r} (first: lines {changed!r} of {name})', dict(case, differing=differing))
			if 'Invalid indent' in proc.stdout:
				ctx.fail('property', 'the second --fix-indents run still reports indentedPreprocessor', dict(case, stdout=proc.stdout[-600:]))
		ctx.count(f'cli:run{run_number}:exit{min(proc.returncode, 1)}')


# endregion

# region entry points


def _imports():
	import checkProjectStructure as cps  # pylint: disable=import-error,import-outside-toplevel
	import HeaderParser as header_parser  # pylint: disable=import-error,import-outside-toplevel
	return cps, header_parser


def check_whitespace_set(ctx):
	"""The model's isSpace against Python's \\s / str.isspace (both are used by HeaderParser) below U+3100."""
	python_set = [code for code in range(0x3100) if chr(code).isspace()]
	regex_set = [code for code in range(0x3100) if re.match(r'\s', chr(code))]
	if python_set != regex_set:
		ctx.notes.append('str.isspace and \\s differ below U+3100 in this interpreter')
	if ctx.driver:
		answer = ctx.driver.ask('spaces')
		if answer != ','.join(map(str, regex_set)):
			ctx.fail('corr', 'whitespace set of the model differs from Python\'s \\s', {'kind': 'spaces', 'model': answer, 'python': regex_set})
	ctx.case(('spaces',), None)


def run(ctx):
	# pylint: disable=too-many-locals
	cps, header_parser = _imports()
	rng = ctx.rng
	tables, _ = extract_tables()
	base, files = tree_files()

	counts = tree_includes(header_parser.HeaderParser.PATTERN_INCLUDE)
	tree = sorted(counts)
	synthetic = synthetic_includes(tables)
	ctx.count('includes:tree-distinct', len(tree))
	ctx.count('includes:synthetic', len(synthetic))
	check_whitespace_set(ctx)

	# order axioms: every synthetic class is always in the sample, the rest is drawn from the tree
	size = ctx.scale(120, 300)
	synthetic_part = synthetic if len(synthetic) <= size * 2 // 3 else rng.sample(synthetic, size * 2 // 3)
	sample = list(synthetic_part) + rng.sample(tree, min(len(tree), size - len(synthetic_part)))
	rng.shuffle(sample)
	check_order(ctx, cps, header_parser, sample, 'mixed')
	# a second sample of near neighbours: includes sharing a directory (depth and path stages decide)
	anchor = rng.choice([include for include in tree if include.count('/') >= 2])
	prefix = anchor[:anchor.rindex('/')]
	near = [include for include in tree if include.startswith(prefix[:max(2, len(prefix) // 2)])][:size]
	check_order(ctx, cps, header_parser, near + rng.sample(synthetic, min(len(synthetic), max(0, size - len(near)))), 'neighbours')
	if ctx.thorough:
		check_order(ctx, cps, header_parser, synthetic, 'all-synthetic')

	check_sorting(ctx, cps, header_parser, synthetic + tree)

	proposal_files = files if ctx.thorough else rng.sample(files, 300)
	check_proposals(ctx, cps, header_parser, base, proposal_files)

	with_macros = []
	for relpath in rng.sample(files, len(files)):
		if len(with_macros) >= ctx.scale(12, 80):
			break
		with open(os.path.join(base, relpath), 'rt', encoding='utf8') as infile:
			if re.search(r'^\s*#\s*define.*\\\n.*\\\n', infile.read(), flags=re.M):
				with_macros.append(relpath)
	fix_files = rng.sample(files, ctx.scale(120, 700)) + with_macros
	check_fix_indents(ctx, header_parser, base, fix_files)
	check_cli_fix(ctx, base, rng.sample([relpath for relpath in files if relpath.startswith('src/catapult/utils/')], 5) + with_macros[:4])


def replay(ctx, payload):
	"""Re-evaluates the stored case on the current working tree."""
	cps, header_parser = _imports()
	case = payload.get('case') or {}
	print(payload.get('what', ''))
	kind = case.get('kind')
	if 'order' == kind:
		check_order(ctx, cps, header_parser, case['includes'], 'replay')
	elif 'sort' == kind:
		objects = [make_include(cps, header_parser, include) for include in case['includes']]
		results = {tuple(item.include for item in sorted(objects[index] for index in order)) for order in itertools.permutations(range(len(objects)))}
		ctx.case(('sort', tuple(case['includes'])), {'results': sorted(results)})
		if 1 != len(results):
			ctx.fail('property', f'sorted() of {case["includes"]!r} depends on the written order: {sorted(results)!r}', case)
	elif 'fix' == kind:
		root = os.path.join(ctx.tmpdir(), 'fix-indents')
		requests = []
		saved_cwd = os.getcwd()
		os.makedirs(root, exist_ok=True)
		os.chdir(root)
		try:
			check_fix_case(ctx, header_parser, root, case['relpath'], case['name'], case['content'], [tuple(edit) for edit in case.get('edits', [])], requests)
		finally:
			os.chdir(saved_cwd)
		if ctx.driver:
			for (request, impl, _, what), answer in zip(requests, ask_each(ctx, [request for request, _, _, _ in requests])):
				if answer != impl:
					ctx.fail('corr', f'{what}: model and implementation differ', {'request': request[:200], 'model': answer[:400], 'implementation': impl[:400]})
	elif 'propose' == kind:
		base, _ = tree_files()
		check_proposals(ctx, cps, header_parser, base, [case['file']])
	elif 'cli' == kind:
		base, _ = tree_files()
		check_cli_fix(ctx, base, case['files'])
	else:
		run(ctx)


def extra_evidence(ctx):
	tables, problems = extract_tables()
	return {'translated_tables': tables, 'translator_problems': problems}


# endregion

MANIFEST = {
	'level_text': (
		'The include comparison is proved to be a strict weak order, in fact a strict total order, for ALL strings and ALL priority tables '
		'(lt_irrefl, lt_asymm, lt_trans, incomp_trans, incomp_iff_eq: each stage of __lt__/compare_paths is comparison by a key, the cascade '
		'their lexicographic product); sort_unique, propose_idem, propose_no_complaint for the proposed order; for the indent fixer '
		'fix_touches_only_pp_lines, fix_no_complaint, fix_leaves_no_file, fix_fixed_point, and fix_idem under one hypothesis on the '
		'once-fixed file (fix_idem_partial; fix_idem_needs_hypothesis proves it cannot be dropped: a backslash followed by blanks). The '
		'models are tied to checkProjectStructure.py / HeaderParser.py by constants re-read on every run and by differential execution, '
		'and every clause is also evaluated directly on the implementation: --fix-indents twice through HeaderParser.__init__ and through '
		'the command line on files with seeded mis-indentations, including macros with two or more continuation lines.'),
	'level_note': (
		'Trusted: Lean kernel + {propext, Classical.choice, Quot.sound}; hand-written models tied by differential execution only; ply/colorama '
		'stand-ins are needed to import the linter. Own directory assumed free of regex metacharacters; \\w modelled on ASCII. No open '
		'finding: the two fix_indents defects of the snapshot are repaired in /repo (773ae3f7f, 4e3df52c9) and the check now fails on them.'),
	'technique': 'Lean 4 theorems over a hand-written model + differential correspondence with the Python implementation',
}

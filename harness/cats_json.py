"""Wire format for CATS AST objects (real ``catparser.ast`` nodes <-> one-line S-expressions).

The grammar of the format is documented in ``lean/Driver/CatsWire.lean`` (which parses it into
``SymbolVerif.Cats.Schema``).  Strings travel as ``$`` + hex of their UTF-8 bytes, ints in decimal,
``T``/``F``/``_`` for True/False/None.

    to_wire(node)            one declaration / member / type node -> text
    schema_to_wire(models)   list of declarations -> one line
    from_wire(text)          text -> real catparser object(s) (inverse of the two above)
    schema_from_wire(text)   -> list of declarations
    canon(value)             descriptor canonicalisation used when comparing ``to_legacy_descriptor()`` trees
"""


def _ast():
	from catparser import ast  # pylint: disable=import-outside-toplevel
	return ast


# region encoding

def enc_str(text):
	return '$' + str(text).encode('utf8').hex().upper()


def enc_scalar(value):
	if value is None:
		return '_'
	if value is True:
		return 'T'
	if value is False:
		return 'F'
	if isinstance(value, int):
		return str(value)
	if isinstance(value, str):
		return enc_str(value)
	raise TypeError(f'not a scalar: {value!r}')


def _opt(function, value):
	return '_' if value is None else function(value)


def _bool(value):
	return 'T' if value else 'F'


def _par(*parts):
	return '(' + ' '.join(parts) + ')'


def _comment(node):
	comment = getattr(node, 'comment', None)
	return '_' if comment is None else enc_str(comment.parsed)


def _int(node):
	sizeref = node.sizeref
	encoded = '_' if sizeref is None else _par('sr', enc_str(sizeref.property_name), enc_scalar(sizeref.delta))
	return _par('int', _bool(node.is_unsigned), str(node.size), encoded)


def _attrs(attributes):
	if attributes is None:
		return '_'
	return _par('attrs', *[_par('attr', enc_str(attribute.name), *[enc_scalar(value) for value in attribute.values]) for attribute in attributes])


def _elem(element_type):
	ast = _ast()
	return _int(element_type) if isinstance(element_type, ast.FixedSizeInteger) else _par('named', enc_str(element_type))


def _array(node):
	attributes = node._attributes  # pylint: disable=protected-access
	padded = attributes.get('is_last_element_padded', None)
	return _par(
		'array', _elem(node.element_type), enc_scalar(node._raw_size),  # pylint: disable=protected-access
		enc_scalar(attributes.get('sort_key', None)), _bool(attributes.get('is_byte_constrained', False)),
		enc_scalar(attributes.get('alignment', None)), '_' if padded is None else _bool(padded))


def _field_type(field_type):
	ast = _ast()
	if isinstance(field_type, ast.FixedSizeInteger):
		return _int(field_type)
	if isinstance(field_type, ast.Array):
		return _array(field_type)
	return _par('named', enc_str(field_type))


def _value(value):
	ast = _ast()
	if isinstance(value, ast.Conditional):
		return _par('cond', enc_scalar(value.value), enc_str(value.operation), enc_str(value.linked_field_name))
	return enc_scalar(value)


def to_wire(node):
	"""Encodes one AST node (declaration, member or type)."""
	# pylint: disable=too-many-return-statements
	ast = _ast()
	if isinstance(node, ast.Alias):
		linked = node.linked_type
		encoded = _int(linked) if isinstance(linked, ast.FixedSizeInteger) else _par('buf', str(linked.size))
		return _par('alias', _comment(node), enc_str(node.name), encoded)
	if isinstance(node, ast.Enum):
		values = [_par('ev', _comment(value), enc_str(value.name), enc_scalar(value.value)) for value in node.values]
		return _par('enum', _comment(node), enc_str(node.name), _int(node.base), _attrs(node.attributes), *values)
	if isinstance(node, ast.Struct):
		return _par(
			'struct', _comment(node), _opt(enc_str, node.disposition), enc_str(node.name), _attrs(node.attributes),
			_opt(enc_str, node.factory_type), _bool(node.requires_unaligned), *[to_wire(field) for field in node.fields])
	if isinstance(node, ast.StructInlinePlaceholder):
		return _par('inline', _comment(node), enc_str(node.inlined_typename))
	if isinstance(node, ast.StructField):
		return _par(
			'field', _comment(node), enc_str(node.name), _field_type(node.field_type), _value(node.value),
			_opt(enc_str, node.disposition), _attrs(node.attributes))
	if isinstance(node, (ast.FixedSizeInteger, ast.Array)) or isinstance(node, str):
		return _field_type(node)
	raise TypeError(f'cannot encode {node!r}')


def schema_to_wire(models):
	return _par(*[to_wire(model) for model in models])

# endregion

# region decoding


def parse_sexp(text):
	tokens = text.replace('(', ' ( ').replace(')', ' ) ').split()
	stack = [[]]
	for token in tokens:
		if '(' == token:
			stack.append([])
		elif ')' == token:
			top = stack.pop()
			stack[-1].append(top)
		else:
			stack[-1].append(token)
	if 1 != len(stack) or 1 != len(stack[0]):
		raise ValueError('malformed wire text')
	return stack[0][0]


def dec_str(atom):
	if not isinstance(atom, str) or not atom.startswith('$'):
		raise ValueError(f'not a string atom: {atom!r}')
	return bytes.fromhex(atom[1:]).decode('utf8')


def dec_scalar(atom):
	if '_' == atom:
		return None
	if 'T' == atom:
		return True
	if 'F' == atom:
		return False
	if atom.startswith('$'):
		return dec_str(atom)
	return int(atom, 10)


def _dec_opt(function, atom):
	return None if '_' == atom else function(atom)


def _dec_comment(node, atom):
	if '_' != atom:
		comment = _ast().Comment('')
		comment.parsed = dec_str(atom)
		node.comment = comment
	return node


def _dec_int(sexp):
	ast = _ast()
	_, unsigned, size, sizeref = sexp
	node = ast.FixedSizeInteger(('u' if 'T' == unsigned else '') + f'int{8 * int(size)}')
	if '_' != sizeref:
		node.sizeref = [dec_str(sizeref[1]), dec_scalar(sizeref[2])]
	return node


def _dec_attrs(sexp):
	ast = _ast()
	if '_' == sexp:
		return None
	return [ast.Attribute([dec_str(item[1])] + [dec_scalar(value) for value in item[2:]]) for item in sexp[1:]]


def _dec_field_type(sexp):
	ast = _ast()
	tag = sexp[0]
	if 'named' == tag:
		return dec_str(sexp[1])
	if 'int' == tag:
		return _dec_int(sexp)
	_, element, raw_size, sort_key, byte_constrained, alignment, padded = sexp
	node = ast.Array([_dec_field_type(element), dec_scalar(raw_size)])
	attributes = node._attributes  # pylint: disable=protected-access
	if '_' != sort_key:
		attributes['sort_key'] = dec_scalar(sort_key)
	if 'T' == byte_constrained:
		attributes['is_byte_constrained'] = True
	if '_' != alignment:
		attributes['alignment'] = dec_scalar(alignment)
	if '_' != padded:
		attributes['is_last_element_padded'] = 'T' == padded
	return node


def _dec_value(sexp):
	ast = _ast()
	if isinstance(sexp, list):
		return ast.Conditional([dec_scalar(sexp[1]), dec_str(sexp[2]), dec_str(sexp[3])])
	return dec_scalar(sexp)


def _dec_member(sexp):
	ast = _ast()
	if 'inline' == sexp[0]:
		return _dec_comment(ast.StructInlinePlaceholder([dec_str(sexp[2])]), sexp[1])
	_, comment, name, field_type, value, disposition, attributes = sexp
	node = ast.StructField([dec_str(name), _dec_field_type(field_type), _dec_value(value)], _dec_opt(dec_str, disposition))
	node.attributes = _dec_attrs(attributes)
	return _dec_comment(node, comment)


def _dec_node(sexp):
	ast = _ast()
	tag = sexp[0]
	if 'alias' == tag:
		linked = ast.FixedSizeBuffer(int(sexp[3][1])) if 'buf' == sexp[3][0] else _dec_int(sexp[3])
		return _dec_comment(ast.Alias([dec_str(sexp[2]), linked]), sexp[1])
	if 'enum' == tag:
		values = [_dec_comment(ast.EnumValue([dec_str(item[2]), dec_scalar(item[3])]), item[1]) for item in sexp[5:]]
		node = ast.Enum([dec_str(sexp[2]), _dec_int(sexp[3])] + values)
		node.attributes = _dec_attrs(sexp[4])
		return _dec_comment(node, sexp[1])
	if 'struct' == tag:
		node = ast.Struct([_dec_opt(dec_str, sexp[2]), dec_str(sexp[3])] + [_dec_member(item) for item in sexp[7:]])
		node.attributes = _dec_attrs(sexp[4])
		node.factory_type = _dec_opt(dec_str, sexp[5])
		node.requires_unaligned = 'T' == sexp[6]
		return _dec_comment(node, sexp[1])
	if tag in ('field', 'inline'):
		return _dec_member(sexp)
	return _dec_field_type(sexp)


def from_wire(text):
	"""Inverse of to_wire: rebuilds real catparser objects."""
	return _dec_node(parse_sexp(text))


def schema_from_wire(text):
	return [_dec_node(item) for item in parse_sexp(text)]

# endregion

# region descriptor canonicalisation


def canon(value):
	"""Descriptor tree with lark Tokens turned into str and dict keys sorted (key order is not part of the comparison)."""
	if isinstance(value, dict):
		return {str(key): canon(value[key]) for key in sorted(value)}
	if isinstance(value, (list, tuple)):
		return [canon(item) for item in value]
	if isinstance(value, bool) or value is None:
		return value
	if isinstance(value, int):
		return int(value)
	if isinstance(value, str):
		return str(value)
	return repr(value)

# endregion

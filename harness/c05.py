"""C05 - inline expansion substitutes members in place and never disturbs the template.

Correspondence: Model/Cats/Expand.lean (through driver_c05) against catparser.AstPostProcessor / ast.py on random schemas that
are written as CATS text and parsed by the real lark parser (so every node holds exactly what the parser produces), compared
phase by phase (apply_attributes, expand_named_inlines, expand_unnamed_inlines, type_descriptors) on the
to_legacy_descriptor() of EVERY struct, templates included.

Direct evaluation: an independent oracle (class Oracle below) computes, from a snapshot taken before post-processing, what the
property demands at descriptor level - recursive in-place substitution, prefixing, re-pointing, preservation of everything else,
factory type, inherited attributes, omission of inline structs - and the real code's result is compared with it. Because the
oracle works on the pre-processing snapshot, a template disturbed by the expansion of a site shows up as a difference on the
template's own descriptor.
"""
import json

from . import cats_common, cats_json

RULE = (
	'random schemas from VERIF_SEED written as CATS text and parsed by the real parser: 1-4 inline templates (members drawn from every '
	'form: counted/sized/numeric/fill arrays with sort_key, alignment [not] pad_last, is_byte_constrained; conditionals with all four '
	'operators; sizeref with and without delta; sizeof; reserved; const (numeric and enum); alias/enum/struct typed members; __value__; '
	'a matrix block (four array kinds x sort_key/alignment/is_byte_constrained, sizeref, sizeof, conditions) in 30-40% of templates and links; '
	'nested named inlines) x 1-4 named-inline sites per template (several sites per struct and across structs, with [member] site '
	'comments) x chains of unnamed inlines of depth 1-4 with abstract/inline/plain links carrying struct attributes; 75% declared before '
	'use, 25% shuffled declaration order; plus both shipped schema sets. A case is one (schema, phase, struct) comparison; distinct by '
	'schema text; non-trivial = the struct holds or is referenced by an inline.')
TRUSTED_BASE = [
	'Lean 4.33 kernel; axioms of the property theorems: subset of {propext, Classical.choice, Quot.sound}',
	'hand-written model SymbolVerif/Model/Cats/{Syntax,Expand}.lean, tied to ast.py/AstPostProcessor.py by this differential run',
	'harness/cats_json.py wire encoding and Driver/CatsWire.lean decoding of AST nodes (cross-checked: Lean toLegacy of the decoded '
	'schema must equal to_legacy_descriptor() of the Python objects before any processing)',
	'the independent descriptor-level oracle in harness/c05.py (states the property; compared with the model on every case)',
]
ASSUMPTIONS = [
	'declaration names are pairwise distinct (the model processes every declaration; Python only the last of a duplicated name)',
	'inline cycles are excluded (the Python loop does not terminate on most of them; the model reports them)',
	'theorems about nested named inlines and the factory type assume templates/ancestors are declared before use '
	'(DeclaredBeforeUse); both shipped schema sets satisfy it (checked every run)',
]

SIG_SORT_KEY_COPY = 'named-inline copy of array with sort_key: Array.copy prefixes the sort_key although it names a member of the element type'
SIG_SORT_KEY_SHARED = 'named-inline copy of array with sort_key shares attributes with template: expanding a site rewrites the template sort_key'
SIG_FILL = 'named-inline copy of __FILL__ array is rebuilt as array(..., 0): fill kind lost'
SIG_SIZEOF = 'named-inline copy of sizeof member keeps the unprefixed target: StructField.copy does not re-point sizeof'
SIG_SIZEREF = 'apply_attributes on @sizeref(x) without delta raises IndexError'
SIG_NESTED_ORDER = 'named inline of a template declared after its use that itself holds a named inline: inner inline left unexpanded'
SIG_TEMPLATE_PLACEHOLDER = 'named inline of a template that holds an unnamed inline raises AttributeError in apply_inline_template'

INT_TYPES = ['uint8', 'uint16', 'uint32', 'uint64', 'int8', 'int16', 'int32', 'int64']
OPERATIONS = ['equals', 'not equals', 'in', 'not in']
WORDS = ['alpha', 'beta', 'gamma', 'delta', 'size', 'count', 'value', 'key', 'data', 'flags', 'mode', 'version', 'type', 'body', 'tail']

# region generator


class Names:
	def __init__(self, rng):
		self.rng = rng
		self.used = set()

	def member(self, stem=None):
		for _ in range(100):
			stem_ = stem or self.rng.choice(WORDS)
			name = stem_ if self.rng.random() < 0.5 and stem_ not in self.used else f'{stem_}_{self.rng.randrange(1, 40)}'
			if name not in self.used and 2 <= len(name):
				self.used.add(name)
				return name
		raise RuntimeError('name space exhausted')


PREAMBLE = '''# height of a block
# in blocks
using Height = uint64
using Key = binary_fixed(32)
using Tiny = int8

@is_bitwise
enum Mode : uint8
	# by road
	ROAD = 1
	SEA = 0x02
	SKY = 4

enum Kind : uint16
	NONE = 0
	SOME = 513

# array element
struct Elem
	key = uint32
	weight = Height

@is_size_implicit
struct Thing
	tag = uint16
	mode = Mode

'''


def maybe_comment(rng, lines, indent='\t'):
	pick = rng.random()
	if pick < 0.2:
		lines.append(f'{indent}# {rng.choice(WORDS)} {rng.choice(WORDS)}')
	elif pick < 0.27:
		lines.append(f'{indent}# {rng.choice(WORDS)}')
		lines.append(f'{indent}#')
		lines.append(f'{indent}#  second {rng.choice(WORDS)}\t')


def gen_members(rng, names, options, allow_value):
	"""Member lines of one struct body drawn from every member form; returns (lines, plain_names)."""
	# pylint: disable=too-many-branches,too-many-statements,too-many-locals
	lines = []
	count = rng.randrange(1, 6)
	has_value = False
	for _ in range(count):
		form = rng.choice([
			'plain', 'plain', 'counted', 'counted', 'value', 'numeric', 'fill', 'conditional', 'sizeref', 'sizeof', 'reserved', 'const',
			'typed', 'sized'])
		maybe_comment(rng, lines)
		if 'plain' == form:
			lines.append(f'\t{names.member()} = {rng.choice(INT_TYPES)}')
		elif 'typed' == form:
			lines.append(f'\t{names.member()} = {rng.choice(["Height", "Key", "Tiny", "Mode", "Kind", "Elem", "Thing"])}')
		elif form in ('counted', 'sized'):
			size_name = names.member(rng.choice(['count', 'size']))
			lines.append(f'\t{size_name} = {rng.choice(["uint8", "uint16", "uint32"])}')
			element = rng.choice(['Elem', 'Elem', 'uint8', 'int8', 'uint32', 'Key', 'Thing'])
			attributes = []
			if 'Elem' == element and rng.random() < 0.7:
				attributes.append(f'\t@sort_key({rng.choice(["key", "weight"])})')
			if rng.random() < 0.4:
				attributes.append('\t@alignment(' + rng.choice(['8', '4', '0x10']) + rng.choice(['', '', ', pad_last', ', not pad_last']) + ')')
			if 'sized' == form or rng.random() < 0.2:
				attributes.append('\t@is_byte_constrained')
			rng.shuffle(attributes)
			lines.extend(attributes)
			lines.append(f'\t{names.member()} = array({element}, {size_name})')
		elif 'value' == form:
			if has_value or not allow_value:
				lines.append(f'\t{names.member()} = Key')
			else:
				has_value = True
				size_name = names.member('size')
				lines.append(f'\t{size_name} = uint32')
				lines.append(f'\t__value__ = array({rng.choice(["int8", "uint8", "Elem"])}, {size_name})')
		elif 'numeric' == form:
			element = rng.choice(['uint8', 'Elem', 'Elem', 'int16'])
			attributes = []
			if 'Elem' == element and rng.random() < 0.6:
				attributes.append(f'\t@sort_key({rng.choice(["key", "weight"])})')
			if rng.random() < 0.3:
				attributes.append('\t@alignment(' + rng.choice(['8', '4']) + rng.choice(['', ', pad_last', ', not pad_last']) + ')')
			if rng.random() < 0.2:
				attributes.append('\t@is_byte_constrained')
			rng.shuffle(attributes)
			lines.extend(attributes)
			lines.append(f'\t{names.member()} = array({element}, {rng.choice(["0", "1", "16", "0x20"])})')
		elif 'fill' == form:
			attributes = []
			element = rng.choice(['Elem', 'Elem', 'uint8', 'Thing'])
			if 'Elem' == element and rng.random() < 0.6:
				attributes.append(f'\t@sort_key({rng.choice(["key", "weight"])})')
			if rng.random() < 0.4:
				attributes.append('\t@alignment(8' + rng.choice(['', ', not pad_last']) + ')')
			if rng.random() < 0.15:
				attributes.append('\t@is_byte_constrained')
			lines.extend(attributes)
			lines.append(f'\t{names.member()} = array({element}, __FILL__)')
		elif 'conditional' == form:
			linked = names.member(rng.choice(['mode', 'flags', 'type']))
			if rng.random() < 0.6:
				lines.append(f'\t{linked} = Mode')
				value = rng.choice(['ROAD', 'SEA', 'SKY'])
			else:
				lines.append(f'\t{linked} = uint8')
				value = rng.choice(['0', '3', '0xFF'])
			target = rng.choice(['uint32', 'Height', 'array(uint8, 4)', 'Thing'])
			lines.append(f'\t{names.member()} = {target} if {value} {rng.choice(OPERATIONS)} {linked}')
		elif 'sizeref' == form:
			target = names.member(rng.choice(['body', 'data']))
			delta = rng.choice([', 0', ', 2', ', 0x10', ', 4'])
			if options.get('sizeref_without_delta') and rng.random() < 0.5:
				delta = ''
				options['used_sizeref_without_delta'] = True
			lines.append(f'\t@sizeref({target}{delta})')
			lines.append(f'\t{names.member("size")} = {rng.choice(["uint16", "uint32"])}')
			lines.append(f'\t{target} = Thing')
		elif 'sizeof' == form:
			target = names.member(rng.choice(['body', 'data']))
			lines.append(f'\t{names.member("size")} = sizeof({rng.choice(["uint16", "uint32"])}, {target})')
			if rng.random() < 0.5:
				lines.append(f'\t{names.member()} = uint8')
			lines.append(f'\t{target} = Thing')
		elif 'reserved' == form:
			if rng.random() < 0.7:
				lines.append(f'\t{names.member()} = make_reserved({rng.choice(INT_TYPES)}, {rng.choice(["0", "1", "0xFF"])})')
			else:
				lines.append(f'\t{names.member()} = make_reserved(Mode, {rng.choice(["ROAD", "SKY"])})')
		elif 'const' == form:
			name = names.member().upper()
			if rng.random() < 0.5:
				lines.append(f'\t{name} = make_const({rng.choice(INT_TYPES)}, {rng.choice(["0", "7", "0x1234"])})')
			else:
				lines.append(f'\t{name} = make_const(Kind, {rng.choice(["NONE", "SOME"])})')
	return lines


def matrix_members(rng, names):
	"""Every carrier of a reference, once: the four array kinds (counted by a sibling, byte-sized by a sibling, __FILL__, literal
	count) each with @sort_key, @alignment and (where it changes the kind) @is_byte_constrained; @sizeref; sizeof; conditions on an
	enum and on a number; so every re-pointing rule of the copy meets every carrier kind inside one template."""
	lines = []
	count, size = names.member('count'), names.member('size')
	lines += [f'\t{count} = uint16', f'\t{size} = uint32']
	for kind in ('counted', 'sized', 'literal', 'fill'):
		attributes = [f'\t@sort_key({rng.choice(["key", "weight"])})', '\t@alignment(8' + rng.choice(['', ', pad_last', ', not pad_last']) + ')']
		if 'sized' == kind or ('counted' != kind and rng.random() < 0.3):
			attributes.append('\t@is_byte_constrained')
		rng.shuffle(attributes)
		lines += attributes
		length = {'counted': count, 'sized': size, 'literal': rng.choice(['4', '0x10']), 'fill': '__FILL__'}[kind]
		lines.append(f'\t{names.member(kind)} = array(Elem, {length})')
	body = names.member('body')
	lines += [f'\t@sizeref({body}, {rng.choice(["0", "2"])})', f'\t{names.member("size")} = uint16']
	lines += [f'\t{names.member("size")} = sizeof(uint32, {body})', f'\t{body} = Thing']
	mode, flags = names.member('mode'), names.member('flags')
	lines += [f'\t{mode} = Mode', f'\t{flags} = uint8']
	lines.append(f'\t{names.member()} = uint32 if {rng.choice(["ROAD", "SEA"])} {rng.choice(OPERATIONS)} {mode}')
	lines.append(f'\t{names.member()} = array(Elem, {count}) if {rng.choice(["0", "3"])} {rng.choice(OPERATIONS)} {flags}')
	return lines


def member_names(lines):
	result = []
	for line in lines:
		stripped = line.strip()
		if stripped and not stripped.startswith(('#', '@', 'inline ')) and ' = ' in stripped:
			result.append(stripped.split(' = ')[0])
	return result


def struct_attribute_lines(rng, own_names):
	"""Random struct attributes that refer to members by name (post-processing does not resolve them)."""
	lines = []
	lower = [name for name in own_names if name.islower() and '__value__' != name] or ['size']
	upper = [name for name in own_names if name.isupper()] or ['KIND']
	if rng.random() < 0.3:
		lines.append('@is_aligned')
	if rng.random() < 0.2:
		lines.append('@is_size_implicit')
	if rng.random() < 0.4:
		lines.append(f'@size({rng.choice(lower)})')
	if rng.random() < 0.4:
		lines.append('@discriminator(' + ', '.join(rng.sample(lower, min(len(lower), rng.choice([1, 1, 2])))) + ')')
	for _ in range(rng.choice([0, 0, 1, 2])):
		lines.append(f'@initializes({rng.choice(lower)}, {rng.choice(upper)})')
	if rng.random() < 0.3:
		parts = [name + rng.choice(['', '', '!ripemd_keccak_256']) for name in rng.sample(lower, min(len(lower), rng.choice([1, 2])))]
		lines.append('@comparer(' + ', '.join(parts) + ')')
	rng.shuffle(lines)
	return lines


def gen_schema(rng, options=None):
	"""One random schema as CATS text (see RULE). Returns (text, info)."""
	# pylint: disable=too-many-locals,too-many-branches,too-many-statements
	options = dict(options or {})
	blocks = []  # (name, kind, text, refs_named, refs_unnamed)

	# unnamed-inline chains
	chain_count = rng.choice([1, 1, 2])
	chain_tops = []
	link_index = 0
	all_links = []
	for _ in range(chain_count):
		depth = rng.randrange(1, 5)
		previous = None
		for level in range(depth):
			link_index += 1
			name = f'Link{chr(64 + link_index)}x{level}'
			names = Names(rng)
			body = gen_members(rng, names, options, allow_value=False)
			if rng.random() < 0.3:
				body += matrix_members(rng, names)
			placeholders = []
			if previous is not None:
				placeholders.append(previous)
				if rng.random() < 0.15 and len(all_links) > 1:
					other = rng.choice(all_links[:-1])
					if other not in placeholders:
						placeholders.append(other)
			for placeholder in placeholders:
				position = rng.choice([0, 0, rng.randrange(0, len(body) + 1)])
				if 0 < position < len(body) and body[position - 1].strip().startswith(('@', '#')):
					position = 0
				insert = [f'\tinline {placeholder}']  # (a comment line before an unnamed inline is rejected by the real parser)
				body[position:position] = insert
			disposition = rng.choice(['abstract ', 'abstract ', 'inline ', ''])
			header = struct_attribute_lines(rng, member_names(body))
			comment = ['# link of a chain'] if rng.random() < 0.3 else []
			text = '\n'.join(comment + header + [f'{disposition}struct {name}'] + body) + '\n'
			blocks.append({'name': name, 'kind': 'link', 'text': text, 'named': [], 'unnamed': list(placeholders)})
			all_links.append(name)
			previous = name
		chain_tops.append(previous)

	# templates
	template_count = rng.randrange(1, 5)
	templates = []
	for index in range(template_count):
		name = f'Tpl{chr(65 + index)}a'
		names = Names(rng)
		body = gen_members(rng, names, options, allow_value=True)
		if rng.random() < 0.4:
			body += matrix_members(rng, names)
		named = []
		if templates and rng.random() < 0.3:
			inner = rng.choice(templates)
			maybe_comment(rng, body)
			body.append(f'\t{names.member("inner")} = inline {inner}')
			named.append(inner)
		unnamed = []
		if options.get('template_placeholder') and 0 == index:
			body.insert(0, f'\tinline {rng.choice(all_links)}')
			unnamed.append(body[0].split()[-1])
		header = struct_attribute_lines(rng, member_names(body)) if rng.random() < 0.3 else []
		text = '\n'.join(header + [f'inline struct {name}'] + body) + '\n'
		blocks.append({'name': name, 'kind': 'template', 'text': text, 'named': named, 'unnamed': unnamed})
		templates.append(name)

	# sites: every template is used at 1-4 sites
	uses = []
	for name in templates:
		uses.extend([name] * rng.randrange(1, 5))
	rng.shuffle(uses)
	site_index = 0
	while uses:
		site_index += 1
		take = min(len(uses), rng.choice([1, 1, 2, 3, 4]))
		mine, uses = uses[:take], uses[take:]
		name = f'Site{chr(64 + site_index)}z'
		names = Names(rng)
		body = gen_members(rng, names, options, allow_value=False) if rng.random() < 0.8 else []
		named = []
		for template in mine:
			prefix = names.member(rng.choice(['aa', 'bb', 'cc', 'left', 'right']))
			insert = []
			pick = rng.random()
			if pick < 0.35:
				tpl_text = next(block['text'] for block in blocks if block['name'] == template)
				keys = member_names(tpl_text.split('\n'))
				insert.append(f'\t# the {prefix} part')
				for key in rng.sample(keys, min(len(keys), rng.choice([1, 2]))):
					insert.append(f'\t# [{key}] note on {key}')
					if rng.random() < 0.4:
						insert.append('\t# continued here')
					if rng.random() < 0.2:
						insert.append('\t#')
						insert.append('\t# after a blank')
				if rng.random() < 0.3:
					insert.append('\t# [nothing] dangling [key] text')
			elif pick < 0.5:
				insert.append('\t# plain site comment')
			insert.append(f'\t{prefix} = inline {template}')
			position = rng.randrange(0, len(body) + 1)
			while 0 < position < len(body) and body[position - 1].strip().startswith(('@', '#')):
				position -= 1
			body[position:position] = insert
			named.append(template)
		unnamed = []
		if rng.random() < 0.6:
			for _ in range(rng.choice([1, 1, 1, 2])):
				target = rng.choice(chain_tops + all_links)
				if target in unnamed:
					continue
				position = rng.choice([0, rng.randrange(0, len(body) + 1)])
				while 0 < position < len(body) and body[position - 1].strip().startswith(('@', '#')):
					position -= 1
				body[position:position] = [f'\tinline {target}']
				unnamed.append(target)
		if not body:
			body = ['\tlonely = uint8']
		header = struct_attribute_lines(rng, member_names(body)) if rng.random() < 0.4 else []
		disposition = rng.choice(['', '', '', 'abstract ', 'inline '])
		comment = ['# a site', '# with docs'] if rng.random() < 0.2 else []
		text = '\n'.join(comment + header + [f'{disposition}struct {name}'] + body) + '\n'
		blocks.append({'name': name, 'kind': 'site', 'text': text, 'named': named, 'unnamed': unnamed})

	ordered = True
	if options.get('shuffle'):
		ordered = False
		templates_in_order = [block for block in blocks if 'template' == block['kind']]
		others = [block for block in blocks if 'template' != block['kind']]
		rng.shuffle(others)
		# templates keep their relative order (nested named inlines stay declared-before-use) but land anywhere among the others
		merged = others[:]
		positions = sorted(rng.randrange(0, len(merged) + 1) for _ in templates_in_order)
		for offset, (position, block) in enumerate(zip(positions, templates_in_order)):
			merged.insert(position + offset, block)
		blocks = merged
	if options.get('nested_out_of_order'):
		# move a template that holds a nested named inline behind... the use site first, then the outer template, then the inner one
		outer = next((block for block in blocks if 'template' == block['kind'] and block['named']), None)
		if outer is not None:
			users = [block for block in blocks if 'site' == block['kind'] and outer['name'] in block['named']]
			if users:
				blocks.remove(users[0])
				blocks.insert(blocks.index(outer), users[0])
				ordered = False
	text = PREAMBLE + '\n'.join(block['text'] for block in blocks)
	return text, {'ordered': ordered, 'options': options}

# endregion

# region snapshot + oracle


class OracleError(Exception):
	"""The property defines no result (the input is outside what post-processing accepts)."""


def snapshot(models):
	"""What the oracle is allowed to see: the declarations as parsed, before any post-processing."""
	from catparser.ast import Struct, StructInlinePlaceholder  # pylint: disable=import-outside-toplevel
	result = []
	for model in models:
		entry = {'name': str(model.name), 'descriptor': cats_json.canon(model.to_legacy_descriptor()), 'struct': isinstance(model, Struct)}
		if isinstance(model, Struct):
			entry['disposition'] = model.disposition
			entry['attributes'] = [(str(attribute.name), list(attribute.values)) for attribute in (model.attributes or [])]
			members = []
			for field in model.fields:
				if isinstance(field, StructInlinePlaceholder):
					members.append({'placeholder': str(field.inlined_typename)})
				else:
					members.append({
						'descriptor': cats_json.canon(field.to_legacy_descriptor()),
						'attributes': [(str(attribute.name), list(attribute.values)) for attribute in (field.attributes or [])],
						'comment': None if field.comment is None else field.comment.parsed,
					})
			entry['members'] = members
		result.append(entry)
	return result


def normalise_comment(text):
	"""Comment(...) normalisation, restated."""
	parsed = ''
	separator = False
	for line in text.split('\n'):
		line = line.strip('# \t')
		if not line:
			parsed += '\n'
			separator = False
		else:
			parsed += (' ' if separator else '') + line
			separator = True
	return parsed


def site_comment_map(parsed):
	"""`[member] text` lines of a site comment -> comment text per template member (restated without a regex)."""
	result = {}
	active = None
	for line in parsed.split('\n'):
		key = None
		if line.startswith('['):
			head = line[1:].split(None, 1)[0] if line[1:].split(None, 1) else ''
			# the run of non-blank characters after '[' has to end with ']' and be followed by exactly one space character
			if 2 <= len(head) and head.endswith(']') and line[1 + len(head):].startswith(' '):
				key = head[:-1]
		if key is not None:
			active = key
			result[key] = [line[len(key) + 3:]]
		elif active:
			result[active].append('\n' + line)
	return {key: normalise_comment('\n'.join(parts)) for key, parts in result.items()}


class Oracle:
	"""The property, stated on descriptors: what every struct has to look like after each phase."""

	def __init__(self, snap, ordered):
		self.snap = snap
		self.ordered = ordered
		self.by_name = {entry['name']: entry for entry in snap}
		self.position = {entry['name']: index for index, entry in enumerate(snap)}
		self._attributed = {}
		self._named = {}
		self._full = {}

	# phase 1: attributes

	@staticmethod
	def apply_attribute(descriptor, name, values):
		kind = descriptor.get('disposition')
		is_array = isinstance(kind, str) and kind.startswith('array')
		is_integer = 'byte' == descriptor.get('type') and not is_array and 'signedness' in descriptor
		if 'sizeref' == name and is_integer:
			descriptor['sizeref'] = {'property_name': values[0], 'delta': values[1] if 1 < len(values) else 0}
		elif 'is_byte_constrained' == name and is_array:
			if 'array' == kind:
				descriptor['disposition'] = 'array sized'
		elif 'sort_key' == name and is_array:
			descriptor['sort_key'] = values[0]
		elif 'alignment' == name and is_array:
			descriptor['alignment'] = values[0]
			descriptor['is_last_element_padded'] = not ('not' == values[1] and 'pad_last' == values[2])
		else:
			raise OracleError(f'attribute {name} does not apply')

	def attributed(self, name):
		"""Members of a struct after apply_attributes: list of dicts (descriptor / placeholder)."""
		if name not in self._attributed:
			members = []
			for member in self.by_name[name]['members']:
				if 'placeholder' in member:
					members.append({'placeholder': member['placeholder']})
					continue
				descriptor = json.loads(json.dumps(member['descriptor']))
				for attribute_name, values in member['attributes']:
					self.apply_attribute(descriptor, attribute_name, values)
				members.append({'descriptor': descriptor, 'site_comment': member['comment'], 'copied': False})
			self._attributed[name] = members
		return self._attributed[name]

	# phase 2: named inlines

	@staticmethod
	def copy_member(descriptor, prefix, comments):
		copy = json.loads(json.dumps(descriptor))
		original_name = copy['name']
		copy['name'] = prefix if '__value__' == original_name else f'{prefix}_{original_name}'
		kind = copy.get('disposition')
		if isinstance(kind, str) and kind.startswith('array'):
			if isinstance(copy['size'], str):
				copy['size'] = f'{prefix}_{copy["size"]}'  # the size member is a copied member
			# sort_key names a member of the element type: unchanged. fill stays fill. alignment / padding unchanged.
		if 'sizeref' in copy:
			copy['sizeref']['property_name'] = f'{prefix}_{copy["sizeref"]["property_name"]}'
		if 'condition' in copy:
			copy['condition'] = f'{prefix}_{copy["condition"]}'
		if 'sizeof' == kind:
			copy['value'] = f'{prefix}_{copy["value"]}'
		copy.pop('comments', None)
		if original_name in comments:
			copy = {'comments': comments[original_name], **copy}
		return copy

	def named(self, name, depth=0):
		"""Members after named-inline expansion, recursively (what the property demands)."""
		if name in self._named:
			return self._named[name]
		if depth > 40:
			raise OracleError('inline cycle')
		members = []
		for member in self.attributed(name):
			descriptor = member.get('descriptor')
			if descriptor is None or 'inline' != descriptor.get('disposition'):
				members.append(member)
				continue
			template = self.by_name.get(descriptor['type'])
			if template is None or not template['struct'] or 'inline' != template['disposition']:
				raise OracleError('named inline of something that is not an inline struct')
			comments = site_comment_map(member['site_comment']) if member['site_comment'] is not None else {}
			for inner in self.named(template['name'], depth + 1):
				if 'placeholder' in inner:
					raise OracleError('template holds an unnamed inline')
				members.append({
					'descriptor': self.copy_member(inner['descriptor'], descriptor['name'], comments), 'site_comment': None, 'copied': True})
		self._named[name] = members
		return members

	# phase 3: unnamed inlines

	def full(self, name, depth=0):
		"""(members, attributes, factory candidates) after unnamed expansion, recursively."""
		if name in self._full:
			return self._full[name]
		if depth > 40:
			raise OracleError('inline cycle')
		entry = self.by_name[name]
		members = []
		attributes = list(entry['attributes'])
		closest = None
		ancestors = set()
		for member in self.named(name):
			if 'placeholder' not in member:
				members.append(member)
				continue
			referenced = self.by_name.get(member['placeholder'])
			if referenced is None or not referenced['struct']:
				raise OracleError('unnamed inline of something that is not a struct')
			inner_members, inner_attributes, inner_closest, inner_ancestors = self.full(referenced['name'], depth + 1)
			members.extend(inner_members)
			attributes.extend(inner_attributes)
			ancestors |= inner_ancestors
			if 'abstract' == referenced['disposition']:
				closest = referenced['name']
				ancestors.add(referenced['name'])
			elif inner_closest:
				closest = inner_closest
		self._full[name] = (members, attributes, closest, ancestors)
		return self._full[name]

	# descriptors

	@staticmethod
	def struct_descriptor(entry, members, attributes, factory_type):
		descriptor = {'name': entry['name'], 'type': 'struct', 'layout': []}
		for member in members:
			descriptor['layout'].append(
				{'type': member['placeholder'], 'disposition': 'inline'} if 'placeholder' in member else member['descriptor'])
		if entry['disposition'] is not None:
			descriptor['disposition'] = entry['disposition']
		if factory_type is not None:
			descriptor['factory_type'] = factory_type

		def first(attribute_name):
			return next((values for name, values in attributes if name == attribute_name), None)

		for flag in ('is_aligned', 'is_size_implicit'):
			if first(flag) is not None:
				descriptor[flag] = True
		if first('size') is not None:
			descriptor['size'] = first('size')[0]
		if first('discriminator') is not None:
			descriptor['discriminator'] = list(first('discriminator'))
		comparer = first('comparer')
		if comparer:
			descriptor['comparer'] = [{'name': comparer[2 * i], 'transform': comparer[2 * i + 1]} for i in range(len(comparer) // 2)]
		initializers = [{'target_property_name': values[0], 'value': values[1]} for name, values in attributes if 'initializes' == name]
		if initializers:
			descriptor['initializers'] = initializers
		if 'comments' in entry['descriptor']:
			descriptor['comments'] = entry['descriptor']['comments']
		return cats_json.canon(descriptor)

	def phase(self, which):
		"""Expected descriptors of all declarations after a phase, or raises OracleError."""
		result = []
		for entry in self.snap:
			if not entry['struct']:
				result.append(entry['descriptor'])
			elif 'attributes' == which:
				result.append(self.struct_descriptor(entry, self.attributed(entry['name']), entry['attributes'], None))
			elif 'named' == which:
				result.append(self.struct_descriptor(entry, self.named(entry['name']), entry['attributes'], None))
			else:
				members, attributes, closest, _ = self.full(entry['name'])
				result.append(self.struct_descriptor(entry, members, attributes, closest))
		return result

	def copied_flags(self, name, which):
		members = self.named(name) if 'named' == which else self.full(name)[0]
		return [bool(member.get('copied')) for member in members]

# endregion

# region running the real code


def run_implementation(models):
	"""The three phases on the real objects; returns {phase: descriptors | {'error': class name}} and the output type names."""
	from catparser.AstPostProcessor import AstPostProcessor  # pylint: disable=import-outside-toplevel
	processor = AstPostProcessor(models)
	result = {}
	for phase, method in (
		('attributes', processor.apply_attributes), ('named', processor.expand_named_inlines), ('unnamed', processor.expand_unnamed_inlines)):
		try:
			method()
		except Exception as ex:  # pylint: disable=broad-except
			result[phase] = {'error': type(ex).__name__, 'message': str(ex)[:200]}
			return result
		result[phase] = cats_common.descriptors(models)
	result['types'] = [str(model.name) for model in processor.type_descriptors]
	return result


def is_declared_before_use(snap):
	position = {entry['name']: index for index, entry in enumerate(snap)}
	for index, entry in enumerate(snap):
		for member in entry.get('members', []):
			target = member.get('placeholder')
			if target is None and 'inline' == member['descriptor'].get('disposition'):
				target = member['descriptor']['type']
			if target is not None and position.get(target, len(snap)) >= index:
				return False
	return True


def classify(path, expected, actual, copied, expected_struct):
	"""Signature of a known defect for one descriptor difference, else None."""
	if 3 == len(path) and 'layout' == path[0] and isinstance(path[1], int):
		index, key = path[1], path[2]
		if 'sort_key' == key and isinstance(expected, str) and isinstance(actual, str) and actual.endswith('_' + expected):
			return SIG_SORT_KEY_COPY if index < len(copied) and copied[index] else SIG_SORT_KEY_SHARED
		member = expected_struct['layout'][index]
		if 'disposition' == key and 'array fill' == expected and actual in ('array', 'array sized') and index < len(copied) and copied[index]:
			return SIG_FILL
		if 'value' == key and 'sizeof' == member.get('disposition') and isinstance(expected, str) and isinstance(actual, str) \
			and expected.endswith('_' + actual) and index < len(copied) and copied[index]:
			return SIG_SIZEOF
	return None


def short(value):
	text = repr(value)
	return text if len(text) <= 240 else text[:240] + '...'


def has_late_nested_template(snap):
	"""A named-inline site whose template is declared later and itself holds a named inline."""
	position = {entry['name']: index for index, entry in enumerate(snap)}
	by_name = {entry['name']: entry for entry in snap}

	def named_targets(entry):
		return [
			member['descriptor']['type'] for member in entry.get('members', [])
			if 'placeholder' not in member and 'inline' == member['descriptor'].get('disposition')]

	for entry in snap:
		for target in named_targets(entry):
			template = by_name.get(target)
			if template is not None and position[target] > position[entry['name']] and named_targets(template):
				return True
	return False


def carrier_kind(descriptor, attributes):
	"""The kind of a member as a carrier of references (before post-processing)."""
	kind = descriptor.get('disposition')
	if isinstance(kind, str) and kind.startswith('array'):
		if 'array fill' == kind:
			return 'array-fill'
		if not isinstance(descriptor.get('size'), str):
			return 'array-literal'
		return 'array-sized' if any('is_byte_constrained' == name for name, _ in attributes) else 'array-counted'
	if 'sizeof' == kind:
		return 'sizeof'
	if kind in ('const', 'reserved'):
		return str(kind)
	if 'inline' == kind:
		return 'named-inline'
	return 'integer' if 'signedness' in descriptor else 'typed'


def count_features(ctx, snap):
	"""Feature counts for the evidence: which carrier kinds x reference-bearing attributes sit in structs used by named / unnamed inlines."""
	named_targets, unnamed_targets = set(), set()
	for entry in snap:
		for member in entry.get('members', []):
			if 'placeholder' in member:
				unnamed_targets.add(member['placeholder'])
			elif 'inline' == member['descriptor'].get('disposition'):
				named_targets.add(member['descriptor']['type'])
	for entry in snap:
		uses = [use for use, targets in (('named', named_targets), ('unnamed', unnamed_targets)) if entry['name'] in targets]
		for member in entry.get('members', []):
			if 'placeholder' in member:
				continue
			kind = carrier_kind(member['descriptor'], member['attributes'])
			features = [name for name, _ in member['attributes']]
			if 'condition' in member['descriptor']:
				features.append('condition')
			if isinstance(member['descriptor'].get('size'), str):
				features.append('size-member')
			for use in uses:
				ctx.count(f'feature:{use}-inline:{kind}')
				for feature in features:
					ctx.count(f'feature:{use}-inline:{kind}:{feature}')


class Checker:
	def __init__(self, ctx):
		self.ctx = ctx
		self.reported = {}

	def check_sort_key_uniform(self, snap, oracle, expected, actual, case):
		"""Whatever a named-inline copy does with the sort key of an array (keep it, as the model and the property say, or prefix it,
		as the recorded finding says the code does), it has to do the same for every array kind."""
		treatments = {}
		for entry, want, got in zip(snap, expected, actual):
			if not entry['struct'] or len(want.get('layout', [])) != len(got.get('layout', [])):
				continue
			copied = oracle.copied_flags(entry['name'], 'named')
			for index, (left, right) in enumerate(zip(want['layout'], got['layout'])):
				if index >= len(copied) or not copied[index] or 'sort_key' not in left:
					continue
				if left.get('name') != right.get('name') or not isinstance(right.get('sort_key'), str):
					# not the same member (e.g. the unexpanded named inline of the recorded late-template finding sits at this
					# position): the ordinary comparison reports it, it says nothing about how sort keys are treated
					continue
				kind = 'fill' if 'array fill' == left.get('disposition') else 'literal' if not isinstance(left.get('size'), str) else 'sibling-sized'
				key = right.get('sort_key')
				if key != left['sort_key'] and not key.endswith('_' + left['sort_key']):
					continue  # neither kept nor prefixed: an unlisted difference, reported by the ordinary comparison
				treatment = 'kept' if key == left['sort_key'] else 'prefixed'
				treatments.setdefault(treatment, {}).setdefault(kind, f'{entry["name"]}.{left["name"]}: {key!r}')
				self.ctx.count(f'sort-key-of-copy:{kind}:{treatment}')
		if 1 < len(treatments):
			self.fail_property(
				f'named: the sort key of a copied array is treated differently for different array kinds: {treatments}'[:700],
				{**case, 'phase': 'named'})

	def fail_property(self, what, case, signature=None):
		key = signature or 'other'
		self.reported[key] = self.reported.get(key, 0) + 1
		if signature is not None and self.reported[key] > 2:
			self.ctx.count('known:' + signature[:40])
			return
		if signature is None and self.reported[key] > 8:
			self.ctx.count('fail:property-not-listed')
			return
		self.ctx.fail('property', what, case, signature)

	def check_text(self, text, info, label):
		models = cats_common.parse_text(text)
		return self.check_models(models, info, {'label': label, 'cats': text})

	def check_models(self, models, info, case):
		# pylint: disable=too-many-locals,too-many-branches,too-many-statements,too-many-return-statements
		ctx = self.ctx
		snap = snapshot(models)
		if len({entry['name'] for entry in snap}) != len(snap):
			ctx.count('skipped:duplicate-names')
			return
		wire = cats_json.schema_to_wire(models)
		ordered = is_declared_before_use(snap)
		ctx.count('schemas:' + ('declared-before-use' if ordered else 'shuffled'))
		oracle = Oracle(snap, ordered)
		nested_late = has_late_nested_template(snap)
		count_features(ctx, snap)

		model_report = None
		if ctx.driver is not None:
			pre = cats_common.ask_json(ctx.driver, 'legacy ' + wire)
			if pre is None or [cats_json.canon(item) for item in pre] != [entry['descriptor'] for entry in snap]:
				ctx.fail('corr', 'wire transfer: Lean toLegacy of the decoded schema differs from to_legacy_descriptor() before processing', case)
				return
			model_report = cats_common.ask_json(ctx.driver, 'expand ' + wire)
			# the hypothesis of the theorems, decided by the model on the schema as it is after apply_attributes (same references)
			if ctx.driver.ask('dbu ' + wire) != ('true' if ordered else 'false'):
				ctx.fail('corr', f'DeclaredBeforeUse: model and harness disagree (harness says {ordered})', case)

		implementation = run_implementation(models)
		structs = [entry for entry in snap if entry['struct']]
		has_template_placeholder = any(
			'inline' == entry['disposition'] and any('placeholder' in member for member in entry['members']) and any(
				any('placeholder' not in member and 'inline' == member['descriptor'].get('disposition') and member['descriptor']['type'] == entry['name']
					for member in other['members']) for other in structs)
			for entry in structs)

		known_only = True
		stop = False
		for phase in ('attributes', 'named', 'unnamed'):
			try:
				expected = oracle.phase(phase)
				expected_error = None
			except OracleError as ex:
				expected = None
				expected_error = str(ex)
			actual = implementation.get(phase)
			model_phase = None if model_report is None else model_report.get(phase)
			sample = {'label': case['label'], 'phase': phase, 'structs': len(structs)}
			ctx.case((case.get('cats') or case['label'], phase), sample)

			if actual is None:
				break
			if isinstance(actual, dict) and 'error' in actual:
				ctx.count(f'{phase}:implementation-raises:{actual["error"]}')
				if expected is not None:
					signature = None
					if 'attributes' == phase and 'IndexError' == actual['error'] and any(
						'sizeref' == name and 1 == len(values) for entry in structs for member in entry['members'] if 'attributes' in member
						for name, values in member['attributes']):
						signature = SIG_SIZEREF
					self.fail_property(
						f'{phase}: post-processing raises {actual["error"]} ({actual["message"]}) on a schema the property gives a result for',
						{**case, 'phase': phase, 'raised': actual}, signature)
				elif 'named' == phase and 'AttributeError' == actual['error'] and has_template_placeholder:
					self.fail_property(
						f'{phase}: {actual["error"]} ({actual["message"]}) instead of an expansion or a diagnostic',
						{**case, 'phase': phase, 'raised': actual}, SIG_TEMPLATE_PLACEHOLDER)
				if model_phase is not None and 'error' not in model_phase and expected is None:
					ctx.fail('corr', f'{phase}: implementation raises {actual["error"]}, the model returns a result', {**case, 'phase': phase})
				stop = True
			elif expected is None:
				# the property gives no result (e.g. inapplicable attribute) but the implementation went on
				if 'named' == phase and has_template_placeholder:
					pass
				else:
					self.fail_property(f'{phase}: implementation accepts a schema the property rejects: {expected_error}', {**case, 'phase': phase})
				stop = True
			else:
				differences = 0
				if 'named' == phase:
					self.check_sort_key_uniform(snap, oracle, expected, actual, case)
				for entry, want, got in zip(snap, expected, actual):
					if not entry['struct']:
						if want != got:
							self.fail_property(f'{phase}: declaration {entry["name"]} changed by post-processing', {**case, 'phase': phase})
						continue
					ctx.count(f'{phase}:structs-compared')
					if want == got:
						continue
					relaxed = self.relax(oracle, entry, want, got, phase, ordered)
					if relaxed is not None:
						want = relaxed
						if want == got:
							ctx.count(f'{phase}:order-dependent-detail-accepted')
							continue
					copied = oracle.copied_flags(entry['name'], phase) if phase in ('named', 'unnamed') else []
					for path, left, right in cats_common.diff_paths(want, got):
						differences += 1
						signature = classify(path, left, right, copied, want)
						if signature is None and 'layout' == path[0] and nested_late and self.leftover_inline(got):
							signature = SIG_NESTED_ORDER
						self.fail_property(
							f'{phase}: struct {entry["name"]} at {"/".join(str(part) for part in path)}: the property demands {short(left)}, '
							f'the implementation has {short(right)}', {**case, 'phase': phase, 'struct': entry['name'], 'path': list(path)}, signature)
				if 0 == differences:
					ctx.count(f'{phase}:implementation-meets-property')

			# the model against the implementation (every difference has to be one of the listed defects of the copy methods) and,
			# for declared-before-use schemas, against the oracle (exactly)
			if model_phase is not None:
				if 'error' in model_phase:
					if not (isinstance(actual, dict) and 'error' in actual) and expected is not None:
						ctx.fail('corr', f'{phase}: the model rejects ({model_phase["error"]}), implementation and oracle do not', {**case, 'phase': phase})
					stop = True
				elif not (isinstance(actual, dict) and 'error' in actual):
					model_descriptors = [cats_json.canon(item) for item in model_phase]
					for entry, mine, got in zip(snap, model_descriptors, actual):
						if mine == got:
							continue
						copied = [True] * len(mine.get('layout', [])) if isinstance(mine, dict) else []
						for path, left, right in cats_common.diff_paths(mine, got):
							if classify(path, left, right, copied, mine) is None:
								ctx.fail(
									'corr', f'{phase}: model differs from implementation on {entry["name"]} at '
									f'{"/".join(str(part) for part in path)}: model {left!r}, implementation {right!r}', {**case, 'phase': phase})
								break
					special = info.get('options', {}).get('nested_out_of_order') or info.get('options', {}).get('template_placeholder')
					if ordered and expected is not None and not special and model_descriptors != expected:
						index = next(i for i, (a, b) in enumerate(zip(expected, model_descriptors)) if a != b)
						ctx.fail(
							'corr', f'{phase}: model differs from the oracle on {snap[index]["name"]}: '
							f'{cats_common.diff_paths(expected[index], model_descriptors[index])[:3]}', {**case, 'phase': phase})
			if stop:
				break

		if not stop and 'types' in implementation:
			expected_types = [entry['name'] for entry in snap if not (entry['struct'] and 'inline' == entry['disposition'])]
			ctx.case((case.get('cats') or case['label'], 'types'))
			if expected_types != implementation['types']:
				self.fail_property(
					f'type_descriptors: expected every declaration except inline structs {expected_types}, got {implementation["types"]}',
					{**case, 'phase': 'types'})
			if model_report is not None and 'types' in model_report and model_report['types'] != implementation['types']:
				ctx.fail('corr', 'type_descriptors: model and implementation differ', {**case, 'phase': 'types'})

	@staticmethod
	def leftover_inline(descriptor):
		return any('inline' == member.get('disposition') and 'name' in member for member in descriptor.get('layout', []))

	@staticmethod
	def relax(oracle, entry, want, got, phase, ordered):
		"""With declarations not in dependency order, the order of inherited attributes and the choice among several abstract
		ancestors depend on the processing order; the property does not fix them: any abstract ancestor is accepted as factory type,
		and for attributes given by several inlined structs any of the inherited ones (own attributes still come first)."""
		if ordered or 'unnamed' != phase:
			return None
		_, attributes, _, ancestors = oracle.full(entry['name'])
		own = list(entry['attributes'])
		inherited = attributes[len(own):]
		relaxed = dict(want)
		factory_type = got.get('factory_type')
		if factory_type in ancestors:
			relaxed['factory_type'] = factory_type
		for key in ('is_aligned', 'is_size_implicit', 'size', 'discriminator', 'comparer'):
			if any(name == key for name, _ in own) or key not in got:
				continue
			candidates = [Oracle.struct_descriptor(entry, [], [(name, values)], None).get(key) for name, values in inherited if name == key]
			if got[key] in candidates:
				relaxed[key] = got[key]
		if 'initializers' in got and 'initializers' in want:
			own_count = sum(1 for name, _ in own if 'initializes' == name)
			if got['initializers'][:own_count] == want['initializers'][:own_count] and sorted(map(json.dumps, got['initializers'])) == sorted(
				map(json.dumps, want['initializers'])):
				relaxed['initializers'] = got['initializers']
		return relaxed

# endregion


def check_shipped(checker, ctx):
	for name in ('symbol', 'nem'):
		models = cats_common.load_schema_set(name)
		snap = snapshot(models)
		ordered = is_declared_before_use(snap)
		ctx.count(f'shipped:{name}:declared-before-use:{ordered}')
		if not ordered:
			ctx.notes.append(f'shipped schema set {name} is not in declared-before-use order')
			ctx.fail('proof', f'instance hypothesis DeclaredBeforeUse does not hold for the shipped schema set {name}', {'label': f'shipped:{name}'})
		checker.check_models(models, {'ordered': ordered}, {'label': f'shipped:{name}'})


def run(ctx):
	rng = ctx.rng
	checker = Checker(ctx)
	if ctx.driver is not None:
		for text in ['', '#', '# a b\n#\n#\tc  \n# d', ' #x\n\n\n# y', '[a] b\n c']:
			answer = ctx.driver.ask('comment ' + (text.encode('utf8').hex().upper() or '-'))
			from catparser.ast import Comment  # pylint: disable=import-outside-toplevel
			want = Comment(text).parsed
			ctx.case(('comment', text))
			if answer != (want.encode('utf8').hex().upper() or '-'):
				ctx.fail('corr', f'Comment normalisation differs on {text!r}', {'label': 'comment', 'text': text})

	check_shipped(checker, ctx)

	count = ctx.scale(400, 10000)
	for index in range(count):
		options = {}
		pick = rng.random()
		if pick < 0.25:
			options['shuffle'] = True
		if rng.random() < 0.06:
			options['sizeref_without_delta'] = True
		if rng.random() < 0.04:
			options['template_placeholder'] = True
		if rng.random() < 0.05:
			options['nested_out_of_order'] = True
		text, info = gen_schema(rng, options)
		try:
			checker.check_text(text, info, f'random:{index}')
		except Exception as ex:  # pylint: disable=broad-except
			import traceback  # pylint: disable=import-outside-toplevel
			ctx.fail('corr', f'harness error {type(ex).__name__}: {ex} {traceback.format_exc(limit=4)}', {'label': f'random:{index}', 'cats': text})
			if ctx.counters.get('fail:corr', 0) > 5:
				break


def replay(ctx, payload):
	print(payload['what'])
	case = payload.get('case') or {}
	if 'cats' in case:
		Checker(ctx).check_text(case['cats'], {'options': {'nested_out_of_order': True}}, case.get('label', 'replay'))
	else:
		run(ctx)


MANIFEST = {
	'level_text': (
		'Each clause of the property is a Lean theorem over the model of AstPostProcessor/ast.py copy methods, for all schemas '
		'(expand_layout_eq_subst against the declarative Subst relation, named_prefixing, named_repointing, named_preserves, '
		'factory_type_closest_abstract, attributes_inherited_in_order, inline_structs_omitted, unnamed_terminates) and the boundary of the '
		'order hypothesis from the other side (late_template_breaks_layout, template_placeholder_rejected, factory_type_depends_on_order); the model is tied to the '
		'code by a differential run on random parsed schemas and both shipped schema sets, comparing every struct after every phase.'),
	'level_note': (
		'Trusted: Lean kernel + {propext, Classical.choice, Quot.sound}; hand-written model tied by differential execution only; theorems about '
		'nested named inlines and factory types assume declared-before-use order (checked for the shipped sets); duplicate declaration names '
		'and inline cycles are outside the model. Known open defects of the unchanged tree are listed in known_findings.jsonl.'),
	'technique': 'Lean 4 theorems over a hand-written model + differential correspondence with the Python implementation',
}
